"""GenPool (C18): which accesses of Pool.idle / Pool.busy / Pool.closed in Pool.process, Pool.notify_done and
Pool.close lie inside a `with self.count_lock:` region, plus the refusal reason given by the accept loop and the
order of the bookkeeping statements.  Fail closed on any shape that the model (coq/Model/Pool.v) has no variant for."""
import ast
from tools.gen.gen import generator, parse, find_func, need, GenError, HEADER, cbool, ctext, ast_sha, tree_module, module_assign

SHARED = ("idle", "busy", "closed")


def is_self_attr(node, attr=None):
    return isinstance(node, ast.Attribute) and isinstance(node.value, ast.Name) and node.value.id == "self" \
        and (attr is None or node.attr == attr)


def accesses(func, lock_attr="count_lock"):
    """source-ordered list of (attr, 'load'|'store', region index or None, lineno); regions = outermost with-lock blocks.
    A call of self.num_workers() counts as a load of busy and idle at the call site."""
    out, nreg = [], [0]

    def walk(node, region):
        if isinstance(node, (ast.FunctionDef, ast.AsyncFunctionDef, ast.Lambda)) and node is not func:
            raise GenError("nested function in Pool.%s" % func.name)
        if isinstance(node, ast.With):
            locks = [it for it in node.items if is_self_attr(it.context_expr, lock_attr)]
            if locks:
                need(len(node.items) == 1 and node.items[0].optional_vars is None, "unrecognised with-statement on count_lock")
                need(region is None, "nested count_lock regions in Pool.%s (threading.Lock is not re-entrant)" % func.name)
                nreg[0] += 1
                r = nreg[0]
                for st in node.body:
                    walk(st, r)
                return
        if is_self_attr(node):
            if node.attr in SHARED:
                out.append((node.attr, "store" if isinstance(node.ctx, ast.Store) else "load", region, node.lineno, node.col_offset))
            elif node.attr == lock_attr:
                raise GenError("use of self.count_lock outside a with-statement in Pool.%s" % func.name)
        if isinstance(node, ast.Call) and is_self_attr(node.func, "num_workers"):
            out.append(("busy", "load", region, node.lineno, node.col_offset))
            out.append(("idle", "load", region, node.lineno, node.col_offset))
        for ch in ast.iter_child_nodes(node):
            walk(ch, region)
    for st in func.body:
        walk(st, None)
    out.sort(key=lambda a: (a[3], a[4]))
    return [a[:4] for a in out], nreg[0]


def not_in_log(func):
    """line numbers of log.<level>(...) statements (accesses there are arguments of logging calls)"""
    lines = set()
    for n in ast.walk(func):
        if isinstance(n, ast.Expr) and isinstance(n.value, ast.Call) and isinstance(n.value.func, ast.Attribute) \
                and isinstance(n.value.func.value, ast.Name) and n.value.func.value.id == "log":
            lines.update(range(n.lineno, (n.end_lineno or n.lineno) + 1))
    return lines


def whole_method_locked(func):
    acc, nreg = accesses(func)
    logl = not_in_log(func)
    acc = [a for a in acc if a[3] not in logl]
    need(acc, "Pool.%s touches none of idle/busy/closed" % func.name)
    inside = [a[2] is not None for a in acc]
    if nreg == 0:
        return False, acc, nreg
    need(all(inside) and nreg == 1, "Pool.%s is only partly covered by count_lock (%d regions, %d of %d accesses inside): no model variant"
         % (func.name, nreg, sum(inside), len(inside)))
    # the region must be the whole body (apart from docstring / logging)
    body = [st for st in func.body if not (isinstance(st, ast.Expr) and isinstance(st.value, ast.Constant))
            and st.lineno not in logl]
    need(len(body) == 1 and isinstance(body[0], ast.With), "Pool.%s: statements outside the count_lock region" % func.name)
    return True, acc, nreg


def close_facts(func):
    acc, nreg = accesses(func)
    need(acc and acc[0][0] == "closed" and acc[0][1] == "load" and acc[0][2] is None,
         "Pool.close does not start with the unlocked `if not self.closed` test")
    rest = acc[1:]
    stores_closed = [i for i, a in enumerate(rest) if a[0] == "closed" and a[1] == "store"]
    need(len(stores_closed) == 1, "Pool.close: expected exactly one assignment to self.closed")
    k = stores_closed[0]
    part1, part2 = rest[:k + 1], rest[k + 1:]
    need([a[0] for a in part1 if a[1] == "load"] == ["busy", "idle"], "Pool.close: expected `list(self.busy)` then `list(self.idle)` before closed = True")
    need(sorted((a[0], a[1]) for a in part2) == [("busy", "load"), ("busy", "store"), ("idle", "load"), ("idle", "store")],
         "Pool.close: expected the two swaps of self.idle / self.busy after closed = True")
    need([a[0] for a in part2 if a[1] == "store"] == ["idle", "busy"], "Pool.close: swap order is not idle, busy")
    store_region = part1[-1][2]
    load_regions = {a[2] for a in part1[:-1]}
    need(not (store_region is None and load_regions != {None}),
         "Pool.close assigns self.closed OUTSIDE the count_lock region in which it tells the workers to stop "
         "(a Pool.process taking the lock in between still sees an open pool): no model variant")
    r1 = {a[2] for a in part1}
    r2 = {a[2] for a in part2}
    need(len(r1) == 1 and len(r2) == 1, "Pool.close: a phase is only partly inside count_lock: no model variant")
    r1, r2 = r1.pop(), r2.pop()
    need(r1 is None or r2 is None or r1 != r2, "Pool.close holds count_lock across the sleep (one region for both phases): no model variant")
    need(nreg == (r1 is not None) + (r2 is not None), "Pool.close: count_lock region without bookkeeping accesses")
    return r1 is not None, r2 is not None, acc


def probe_pool(tree):
    """Second reader for the lock coverage: the tree's own Pool.process / notify_done / close are RUN (no threads: Worker.start
    and Worker.join are stubbed) on recording twins of idle / busy / closed / count_lock; every access is recorded with the
    lock region it happened in.  Accesses made from log.<level>(...) statements are ignored.  Same strictness as the ast
    reader: a method is locked (whole call in one region), unlocked (no region), or the shape is rejected."""
    import sys, threading
    from tools.lib.coop_pool import log_lines
    m = tree_module(tree, "Pyro5.svr_threads")
    fname = m.__file__
    loglines = log_lines(fname)
    cfg = m.config
    saved_cfg = (cfg.THREADPOOL_SIZE, cfg.THREADPOOL_SIZE_MIN)
    W = m.Worker
    saved_w = {k: W.__dict__.get(k) for k in ("start", "join")}
    saved_sleep = m.time.sleep
    rec = []

    class RecLock(object):
        def __init__(self):
            self.held, self.regions = False, 0

        def acquire(self, *a, **k):
            need(not self.held, "count_lock acquired while held (threading.Lock is not re-entrant)")
            self.held = True
            self.regions += 1
            return True

        def release(self):
            self.held = False

        def __enter__(self):
            self.acquire()
            return self

        def __exit__(self, *a):
            self.release()
            return False
    lock = RecLock()

    def note(attr, kind, depth=2):
        f = sys._getframe(depth)
        g, k = f, 0
        while g is not None and k < 6:
            if g.f_code.co_filename == fname and g.f_lineno in loglines:
                return
            g, k = g.f_back, k + 1
        rec.append((attr, kind, lock.regions if lock.held else None, f.f_lineno))

    class RSet(set):
        _name, _live = "?", True

        def _n(self, kind):
            if self._live:
                note(self._name, kind, 3)

        def __len__(self):
            self._n("load")
            return set.__len__(self)

        def __bool__(self):
            self._n("load")
            return set.__len__(self) > 0

        def __contains__(self, x):
            self._n("load")
            return set.__contains__(self, x)

        def __iter__(self):
            self._n("load")
            return iter(list(set.__iter__(self)))

        def add(self, x):
            self._n("load")
            set.add(self, x)

        def remove(self, x):
            self._n("load")
            set.remove(self, x)

        def discard(self, x):
            self._n("load")
            set.discard(self, x)

        def pop(self):
            self._n("load")
            return set.pop(self)

    def setprop(name):
        def g(self_):
            return self_.__dict__["_" + name]

        def st(self_, v):
            old = self_.__dict__.get("_" + name)
            if old is not None:
                note(name, "store")
                old._live = False
            n = RSet(v)
            n._name = name
            self_.__dict__["_" + name] = n
        return property(g, st)

    def closed_get(self_):
        note("closed", "load")
        return self_.__dict__.get("_closed", False)

    def closed_set(self_, v):
        if "_closed" in self_.__dict__:
            note("closed", "store")
        self_.__dict__["_closed"] = v

    class P(m.Pool):
        idle = setprop("idle")
        busy = setprop("busy")
        closed = property(closed_get, closed_set)

    def classify(calls, what):
        verdicts = set()
        for acc, nreg in calls:
            acc = [a for a in acc]
            need(acc, "%s touched none of idle/busy/closed when probed" % what)
            inside = [a[2] is not None for a in acc]
            if nreg == 0 and not any(inside):
                verdicts.add(False)
            else:
                need(all(inside) and nreg == 1, "%s is only partly covered by count_lock when probed (%d regions, %d of %d accesses inside): no model variant"
                     % (what, nreg, sum(inside), len(inside)))
                verdicts.add(True)
        need(len(verdicts) == 1, "%s takes count_lock on some paths only" % what)
        return verdicts.pop()

    def call(fn, *a):
        del rec[:]
        lock.regions = 0
        try:
            fn(*a)
        except m.PoolError:
            pass
        return list(rec), lock.regions
    try:
        cfg.THREADPOOL_SIZE, cfg.THREADPOOL_SIZE_MIN = 2, 1
        W.start = lambda self_: None
        W.join = lambda self_, timeout=None: None
        m.time.sleep = lambda x: None
        pool = P()
        pool.count_lock = lock
        jobs = [lambda: None, lambda: None, lambda: None]
        pc = [call(pool.process, j) for j in jobs]                # idle worker, new worker, refusal
        busy = list(set.__iter__(pool.__dict__["_busy"]))
        need(len(busy) == 2, "probe: expected two busy workers after two submits")
        first = [w for w in busy if w.job is jobs[0]] + [w for w in busy if w.job is not jobs[0]]
        for w in first:
            w.job = None
        nc = [call(pool.notify_done, w) for w in first]            # back to idle, retired
        cc, _ = call(pool.close)
    except GenError:
        raise
    except Exception as x:  # noqa
        raise GenError("probing Pool failed: %s: %s" % (type(x).__name__, x))
    finally:
        cfg.THREADPOOL_SIZE, cfg.THREADPOOL_SIZE_MIN = saved_cfg
        for k, v in saved_w.items():
            if v is None:
                try:
                    delattr(W, k)
                except AttributeError:
                    pass
            else:
                setattr(W, k, v)
        m.time.sleep = saved_sleep
    lp = classify(pc, "Pool.process")
    ln = classify(nc, "Pool.notify_done")
    need(cc and cc[0][0] == "closed" and cc[0][1] == "load" and cc[0][2] is None,
         "Pool.close does not start with the unlocked test of self.closed (probed)")
    rest = cc[1:]
    ks = [i for i, a in enumerate(rest) if a[0] == "closed" and a[1] == "store"]
    need(len(ks) == 1, "Pool.close: expected exactly one assignment to self.closed (probed)")
    part1, part2 = rest[:ks[0] + 1], rest[ks[0] + 1:]
    need({a[0] for a in part1 if a[1] == "load"} >= {"busy", "idle"}, "Pool.close does not look at busy and idle before closed = True (probed)")
    need([a[0] for a in part2 if a[1] == "store"] == ["idle", "busy"], "Pool.close: swap order is not idle, busy (probed)")
    store_region = part1[-1][2]
    need(not (store_region is None and {a[2] for a in part1[:-1]} != {None}),
         "Pool.close assigns self.closed OUTSIDE the count_lock region in which it tells the workers to stop "
         "(a Pool.process taking the lock in between still sees an open pool): no model variant")
    r1, r2 = {a[2] for a in part1}, {a[2] for a in part2}
    need(len(r1) == 1 and len(r2) == 1, "Pool.close: a phase is only partly inside count_lock: no model variant (probed)")
    r1, r2 = r1.pop(), r2.pop()
    need(r1 is None or r2 is None or r1 != r2, "Pool.close holds count_lock across the sleep (one region for both phases): no model variant")
    return lp, ln, r1 is not None, r2 is not None, pc[0][0], nc[0][0], cc


def probe_handback(tree):
    """Second reader: run the tree's Worker.run loop in this thread on a stand-in whose job raises; the worker must clear its
    slot and call pool.notify_done all the same."""
    import logging, threading
    m = tree_module(tree, "Pyro5.svr_threads")

    class Stop(BaseException):
        pass

    class Ev(object):
        def __init__(self):
            self.n = 0

        def wait(self, timeout=None):
            self.n += 1
            if self.n > 1:
                raise Stop()
            return True

        def clear(self):
            pass

        def set(self):
            pass

        def is_set(self):
            return True
    seen = []

    class FakePool(object):
        def notify_done(self, worker):
            seen.append(worker.job)

    class Probe(m.Worker):
        def __init__(self):
            threading.Thread.__init__(self)

    def job():
        raise RuntimeError("probe: the job ends by raising")
    w = Probe()
    w.job_available, w.job, w.pool = Ev(), job, FakePool()
    logging.disable(logging.CRITICAL)
    try:
        try:
            m.Worker.run(w)
        except Stop:
            pass
    except Exception as x:  # noqa
        raise GenError("probing Worker.run failed: %s: %s" % (type(x).__name__, x))
    finally:
        logging.disable(logging.NOTSET)
    return seen == [None]


@generator("GenPool", "Pyro5/svr_threads.py")
def gen_pool(tree):
    mod, _ = parse(tree, "Pyro5/svr_threads.py")
    init = find_func(mod, "__init__", "Pool")
    cl = [n for n in ast.walk(init) if isinstance(n, ast.Assign) and len(n.targets) == 1 and is_self_attr(n.targets[0], "count_lock")]
    need(len(cl) == 1 and isinstance(cl[0].value, ast.Call) and isinstance(cl[0].value.func, ast.Attribute)
         and cl[0].value.func.attr == "Lock", "Pool.count_lock is not created as threading.Lock() in __init__")
    process = find_func(mod, "process", "Pool")
    notify = find_func(mod, "notify_done", "Pool")
    close = find_func(mod, "close", "Pool")
    mode = {}
    pcls = [n for n in mod.body if isinstance(n, ast.ClassDef) and n.name == "Pool"]
    need(len(pcls) == 1, "class Pool not found exactly once")
    helper_names = {n.name for n in pcls[0].body if isinstance(n, ast.FunctionDef)} - {"process", "notify_done", "close", "num_workers", "__init__"}

    def calls_helper(fn):
        return sorted({c.func.attr for c in ast.walk(fn) if isinstance(c, ast.Call) and isinstance(c.func, ast.Attribute)
                       and isinstance(c.func.value, ast.Name) and c.func.value.id in ("self", "Pool") and c.func.attr in helper_names})
    try:
        for fn in (process, notify, close):
            hs = calls_helper(fn)
            need(not hs, "Pool.%s delegates to %s: coverage is read by running it" % (fn.name, ", ".join(hs)))
        lp, accp, _ = whole_method_locked(process)
        ln, accn, _ = whole_method_locked(notify)
        l1, l2, accc = close_facts(close)
        mode["locks"] = "ast"
    except GenError as x_ast:
        # second reader: run the three methods of the tree's own Pool on recording twins and look where the lock is held
        lp, ln, l1, l2, accp, accn, accc = probe_pool(tree)
        mode["locks"] = "probe (ast reader: %s)" % x_ast
    # num_workers itself must not take the (non re-entrant) lock
    nwk = find_func(mod, "num_workers", "Pool")
    need(not any(is_self_attr(n, "count_lock") for n in ast.walk(nwk)), "Pool.num_workers takes count_lock (process calls it while holding it)")
    # Worker.process / Worker.run must not touch the pool's sets or lock
    wcls = [n for n in mod.body if isinstance(n, ast.ClassDef) and n.name == "Worker"]
    need(len(wcls) == 1, "class Worker not found exactly once")
    for f in [n for n in wcls[0].body if isinstance(n, ast.FunctionDef) and n.name != "__init__"]:
        nm = f.name
        for n in ast.walk(f):
            need(not (isinstance(n, ast.Attribute) and n.attr in ("idle", "busy", "closed", "count_lock")),
                 "Worker.%s touches pool bookkeeping directly" % nm)
    # refusal reason in the accept loop
    ev = find_func(mod, "events", "SocketServer_Threadpool")
    reasons = []
    for n in ast.walk(ev):
        if isinstance(n, ast.ExceptHandler) and isinstance(n.type, ast.Name) and n.type.id == "NoFreeWorkersError":
            for c in ast.walk(n):
                if isinstance(c, ast.Call) and isinstance(c.func, ast.Attribute) and c.func.attr == "denyConnection":
                    need(len(c.args) == 1, "denyConnection is not called with one argument")
                    arg = c.args[0]
                    if isinstance(arg, ast.Name):        # a module-level name for the text
                        arg = module_assign(mod, arg.id)
                    need(isinstance(arg, ast.Constant) and isinstance(arg.value, str),
                         "denyConnection is not called with a string literal (or a module-level string constant)")
                    reasons.append(arg.value)
    need(len(reasons) == 1, "expected exactly one `except NoFreeWorkersError: job.denyConnection(<text>)` in events()")
    need(reasons[0].strip() != "", "refusal reason is empty")

    # Worker.run: `self.job = None; self.pool.notify_done(self)` must follow the try statement around `self.job()`
    # unconditionally (a job that ends by raising is handed back like one that returns)
    try:
        wrun = find_func(mod, "run", "Worker")
        loops = [n for n in wrun.body if isinstance(n, ast.While)]
        need(len(loops) == 1, "Worker.run: expected one while loop")
        body = loops[0].body
        tries = [k for k, st in enumerate(body) if isinstance(st, ast.Try) and any(
            isinstance(c, ast.Call) and is_self_attr(c.func, "job") for c in ast.walk(st))]
        need(len(tries) == 1, "Worker.run: expected exactly one try statement around self.job()")
        tr = body[tries[0]]
        catches_exception = any(isinstance(h.type, ast.Name) and h.type.id in ("Exception", "BaseException") or h.type is None for h in tr.handlers)

        def is_job_clear(st):
            return isinstance(st, ast.Assign) and len(st.targets) == 1 and is_self_attr(st.targets[0], "job") \
                and isinstance(st.value, ast.Constant) and st.value.value is None

        def is_notify(st):
            return isinstance(st, ast.Expr) and isinstance(st.value, ast.Call) and isinstance(st.value.func, ast.Attribute) \
                and st.value.func.attr == "notify_done"
        after = body[tries[0] + 1:]
        in_try_only = len(tr.body) == 1 and not tr.orelse
        handback = bool(catches_exception and in_try_only and len(after) >= 2 and is_job_clear(after[0]) and is_notify(after[1])
                        and not any(isinstance(n, (ast.Break, ast.Continue, ast.Return, ast.Raise)) for h in tr.handlers for n in ast.walk(h)))
        mode["handback"] = "ast"
    except GenError as x_ast:
        handback = probe_handback(tree)
        mode["handback"] = "probe (ast reader: %s)" % x_ast
    # accept loop: the accepted socket gets its COMMTIMEOUT before the connection is submitted (so the refusal
    # handshake, which runs in the accept-loop thread, cannot block forever on a silent peer)
    blocks = [n for n in ast.walk(ev) if isinstance(n, ast.With)]
    need(len(blocks) >= 1, "events(): with-block not found")
    stmts = blocks[0].body

    def has_call(st, attr):
        return any(isinstance(c, ast.Call) and isinstance(c.func, ast.Attribute) and c.func.attr == attr for c in ast.walk(st))
    k_submit = [k for k, st in enumerate(stmts) if has_call(st, "process")]
    need(len(k_submit) == 1, "events(): expected exactly one statement calling pool.process")
    k_timeout = [k for k, st in enumerate(stmts) if isinstance(st, ast.If) and has_call(st, "settimeout")
                 and any(isinstance(n, ast.Attribute) and n.attr == "COMMTIMEOUT" for n in ast.walk(st.test))]
    timeout_first = bool(k_timeout and k_timeout[0] < k_submit[0])

    def show(acc):
        return ["%s:%s@%d:%s" % (a, k, ln_, "OUT" if r is None else "in%d" % r) for a, k, r, ln_ in acc]
    out = HEADER % "Pyro5/svr_threads.py"
    out += "(* readers: %s *)\n" % "; ".join("%s=%s" % (k, v.split(" ")[0]) for k, v in sorted(mode.items()))
    out += "(* Pool.process: %s *)\n" % show(accp)
    out += "Definition pool_process_locked : bool := %s.\n" % cbool(lp)
    out += "(* Pool.notify_done: %s *)\n" % show(accn)
    out += "Definition pool_notify_locked : bool := %s.\n" % cbool(ln)
    out += "(* Pool.close: %s *)\n" % show(accc)
    out += "Definition pool_close_notify_locked : bool := %s.\n" % cbool(l1)
    out += "Definition pool_close_swap_locked : bool := %s.\n" % cbool(l2)
    out += "(* Worker.run: job slot cleared and notify_done called after the try around self.job(), whatever the job did *)\n"
    out += "Definition worker_handback_unconditional : bool := %s.\n" % cbool(handback)
    out += "(* events(): `if config.COMMTIMEOUT: csock.settimeout(...)` precedes pool.process(job) *)\n"
    out += "Definition accept_timeout_before_submit : bool := %s.\n" % cbool(timeout_first)
    out += "(* reason passed to denyConnection when the pool is full: %r *)\n" % reasons[0]
    out += "Definition deny_reason : list N := %s.\n" % ctext(reasons[0])
    return out, {"process_locked": lp, "notify_locked": ln, "close1_locked": l1, "close2_locked": l2, "deny_reason": reasons[0],
                 "worker_handback": handback, "mode": mode, "accept_timeout_before_submit": timeout_first,
                 "ast_sha": {"process": ast_sha(process), "notify_done": ast_sha(notify), "close": ast_sha(close)}}
