"""GenExcs (C07): what decides whether a remote exception arrives as itself.

* runtime tables of the tree under test (by importing its modules, nothing is called):
  the classes in `serializers.all_exceptions` with module and MRO names, its key set, the
  names in `builtins` that are exception classes;
* Pyro5/errors.py by `ast`: name -> base hierarchy (cross-checked against the runtime MROs);
* Pyro5/server.py `Daemon.handleRequest` by `ast`: the class caught by the outer handler, the
  isinstance tests that decide reply / no reply, the re-raise test, the class caught around a
  batch member, presence of the traceback assignments, and `_sendExceptionResponse`'s fallback
  handler;
* Pyro5/client.py `Proxy._pyroInvoke`: the classes whose arrival releases the connection;
* Pyro5/serializers.py: keys of the exception dict built by `class_to_dict`, the literals that
  `dict_to_class` tests the class name with, whether `make_exception` restores attributes.
Fail closed (GenError) on any shape that is not recognised."""
import ast, importlib, os, sys
from tools.gen.gen import generator, parse, find_class, find_func, need, GenError, HEADER, clist, cN, ctext, cbool, ast_sha


def T(s):
    return ctext(s) + " (* %s *)" % "".join(ch if (ch.isalnum() or ch in "._<>") else "?" for ch in s)


def attr_name(n):
    """errors.X / X -> 'X'"""
    if isinstance(n, ast.Attribute):
        return n.attr
    if isinstance(n, ast.Name):
        return n.id
    raise GenError("class reference is neither a name nor an attribute")


def attr_name_or_none(n):
    try:
        return attr_name(n)
    except GenError:
        return None


def qual(n):
    """errors.X -> 'Pyro5.errors.X';  X -> 'builtins.X' (X must be a builtin exception class)"""
    import builtins
    if isinstance(n, ast.Attribute) and isinstance(n.value, ast.Name) and n.value.id == "errors":
        return "Pyro5.errors." + n.attr
    if isinstance(n, ast.Name):
        t = getattr(builtins, n.id, None)
        need(isinstance(t, type) and issubclass(t, BaseException), "handler names %s, which is not a builtin exception class" % n.id)
        return "builtins." + n.id
    raise GenError("class reference is neither errors.<Name> nor a builtin name")


_CONSTS = {}      # module-level `NAME = <expr>` of the file being read: a class tuple may have moved behind a name


def class_tuple(n):
    if isinstance(n, ast.Name) and isinstance(_CONSTS.get(n.id), (ast.Tuple, ast.Attribute)):
        n = _CONSTS[n.id]
    if isinstance(n, ast.Tuple):
        return [c for e in n.elts for c in class_tuple(e)]
    return [qual(n)]


def isinstance_test(n, var):
    """isinstance(var, C) / isinstance(var, (C1, C2)) -> [names]; else None"""
    if isinstance(n, ast.Call) and isinstance(n.func, ast.Name) and n.func.id == "isinstance" and len(n.args) == 2 \
            and isinstance(n.args[0], ast.Name) and n.args[0].id == var:
        return class_tuple(n.args[1])
    return None


def import_tree_module(tree, name):
    """import Pyro5.<name> from the tree under test (the checker put the tree first on sys.path)"""
    if os.path.realpath(tree) not in [os.path.realpath(p) for p in sys.path if p]:
        sys.path.insert(0, tree)
    mod = importlib.import_module("Pyro5." + name)
    f = os.path.realpath(getattr(mod, "__file__", "") or "")
    need(f.startswith(os.path.realpath(tree) + os.sep), "Pyro5.%s was imported from %s, not from the tree under test %s" % (name, f, tree))
    return mod


def errors_hierarchy(tree):
    mod, _ = parse(tree, "Pyro5/errors.py")
    out = []
    for n in mod.body:
        if isinstance(n, ast.ClassDef):
            need(len(n.bases) == 1, "class %s in errors.py does not have exactly one base" % n.name)
            out.append((n.name, attr_name(n.bases[0])))
    need(("PyroError", "Exception") in out, "PyroError(Exception) not found in errors.py")
    return out


def handler_facts(tree):
    mod, _ = parse(tree, "Pyro5/server.py")
    _CONSTS.clear()
    _CONSTS.update(module_constants(mod))
    f = find_func(mod, "handleRequest", "Daemon")
    tries = [n for n in f.body if isinstance(n, ast.Try)]
    need(len(tries) == 2, "handleRequest: expected two top-level try statements, found %d" % len(tries))
    outer = tries[1]
    need(len(outer.handlers) == 1 and not outer.finalbody and not outer.orelse, "handleRequest: outer try has an unexpected shape")
    h = outer.handlers[0]
    need(h.type is not None and h.name, "handleRequest: outer handler must name a class and bind the exception")
    catch = class_tuple(h.type)
    need(len(catch) == 1, "handleRequest: outer handler catches a tuple")
    var = h.name
    hbody = h.body
    while len(hbody) == 1 and isinstance(hbody[0], ast.Try) and not hbody[0].handlers and not hbody[0].orelse:
        hbody = hbody[0].body          # try/finally wrapper around the handler's statements: the finally part is not routing
    ifs = [n for n in hbody if isinstance(n, ast.If)]
    need(len(ifs) in (2, 3), "handleRequest: outer handler: expected two or three if statements, found %d" % len(ifs))
    # if msg: ... (pyroMsg) ; if not isinstance(xv, CCE): if not oneway: if isinstance(xv, SE) or not isinstance(xv, CE): send
    t = ifs[1].test
    need(isinstance(t, ast.UnaryOp) and isinstance(t.op, ast.Not), "handleRequest: reply guard is not `if not isinstance(...)`")
    noreply = isinstance_test(t.operand, var)
    gbody = [n for n in ifs[1].body if not isinstance(n, ast.Pass)]
    need(noreply is not None and not ifs[1].orelse and len(gbody) in (1, 2) and all(isinstance(n, ast.If) for n in gbody),
         "handleRequest: reply guard has an unexpected shape")
    # the re-raise statement: at handler level (after the guard) or inside the guard's block
    need((len(ifs) == 3) != (len(gbody) == 2), "handleRequest: the re-raise statement is not found exactly once")
    reraise_guarded = len(gbody) == 2
    rr_node = gbody[1] if reraise_guarded else ifs[2]
    ow = gbody[0]
    need(isinstance(ow.test, ast.UnaryOp) and isinstance(ow.test.op, ast.Not) and "FLAGS_ONEWAY" in ast.dump(ow.test)
         and not ow.orelse and len(ow.body) == 1 and isinstance(ow.body[0], ast.If), "handleRequest: oneway guard has an unexpected shape")
    cond = ow.body[0]
    need(isinstance(cond.test, ast.BoolOp) and isinstance(cond.test.op, ast.Or) and len(cond.test.values) == 2 and not cond.orelse,
         "handleRequest: reply condition is not `A or not B`")
    a, b = cond.test.values
    reply_if = isinstance_test(a, var)
    need(reply_if is not None, "handleRequest: first disjunct of the reply condition is not an isinstance test")
    need(isinstance(b, ast.UnaryOp) and isinstance(b.op, ast.Not), "handleRequest: second disjunct is not a negation")
    reply_unless = isinstance_test(b.operand, var)
    need(reply_unless is not None, "handleRequest: second disjunct is not `not isinstance(...)`")
    sends = [c for c in ast.walk(cond) if isinstance(c, ast.Call) and isinstance(c.func, ast.Attribute) and c.func.attr == "_sendExceptionResponse"]
    need(len(sends) == 1, "handleRequest: the reply branch does not call _sendExceptionResponse exactly once")
    need(len(sends[0].args) == 5 and isinstance(sends[0].args[3], ast.Name) and sends[0].args[3].id == var
         and isinstance(sends[0].args[4], ast.Name), "handleRequest: _sendExceptionResponse is not called with (conn, seq, ser, xv, tblines)")
    tbvar = sends[0].args[4].id
    tbassign = [s for s in cond.body if isinstance(s, ast.Assign) and isinstance(s.targets[0], ast.Name) and s.targets[0].id == tbvar
                and isinstance(s.value, ast.Call) and attr_name(s.value.func) == "format_traceback"]
    need(len(tbassign) == 1, "handleRequest: traceback lines are not produced by errors.format_traceback")
    # re-raise
    rr = rr_node
    need(isinstance(rr.test, ast.BoolOp) and isinstance(rr.test.op, ast.Or) and len(rr.test.values) == 2
         and isinstance(rr.test.values[0], ast.Name) and rr.test.values[0].id == "isCallback"
         and len(rr.body) == 1 and isinstance(rr.body[0], ast.Raise) and rr.body[0].exc is None and not rr.orelse,
         "handleRequest: re-raise statement has an unexpected shape")
    reraise = isinstance_test(rr.test.values[1], var)
    need(reraise is not None, "handleRequest: re-raise test is not an isinstance test")
    # batch member handler: the try whose handler wraps the caught exception in _ExceptionWrapper, in the dispatch code
    # itself or in a private helper it calls
    batch_try = []
    for fn in reachable(mod, "Daemon", ast.Module(body=list(outer.body), type_ignores=[]), depth=2):
        for n in ast.walk(fn):
            if isinstance(n, ast.Try) and n not in batch_try:
                for hh in n.handlers:
                    if hh.name and any(isinstance(c, ast.Call) and attr_name_or_none(c.func) == "_ExceptionWrapper" and len(c.args) == 1
                                       and isinstance(c.args[0], ast.Name) and c.args[0].id == hh.name for st in hh.body for c in ast.walk(st)):
                        batch_try.append(n)
                        break
    need(len(batch_try) == 1, "handleRequest: expected exactly one try that wraps a batch member's exception, found %d" % len(batch_try))
    bt = batch_try[0]
    need(len(bt.handlers) == 1 and bt.handlers[0].type is not None and bt.handlers[0].name, "batch member handler has an unexpected shape")
    bcatch = class_tuple(bt.handlers[0].type)
    need(len(bcatch) == 1, "batch member handler catches a tuple")
    bvar = bt.handlers[0].name
    body = bt.handlers[0].body
    b_tb = any(isinstance(s, ast.Assign) and isinstance(s.targets[0], ast.Attribute) and s.targets[0].attr == "_pyroTraceback"
               and isinstance(s.targets[0].value, ast.Name) and s.targets[0].value.id == bvar for s in body)
    b_wrap = any(isinstance(c, ast.Call) and attr_name(c.func) == "_ExceptionWrapper" and len(c.args) == 1
                 and isinstance(c.args[0], ast.Name) and c.args[0].id == bvar for s in body for c in ast.walk(s))
    b_break = any(isinstance(s, (ast.Break, ast.Return)) for s in body)
    need(b_wrap, "batch member handler does not wrap the exception in _ExceptionWrapper")
    # _sendExceptionResponse
    s = find_func(mod, "_sendExceptionResponse", "Daemon")
    params = [a.arg for a in s.args.args]
    need(params[:6] == ["self", "connection", "seq", "serializer_id", "exc_value", "tbinfo"], "_sendExceptionResponse: unexpected parameters")
    first_tb = any(isinstance(st, ast.Assign) and isinstance(st.targets[0], ast.Attribute) and st.targets[0].attr == "_pyroTraceback"
                   and isinstance(st.targets[0].value, ast.Name) and st.targets[0].value.id == "exc_value"
                   and isinstance(st.value, ast.Name) and st.value.id == "tbinfo" for st in s.body)
    stries = [n for n in s.body if isinstance(n, ast.Try)]
    fb_present, fb_catch, fb_class, fb_tb = False, [], "", False
    if stries:
        need(len(stries) == 1 and len(stries[0].handlers) == 1, "_sendExceptionResponse: unexpected try shape")
        need(any(isinstance(c, ast.Call) and isinstance(c.func, ast.Attribute) and c.func.attr == "dumps" for st in stries[0].body for c in ast.walk(st)),
             "_sendExceptionResponse: the try does not guard serializer.dumps")
        hh = stries[0].handlers[0]
        fb_catch = class_tuple(hh.type) if hh.type is not None else ["builtins.BaseException"]
        mk = [st for st in hh.body if isinstance(st, ast.Assign) and isinstance(st.targets[0], ast.Name) and st.targets[0].id == "exc_value"
              and isinstance(st.value, ast.Call)]
        need(len(mk) == 1, "_sendExceptionResponse: fallback does not build a replacement exception")
        fb_class = qual(mk[0].value.func)
        fb_tb = any(isinstance(st, ast.Assign) and isinstance(st.targets[0], ast.Attribute) and st.targets[0].attr == "_pyroTraceback" for st in hh.body)
        redump = any(isinstance(c, ast.Call) and isinstance(c.func, ast.Attribute) and c.func.attr == "dumps" for st in hh.body for c in ast.walk(st))
        need(redump, "_sendExceptionResponse: fallback does not serialise the replacement")
        fb_present = True
    return {"catch": catch[0], "reraise_guarded": reraise_guarded, "noreply": noreply, "reply_if": reply_if, "reply_unless": reply_unless, "reraise": reraise,
            "batch_catch": bcatch[0], "batch_tb": b_tb, "batch_break": b_break, "send_sets_tb": first_tb,
            "fb_present": fb_present, "fb_catch": fb_catch, "fb_class": fb_class, "fb_tb": fb_tb,
            "sha": {"handleRequest": ast_sha(f), "_sendExceptionResponse": ast_sha(s)}}


def client_facts(tree):
    mod, _ = parse(tree, "Pyro5/client.py")
    _CONSTS.clear()
    _CONSTS.update(module_constants(mod))
    f = find_func(mod, "_pyroInvoke", "Proxy")
    tries = [n for n in f.body if isinstance(n, ast.Try)]
    need(len(tries) == 1 and len(tries[0].handlers) == 1, "_pyroInvoke: expected one try with one handler")
    t = tries[0]
    # the statement that raises the decoded reply: `raise <name>` where <name> = <serializer>.loads(...), in the try body
    # itself or in a private helper called from it (so that the handler below is what decides about the connection)
    raises = []
    for fn in reachable(mod, "Proxy", ast.Module(body=list(t.body), type_ignores=[]), depth=2):
        loaded = {tg.id for a in ast.walk(fn) if isinstance(a, ast.Assign) and isinstance(a.value, ast.Call)
                  and isinstance(a.value.func, ast.Attribute) and a.value.func.attr == "loads"
                  for tg in a.targets if isinstance(tg, ast.Name)}
        raises += [n for n in ast.walk(fn) if isinstance(n, ast.Raise) and isinstance(n.exc, ast.Name) and n.exc.id in loaded]
    need(len(raises) == 1, "_pyroInvoke: the `raise <decoded reply>` statement was not found exactly once inside the try (or its helpers)")
    h = t.handlers[0]
    need(h.type is not None, "_pyroInvoke: bare except")
    rel = class_tuple(h.type)
    releases = any(isinstance(c, ast.Call) and isinstance(c.func, ast.Attribute) and c.func.attr == "_pyroRelease" for st in h.body for c in ast.walk(st))
    reraises = any(isinstance(st, ast.Raise) and st.exc is None for st in h.body)
    need(reraises, "_pyroInvoke: handler does not re-raise")
    return {"release_on": rel if releases else [], "sha": ast_sha(f)}


def reachable(mod, clsname, func, depth=2):
    """func plus the private helpers of the same class / module it calls (cls.x(), self.x(), Class.x(), x()), `depth` levels"""
    cls = find_class(mod, clsname)
    methods = {n.name: n for n in cls.body if isinstance(n, ast.FunctionDef)}
    modfuncs = {n.name: n for n in mod.body if isinstance(n, ast.FunctionDef)}
    classnames = {n.name for n in mod.body if isinstance(n, ast.ClassDef)} | {"cls", "self"}
    seen, frontier = [func], [func]
    for _ in range(depth):
        nxt = []
        for f in frontier:
            for c in ast.walk(f):
                if not isinstance(c, ast.Call):
                    continue
                t = None
                if isinstance(c.func, ast.Attribute) and isinstance(c.func.value, ast.Name) and c.func.value.id in classnames:
                    t = methods.get(c.func.attr)
                elif isinstance(c.func, ast.Name):
                    t = modfuncs.get(c.func.id)
                if t is not None and t not in seen:
                    seen.append(t)
                    nxt.append(t)
        frontier = nxt
    return seen


def helper_of_call(mod, clsname, call):
    """the FunctionDef a call like cls.x(...) / x(...) refers to, or None"""
    fs = reachable(mod, clsname, ast.Module(body=[ast.Expr(value=call)], type_ignores=[]), depth=1)
    return fs[1] if len(fs) > 1 else None


def module_constants(mod):
    out = {}
    for n in mod.body:
        if isinstance(n, ast.Assign) and len(n.targets) == 1 and isinstance(n.targets[0], ast.Name):
            out[n.targets[0].id] = n.value
    return out


def ctd_keys_ast(mod):
    ctd = find_func(mod, "class_to_dict", "SerializerBase")
    keys = None
    for n in ast.walk(ctd):
        if isinstance(n, ast.If) and isinstance(n.test, ast.Call) and isinstance(n.test.func, ast.Name) and n.test.func.id == "isinstance" \
                and len(n.test.args) == 2 and isinstance(n.test.args[1], ast.Name) and n.test.args[1].id == "BaseException":
            rets = [st for st in n.body if isinstance(st, ast.Return)]
            need(len(rets) == 1, "class_to_dict: exception branch does not return exactly once")
            d = rets[0].value
            if isinstance(d, ast.Call):          # the dict is built by a private helper
                h = helper_of_call(mod, "SerializerBase", d)
                need(h is not None, "class_to_dict: exception branch returns a call that is not a helper of this module")
                hrets = [st for st in ast.walk(h) if isinstance(st, ast.Return)]
                need(len(hrets) == 1, "class_to_dict: exception helper does not return exactly once")
                d = hrets[0].value
            need(isinstance(d, ast.Dict), "class_to_dict: exception branch does not return a dict literal")
            keys = []
            for k, v in zip(d.keys, d.values):
                need(isinstance(k, ast.Constant) and isinstance(k.value, str), "class_to_dict: non-literal key")
                src = ast.dump(v)
                if k.value == "__class__":
                    if isinstance(v, ast.Call) and "__module__" not in src:
                        h = helper_of_call(mod, "SerializerBase", v)
                        need(h is not None, "class_to_dict: __class__ is computed by an unknown call")
                        src = ast.dump(h)
                    need("__module__" in src and "__name__" in src, "class_to_dict: __class__ is not module + name")
                elif k.value == "__exception__":
                    need(isinstance(v, ast.Constant) and v.value is True, "class_to_dict: __exception__ is not True")
                elif k.value == "args":
                    need(isinstance(v, ast.Attribute) and v.attr == "args", "class_to_dict: args is not obj.args")
                elif k.value == "attributes":
                    need(isinstance(v, ast.Call) and attr_name(v.func) == "vars", "class_to_dict: attributes is not vars(obj)")
                else:
                    raise GenError("class_to_dict: unknown key %r in the exception dict" % k.value)
                keys.append(k.value)
    need(keys is not None, "class_to_dict: `if isinstance(obj, BaseException)` branch not found")
    return keys


class _ProbeError(ValueError):
    pass


def probe_exception():
    e = ValueError("a", 1)
    e.__dict__.update({"foo": [1, None], "zero": 0, "none": None, "empty": "", "_p": {"k": 1}, "__x__": 2, "has space": 3})
    if hasattr(e, "add_note"):
        e.add_note("n")
    return e


def ctd_keys_probed(tree):
    """second reader: what SerializerBase.class_to_dict actually builds for an exception object"""
    from tools.gen.gen import tree_module
    ser = tree_module(tree, "Pyro5.serializers")
    e = probe_exception()
    want = dict(vars(e))
    d = ser.SerializerBase.class_to_dict(e)
    need(isinstance(d, dict), "class_to_dict(exception) does not give a dict")
    for k, v in d.items():
        if k == "__class__":
            need(v == "builtins.ValueError", "class_to_dict: __class__ of ValueError is %r" % (v,))
        elif k == "__exception__":
            need(v is True, "class_to_dict: __exception__ is %r" % (v,))
        elif k == "args":
            need(tuple(v) == ("a", 1), "class_to_dict: args of ValueError('a', 1) are %r" % (v,))
        elif k == "attributes":
            need(dict(v) == want, "class_to_dict: attributes are not vars(obj): %r" % (v,))
        else:
            raise GenError("class_to_dict: unknown key %r in the exception dict" % (k,))
    return list(d)


def restores_probed(tree):
    from tools.gen.gen import tree_module
    ser = tree_module(tree, "Pyro5.serializers")
    attrs = {"foo": [1], "zero": 0, "none": None, "_p": "", "__x__": 2, "__notes__": ["n"], "has space": 3}
    ex = ser.SerializerBase.make_exception(ValueError, {"args": ["a", 1], "attributes": dict(attrs)})
    need(type(ex) is ValueError and ex.args == ("a", 1), "make_exception(ValueError, args) gives %r" % (ex,))
    got = dict(vars(ex))
    if got == attrs:
        return True
    need(not got, "make_exception restores only some attributes: %r" % sorted(got))
    return False


def d2c_facts_ast(mod):
    d2c = find_func(mod, "dict_to_class", "SerializerBase")
    funcs = reachable(mod, "SerializerBase", d2c, depth=2)
    consts = module_constants(mod)
    nodes = [n for f in funcs for n in ast.walk(f)]
    lits = [n.value for n in nodes if isinstance(n, ast.Constant) and isinstance(n.value, str)]
    dunder = [n for n in nodes if isinstance(n, ast.If) and isinstance(n.test, ast.Compare) and len(n.test.ops) == 1
              and isinstance(n.test.ops[0], ast.In) and isinstance(n.test.left, ast.Constant) and n.test.left.value == "__"
              and any(isinstance(st, ast.Raise) for st in n.body)]
    prefixes = [c.args[0].value for c in nodes if isinstance(c, ast.Call) and isinstance(c.func, ast.Attribute)
                and c.func.attr == "startswith" and len(c.args) == 1 and isinstance(c.args[0], ast.Constant)]
    need("Pyro5.errors." in prefixes, "dict_to_class: no startswith('Pyro5.errors.') branch")
    ns = []
    for n in nodes:
        if isinstance(n, ast.If) and isinstance(n.test, ast.Compare) and isinstance(n.test.left, ast.Name) \
                and n.test.left.id == "namespace" and isinstance(n.test.ops[0], ast.In):
            c = n.test.comparators[0]
            if isinstance(c, ast.Name) and c.id in consts:     # the literal moved behind a module-level name
                c = consts[c.id]
            ns.append(class_tuple_str(c))
    need(len(ns) == 1, "dict_to_class: `namespace in (...)` test not found exactly once")
    uses_all = any(isinstance(n, ast.Compare) and isinstance(n.ops[0], ast.In) and isinstance(n.comparators[0], ast.Name)
                   and n.comparators[0].id == "all_exceptions" for n in nodes)
    need("__exception__" in lits, "dict_to_class: does not test the __exception__ flag")
    return {"dunder_refused": len(dunder) == 1, "builtin_namespaces": ns[0], "uses_all_exceptions": uses_all}


def d2c_facts_probed(tree):
    """second reader: ask dict_to_class itself (candidate namespaces only: a namespace nobody names cannot be discovered)"""
    from tools.gen.gen import tree_module
    ser = tree_module(tree, "Pyro5.serializers")
    errs = tree_module(tree, "Pyro5.errors")

    def decode(classname, flag=True):
        d = {"__class__": classname, "args": ["a"], "attributes": {}}
        if flag:
            d["__exception__"] = True
        try:
            return ser.SerializerBase.dict_to_class(d)
        except BaseException as x:
            return x
    ns = [c for c in ["builtins", "exceptions", "__builtin__", "builtin", "python"] if type(decode(c + ".ValueError")) is ValueError
          and getattr(decode(c + ".ValueError"), "args", None) == ("a",)]
    need(ns, "dict_to_class recreates builtins.ValueError under none of the candidate namespaces")
    r = decode("__main__.ValueError")
    dunder = isinstance(r, errs.SecurityError)
    r = decode("ValueError")
    uses_all = type(r) is ValueError and r.args == ("a",)
    need(isinstance(decode("Pyro5.errors.NamingError", flag=False), errs.NamingError), "dict_to_class does not recreate Pyro5.errors.NamingError")
    return {"dunder_refused": dunder, "builtin_namespaces": [c for c in ns if "__" not in c], "uses_all_exceptions": uses_all}


def serializer_facts(tree):
    mod, _ = parse(tree, "Pyro5/serializers.py")
    modes = {}
    try:
        keys = ctd_keys_ast(mod)
        modes["class_to_dict"] = "ast"
    except GenError as x:
        keys = ctd_keys_probed(tree)
        modes["class_to_dict"] = "probed (ast reader: %s)" % x
    try:
        mk = find_func(mod, "make_exception", "SerializerBase")
        ctor_star = any(isinstance(c, ast.Call) and isinstance(c.func, ast.Name) and len(c.args) == 1
                        and isinstance(c.args[0], ast.Starred) for c in ast.walk(mk))
        need(ctor_star, "make_exception: does not call exceptiontype(*data['args'])")
        fors = [n for n in ast.walk(mk) if isinstance(n, ast.For) and any(isinstance(c, ast.Call) and isinstance(c.func, ast.Name)
                                                                          and c.func.id == "setattr" for c in ast.walk(n))]
        need(len(fors) <= 1, "make_exception: more than one attribute loop")
        restores = any("attributes" in ast.dump(n.iter) for n in fors)
        modes["make_exception"] = "ast"
    except GenError as x:
        restores = restores_probed(tree)
        modes["make_exception"] = "probed (ast reader: %s)" % x
    try:
        df = d2c_facts_ast(mod)
        modes["dict_to_class"] = "ast"
    except GenError as x:
        df = d2c_facts_probed(tree)
        modes["dict_to_class"] = "probed (ast reader: %s)" % x
    out = {"ctd_keys": keys, "restores_attrs": restores, "mode": modes}
    out.update(df)
    return out


def class_tuple_str(n):
    need(isinstance(n, (ast.Tuple, ast.List)) and all(isinstance(e, ast.Constant) and isinstance(e.value, str) for e in n.elts),
         "namespace tuple is not a tuple of string literals")
    return [e.value for e in n.elts]


def runtime_tables(tree, hier):
    import builtins
    ser = import_tree_module(tree, "serializers")
    errs = import_tree_module(tree, "errors")
    allx = ser.all_exceptions
    need(isinstance(allx, dict) and all(isinstance(k, str) and isinstance(v, type) and issubclass(v, BaseException) for k, v in allx.items()),
         "all_exceptions is not a dict name -> exception class")
    qn = lambda c: c.__module__ + "." + c.__name__
    b_exc = sorted(n for n, t in vars(builtins).items() if isinstance(t, type) and issubclass(t, BaseException))
    e_pyro = sorted(n for n, t in vars(errs).items() if isinstance(t, type) and issubclass(t, errs.PyroError))
    pool = [getattr(builtins, n) for n in b_exc] + [getattr(errs, n) for n in e_pyro] + list(allx.values())
    classes, seen = [], set()
    for c in pool:
        if c in seen:
            continue
        seen.add(c)
        need(c.__module__ in ("builtins", "Pyro5.errors"), "exception class %s lives in unexpected module %s" % (c.__name__, c.__module__))
        classes.append({"name": c.__name__, "mod": c.__module__, "mro": [qn(b) for b in c.__mro__ if b is not object]})
    classes.sort(key=lambda r: (r["mod"], r["name"]))
    base_of = dict(hier)
    for r in classes:
        if r["mod"] == "Pyro5.errors":
            need(r["name"] in base_of, "runtime class Pyro5.errors.%s not found in errors.py" % r["name"])
            need(r["mro"][1].split(".")[-1] == base_of[r["name"]], "errors.py base of %s disagrees with the runtime MRO" % r["name"])
    alias = sorted((n, getattr(builtins, n).__name__) for n in b_exc if getattr(builtins, n).__name__ != n)
    keys = sorted((k, qn(v)) for k, v in allx.items())
    return {"classes": classes, "keys": keys, "builtins_exc": b_exc, "errors_pyro": e_pyro, "alias": alias}


@generator("GenExcs", "Pyro5/serializers.py", "Pyro5/server.py", "Pyro5/client.py", "Pyro5/errors.py")
def gen_excs(tree):
    hier = errors_hierarchy(tree)
    hf = handler_facts(tree)
    cf = client_facts(tree)
    sf = serializer_facts(tree)
    rt = runtime_tables(tree, hier)
    out = HEADER % "Pyro5/serializers.py, server.py, client.py, errors.py (+ runtime tables)"
    out += "From V Require Import Model.Excs.\n\n"
    out += "(* exception classes of builtins and Pyro5.errors: name, module, qualified MRO names (without object) *)\n"
    out += "Definition exc_table : list cinfo := [\n"
    out += ";\n".join("  {| c_name := %s; c_mod := %s;\n     c_mro := %s |}" % (T(r["name"]), ctext(r["mod"]), clist([ctext(m) for m in r["mro"]]))
                      for r in rt["classes"])
    out += "\n].\n\n"
    out += "(* errors.py: class -> base, read with ast *)\n"
    out += "Definition errors_hierarchy : list (text * text) := %s.\n\n" % clist(["(%s, %s)" % (ctext(a), ctext(b)) for a, b in hier])
    out += "Definition gen_tables : tables := {|\n"
    out += "  t_classes := exc_table;\n"
    out += "  t_all_keys := %s;\n" % clist(["(%s, %s)" % (ctext(a), ctext(b)) for a, b in rt["keys"]])
    out += "  t_alias := %s;\n" % clist(["(%s, %s)" % (ctext(a), ctext(b)) for a, b in rt["alias"]])
    out += "  t_builtins_exc := %s;\n" % clist([ctext(k) for k in rt["builtins_exc"]])
    out += "  t_errors_pyro := %s;\n" % clist([ctext(k) for k in rt["errors_pyro"]])
    out += "  t_builtin_namespaces := %s;\n" % clist([ctext(k) for k in sf["builtin_namespaces"]])
    out += "  t_dunder_refused := %s;\n" % cbool(sf["dunder_refused"])
    out += "  t_uses_all_exceptions := %s;\n" % cbool(sf["uses_all_exceptions"])
    out += "  t_ctd_keys := %s;\n" % clist([T(k) for k in sf["ctd_keys"]])
    out += "  t_restores_attrs := %s |}.\n\n" % cbool(sf["restores_attrs"])
    out += "(* Daemon.handleRequest outer handler, batch member handler, _sendExceptionResponse fallback; Proxy._pyroInvoke handler *)\n"
    out += "Definition gen_facts : facts := {|\n"
    out += "  f_catch := %s;\n" % T(hf["catch"])
    out += "  f_noreply := %s;\n" % clist([T(k) for k in hf["noreply"]])
    out += "  f_reply_if := %s;\n" % clist([T(k) for k in hf["reply_if"]])
    out += "  f_reply_unless := %s;\n" % clist([T(k) for k in hf["reply_unless"]])
    out += "  f_reraise := %s;\n" % clist([T(k) for k in hf["reraise"]])
    out += "  f_reraise_guarded := %s;\n" % cbool(hf["reraise_guarded"])
    out += "  f_batch_catch := %s;\n" % T(hf["batch_catch"])
    out += "  f_batch_tb := %s;\n" % cbool(hf["batch_tb"])
    out += "  f_send_sets_tb := %s;\n" % cbool(hf["send_sets_tb"])
    out += "  f_fallback := %s;\n" % cbool(hf["fb_present"])
    out += "  f_fallback_catch := %s;\n" % clist([T(k) for k in hf["fb_catch"]])
    out += "  f_fallback_class := %s;\n" % T(hf["fb_class"])
    out += "  f_fallback_tb := %s;\n" % cbool(hf["fb_tb"])
    out += "  f_client_release := %s |}.\n" % clist([T(k) for k in cf["release_on"]])
    info = {"handler": hf, "client": cf, "serializers": sf, "n_classes": len(rt["classes"]), "keys": rt["keys"],
            "classes": rt["classes"], "hierarchy": hier}
    return out, info
