"""GenClassTag (C04): the decision structure of SerializerBase.dict_to_class, make_exception,
recreate_classes and the per-serializer loads/loadsCall hooks, read with `ast` from
Pyro5/serializers.py, plus the runtime name tables the decisions consult (all_exceptions,
builtins, Pyro5.errors, sqlite3).  Fail closed: any statement whose shape is not one of the
recognised ones raises GenError, which breaks the tie for C04."""
import ast
from tools.gen.gen import generator, parse, find_class, find_func, need, GenError, HEADER, clist, cN, ctext, cbool, ast_sha

SRC = "Pyro5/serializers.py"


def T(s):
    """text literal followed by a readable comment"""
    return ctext(s) + " (* %s *)" % "".join(ch if (ch.isalnum() or ch in "._<>") else "?" for ch in s)


# ------------------------------------------------------------------ small matchers
def is_name(n, name=None):
    return isinstance(n, ast.Name) and (name is None or n.id == name)


def is_str(n, value=None):
    return isinstance(n, ast.Constant) and isinstance(n.value, str) and (value is None or n.value == value)


def is_call(n, nargs=None):
    return isinstance(n, ast.Call) and (nargs is None or (len(n.args) == nargs and not n.keywords))


def attr_path(n):
    """a.b.c -> ['a','b','c'] or None"""
    out = []
    while isinstance(n, ast.Attribute):
        out.append(n.attr)
        n = n.value
    if isinstance(n, ast.Name):
        out.append(n.id)
        return list(reversed(out))
    return None


class _StripLogs(ast.NodeTransformer):
    """logging calls (log.debug/info/warning/error/...) never matter to the decision: drop them before reading shapes"""
    def visit_Expr(self, node):
        v = node.value
        if isinstance(v, ast.Call) and isinstance(v.func, ast.Attribute) and is_name(v.func.value) and v.func.value.id in ("log", "logger", "logging"):
            return None
        return node

    def generic_visit(self, node):
        node = super().generic_visit(node)
        for field in ("body", "orelse", "finalbody"):
            if hasattr(node, field) and isinstance(getattr(node, field), list) and not getattr(node, field) and field == "body":
                node.body = [ast.Pass()]
        return node


def without_logs(func):
    import copy
    return ast.fix_missing_locations(_StripLogs().visit(copy.deepcopy(func)))


def strip_doc(body):
    if body and isinstance(body[0], ast.Expr) and is_str(body[0].value):
        return body[1:]
    return body


def subscript_key(n, var):
    """var["key"] -> key"""
    if isinstance(n, ast.Subscript) and is_name(n.value, var) and is_str(n.slice):
        return n.slice.value
    return None


class Scope:
    """what names mean inside serializers.py"""
    def __init__(self, mod):
        self.modules = {}       # local name -> dotted module
        self.classes = set()    # classes defined at module level
        for n in mod.body:
            if isinstance(n, ast.Import):
                for a in n.names:
                    self.modules[a.asname or a.name.split(".")[0]] = a.name if a.asname else a.name.split(".")[0]
            elif isinstance(n, ast.ImportFrom) and n.level == 1 and n.module is None:
                for a in n.names:
                    self.modules[a.asname or a.name] = "Pyro5." + a.name
            elif isinstance(n, ast.Try):
                for m in n.body:
                    if isinstance(m, ast.Import):
                        for a in m.names:
                            self.modules[a.asname or a.name.split(".")[0]] = a.name if a.asname else a.name.split(".")[0]
            elif isinstance(n, ast.ClassDef):
                self.classes.add(n.name)

    def clone(self):
        s = Scope(ast.Module(body=[], type_ignores=[]))
        s.modules = dict(self.modules)
        s.classes = set(self.classes)
        return s

    def resolve(self, node):
        """dotted absolute name of an expression denoting a class/module"""
        p = attr_path(node)
        need(p is not None, "unrecognised class expression: " + ast.dump(node)[:80])
        if p[0] in self.modules:
            return ".".join([self.modules[p[0]]] + p[1:])
        if len(p) == 1 and p[0] in self.classes:
            return "Pyro5.serializers." + p[0]
        if len(p) == 1 and p[0] == "BaseException":
            return "builtins.BaseException"
        raise GenError("cannot resolve name %s in dict_to_class" % ".".join(p))


def guard_of(scope, cond, tvar):
    """issubclass(tvar, X) -> guard constant"""
    need(is_call(cond, 2) and is_name(cond.func, "issubclass") and is_name(cond.args[0], tvar),
         "unrecognised class check: " + ast.unparse(cond))
    base = scope.resolve(cond.args[1])
    if base == "builtins.BaseException":
        return "GuardBaseException"
    if base == "Pyro5.errors.PyroError":
        return "GuardPyroError"
    raise GenError("class check against an unexpected base: " + base)


def is_make_exception(n, data):
    """[SerializerBase.]make_exception(X, data) -> X"""
    if is_call(n, 2) and isinstance(n.func, ast.Attribute) and n.func.attr == "make_exception" and is_name(n.args[1], data):
        p = attr_path(n.func.value)
        if p in (["SerializerBase"], ["cls"]):
            return n.args[0]
    return None


def lookup_then_make(scope, stmts, tag, data, shortvar=None):
    """[import m;] t = getattr(NS, <name-expr>); [if issubclass(t, B):] return make_exception(t, data)
    -> (ns, nameexpr, guard, imports)"""
    imports = []
    stmts = list(stmts)
    local = scope
    while stmts and isinstance(stmts[0], ast.Import):
        local = local.clone()
        for a in stmts[0].names:
            need(a.asname is None and "." not in a.name, "unrecognised import in dict_to_class")
            imports.append(a.name)
            local.modules[a.name] = a.name
        stmts.pop(0)
    need(len(stmts) == 2 and isinstance(stmts[0], ast.Assign) and len(stmts[0].targets) == 1 and is_name(stmts[0].targets[0]),
         "unrecognised namespace lookup block")
    tvar = stmts[0].targets[0].id
    call = stmts[0].value
    need(is_call(call, 2) and is_name(call.func, "getattr"), "namespace lookup is not getattr(ns, name)")
    ns = local.resolve(call.args[0])
    nameexpr = call.args[1]
    last = stmts[1]
    if isinstance(last, ast.If):
        need(not last.orelse and len(last.body) == 1 and isinstance(last.body[0], ast.Return), "unrecognised guarded return")
        g = guard_of(local, last.test, tvar)
        ret = last.body[0]
    else:
        need(isinstance(last, ast.Return), "unrecognised namespace lookup tail")
        g = "GuardNone"
        ret = last
    x = is_make_exception(ret.value, data)
    need(x is not None and is_name(x, tvar), "looked-up class is not passed to make_exception")
    return ns, nameexpr, g, imports


def split_expr(n, tag):
    """tag.split('.', k)[i] -> (k, i)"""
    if isinstance(n, ast.Subscript) and isinstance(n.slice, ast.Constant) and isinstance(n.slice.value, int):
        c = n.value
        if is_call(c, 2) and isinstance(c.func, ast.Attribute) and c.func.attr == "split" and is_name(c.func.value, tag) \
                and is_str(c.args[0], ".") and isinstance(c.args[1], ast.Constant) and isinstance(c.args[1].value, int):
            return c.args[1].value, n.slice.value
    return None


def flatten_if(node):
    """if/elif/.../else -> [(test, body)], else_body"""
    out = []
    while True:
        out.append((node.test, node.body))
        if len(node.orelse) == 1 and isinstance(node.orelse[0], ast.If):
            node = node.orelse[0]
        else:
            return out, node.orelse


# ------------------------------------------------------------------ dict_to_class
def parse_dict_to_class(mod, scope):
    f = without_logs(find_func(mod, "dict_to_class", "SerializerBase"))
    need([a.arg for a in f.args.args] == ["cls", "data"] or len(f.args.args) == 2, "dict_to_class signature changed")
    data = f.args.args[1].arg
    body = strip_doc(f.body)
    scope = scope.clone()
    fn_imports = []
    pre, chain = [], []
    tag = None
    i = 0
    # leading imports and the tag fetch
    while i < len(body):
        st = body[i]
        if isinstance(st, ast.ImportFrom):
            need(st.level == 1 and st.module is None, "dict_to_class imports from outside the Pyro5 package")
            for a in st.names:
                scope.modules[a.asname or a.name] = "Pyro5." + a.name
                fn_imports.append("Pyro5." + a.name)
            i += 1
            continue
        break
    st = body[i]
    need(isinstance(st, ast.Assign) and len(st.targets) == 1 and is_name(st.targets[0]) and is_call(st.value, 2)
         and isinstance(st.value.func, ast.Attribute) and st.value.func.attr == "get" and is_name(st.value.func.value, data)
         and is_str(st.value.args[0]) and is_str(st.value.args[1]), "class tag is not fetched with data.get(key, default)")
    tag = st.targets[0].id
    tagkey, tagdefault = st.value.args[0].value, st.value.args[1].value
    i += 1
    fallthrough = None
    for st in body[i:]:
        need(fallthrough is None, "statements after the final raise in dict_to_class")
        if isinstance(st, ast.Expr) and is_call(st.value) and attr_path(st.value.func) in (["log", "warning"], ["log", "debug"], ["log", "info"], ["log", "error"]):
            continue
        if isinstance(st, ast.Raise):
            need(is_call(st.exc) and scope.resolve(st.exc.func) == "Pyro5.errors.SerializeError", "final raise is not errors.SerializeError")
            fallthrough = "SerializeError"
            continue
        need(isinstance(st, ast.If), "unrecognised statement in dict_to_class: " + ast.unparse(st)[:80])
        t = st.test
        # --- pre steps
        if is_call(t, 2) and is_name(t.func, "isinstance") and is_name(t.args[0], tag) and is_name(t.args[1], "bytes"):
            need(not chain and not st.orelse and len(st.body) == 1 and isinstance(st.body[0], ast.Assign) and is_name(st.body[0].targets[0], tag)
                 and is_call(st.body[0].value, 1) and isinstance(st.body[0].value.func, ast.Attribute) and st.body[0].value.func.attr == "decode"
                 and is_name(st.body[0].value.func.value, tag) and is_str(st.body[0].value.args[0], "utf-8"), "unrecognised bytes-tag handling")
            pre.append("PreDecodeBytes")
            continue
        if isinstance(t, ast.Compare) and len(t.ops) == 1 and isinstance(t.ops[0], ast.In) and is_name(t.left, tag) \
                and isinstance(t.comparators[0], ast.Attribute) and "dict_to_class_registry" in t.comparators[0].attr:
            need(not chain and not st.orelse and len(st.body) == 2 and isinstance(st.body[1], ast.Return) and is_call(st.body[1].value, 2)
                 and is_name(st.body[1].value.args[0], tag) and is_name(st.body[1].value.args[1], data), "unrecognised registry dispatch")
            pre.append("PreRegistry")
            continue
        if isinstance(t, ast.Compare) and len(t.ops) == 1 and isinstance(t.ops[0], ast.In) and is_str(t.left) and is_name(t.comparators[0], tag):
            need(not chain and not st.orelse and len(st.body) == 1 and isinstance(st.body[0], ast.Raise) and is_call(st.body[0].exc)
                 and scope.resolve(st.body[0].exc.func) == "Pyro5.errors.SecurityError", "substring refusal does not raise errors.SecurityError")
            pre.append("PreRefuse %s" % T(t.left.value))
            continue
        # --- the if/elif chain
        branches, els = flatten_if(st)
        need(not els, "else-branch in the dict_to_class chain")
        # one if/elif group: when a matched branch falls through, the rest of the group is skipped and the next group is tried
        chain.append([parse_clause(scope, test, bbody, tag, data, tagkey) for test, bbody in branches])
    need(fallthrough is not None, "dict_to_class does not end in raise errors.SerializeError")
    need(tag is not None, "no class tag variable")
    return {"pre": pre, "chain": chain, "tagkey": tagkey, "tagdefault": tagdefault, "imports": fn_imports, "sha": ast_sha(f)}


def parse_clause(scope, test, body, tag, data, tagkey):
    # classname == "lit"
    if isinstance(test, ast.Compare) and len(test.ops) == 1 and isinstance(test.ops[0], ast.Eq) and is_name(test.left, tag) and is_str(test.comparators[0]):
        lit = test.comparators[0].value
        # x = C.__new__(C); x.__setstate__(data["state"]); return x
        if len(body) == 3 and isinstance(body[0], ast.Assign) and is_call(body[0].value, 1) and isinstance(body[0].value.func, ast.Attribute) \
                and body[0].value.func.attr == "__new__":
            cls = scope.resolve(body[0].value.func.value)
            need(scope.resolve(body[0].value.args[0]) == cls and is_name(body[0].targets[0]), "unrecognised __new__ call")
            x = body[0].targets[0].id
            s = body[1]
            need(isinstance(s, ast.Expr) and is_call(s.value, 1) and isinstance(s.value.func, ast.Attribute) and s.value.func.attr == "__setstate__"
                 and is_name(s.value.func.value, x) and subscript_key(s.value.args[0], data) is not None, "unrecognised __setstate__ call")
            need(isinstance(body[2], ast.Return) and is_name(body[2].value, x), "unrecognised return after __setstate__")
            return "ClSetState %s %s %s" % (T(lit), T(cls), T(subscript_key(s.value.args[0], data)))
        if len(body) == 1 and isinstance(body[0], ast.Return):
            x = is_make_exception(body[0].value, data)
            if x is not None:
                return "ClMakeExc %s %s" % (T(lit), T(scope.resolve(x)))
        # the exception wrapper
        if len(body) == 3 and isinstance(body[0], ast.Assign) and is_name(body[0].targets[0]) and subscript_key(body[0].value, data) is not None:
            ex = body[0].targets[0].id
            key = subscript_key(body[0].value, data)
            c = body[1]
            ok = isinstance(c, ast.If) and not c.orelse and isinstance(c.test, ast.BoolOp) and isinstance(c.test.op, ast.And) and len(c.test.values) == 2
            if ok:
                a, b = c.test.values
                ok = is_call(a, 2) and is_name(a.func, "isinstance") and is_name(a.args[0], ex) and is_name(a.args[1], "dict") \
                    and isinstance(b, ast.Compare) and isinstance(b.ops[0], ast.In) and is_str(b.left, tagkey) and is_name(b.comparators[0], ex)
            if ok:
                ok = len(c.body) == 1 and isinstance(c.body[0], ast.Assign) and is_name(c.body[0].targets[0], ex) and is_call(c.body[0].value, 1) \
                    and attr_path(c.body[0].value.func) in (["SerializerBase", "dict_to_class"],) and is_name(c.body[0].value.args[0], ex)
            need(ok, "unrecognised exception-wrapper branch")
            r = body[2]
            need(isinstance(r, ast.Return) and is_call(r.value, 1) and is_name(r.value.args[0], ex), "unrecognised wrapper construction")
            return "ClWrapper %s %s %s" % (T(lit), T(scope.resolve(r.value.func)), T(key))
        raise GenError("unrecognised body for class tag %r" % lit)
    # classname.startswith("lit")
    if is_call(test, 1) and isinstance(test.func, ast.Attribute) and test.func.attr == "startswith" and is_name(test.func.value, tag) and is_str(test.args[0]):
        prefix = test.args[0].value
        if len(body) == 1 and isinstance(body[0], ast.If):
            branches, els = flatten_if(body[0])
            need(not els, "else in the %s table" % prefix)
            table = []
            for t2, b2 in branches:
                need(isinstance(t2, ast.Compare) and isinstance(t2.ops[0], ast.Eq) and is_name(t2.left, tag) and is_str(t2.comparators[0])
                     and len(b2) == 1 and isinstance(b2[0], ast.Return) and is_call(b2[0].value, 0), "unrecognised entry in the %s table" % prefix)
                need(t2.comparators[0].value.startswith(prefix), "table entry outside its prefix")
                table.append("(%s, %s)" % (T(t2.comparators[0].value), T(scope.resolve(b2[0].value.func))))
            return "ClPrefixTable %s %s" % (T(prefix), clist(table))
        ns, nameexpr, g, imports = lookup_then_make(scope, body, tag, data)
        sp = split_expr(nameexpr, tag)
        need(sp is not None and not imports, "unrecognised name expression in the %s branch" % prefix)
        return "ClPrefixNs %s %s %s %s %s" % (T(prefix), T(ns), cN(sp[0]), cN(sp[1]), g)
    # data.get("__exception__", False)
    if is_call(test, 2) and isinstance(test.func, ast.Attribute) and test.func.attr == "get" and is_name(test.func.value, data) \
            and is_str(test.args[0]) and isinstance(test.args[1], ast.Constant) and test.args[1].value is False:
        flagkey = test.args[0].value
        stmts = list(body)
        use_all = False
        s = stmts[0]
        if isinstance(s, ast.If) and isinstance(s.test, ast.Compare) and isinstance(s.test.ops[0], ast.In) and is_name(s.test.left, tag) \
                and is_name(s.test.comparators[0], "all_exceptions"):
            need(not s.orelse and len(s.body) == 1 and isinstance(s.body[0], ast.Return), "unrecognised all_exceptions branch")
            x = is_make_exception(s.body[0].value, data)
            need(x is not None and isinstance(x, ast.Subscript) and is_name(x.value, "all_exceptions") and is_name(x.slice, tag), "unrecognised all_exceptions lookup")
            use_all = True
            stmts.pop(0)
        need(len(stmts) == 2 and isinstance(stmts[0], ast.Assign) and isinstance(stmts[0].targets[0], ast.Tuple) and len(stmts[0].targets[0].elts) == 2,
             "unrecognised namespace split in the exception branch")
        nsv, shortv = [e.id for e in stmts[0].targets[0].elts]
        c = stmts[0].value
        need(is_call(c, 2) and isinstance(c.func, ast.Attribute) and c.func.attr == "split" and is_name(c.func.value, tag) and is_str(c.args[0], ".")
             and isinstance(c.args[1], ast.Constant) and c.args[1].value == 1, "namespace split is not classname.split('.', 1)")
        need(isinstance(stmts[1], ast.If), "unrecognised namespace dispatch")
        branches, els = flatten_if(stmts[1])
        need(not els, "else in namespace dispatch")
        nscl = []
        for t2, b2 in branches:
            suffix = None
            if isinstance(t2, ast.BoolOp) and isinstance(t2.op, ast.And) and len(t2.values) == 2:
                e = t2.values[1]
                need(is_call(e, 1) and isinstance(e.func, ast.Attribute) and e.func.attr == "endswith" and is_name(e.func.value, shortv) and is_str(e.args[0]),
                     "unrecognised extra namespace condition")
                suffix = e.args[0].value
                t2 = t2.values[0]
            need(isinstance(t2, ast.Compare) and len(t2.ops) == 1 and is_name(t2.left, nsv), "unrecognised namespace test")
            if isinstance(t2.ops[0], ast.In):
                need(isinstance(t2.comparators[0], (ast.Tuple, ast.List, ast.Set)) and all(is_str(e) for e in t2.comparators[0].elts), "namespace list is not literal")
                names = [e.value for e in t2.comparators[0].elts]
            else:
                need(isinstance(t2.ops[0], ast.Eq) and is_str(t2.comparators[0]), "unrecognised namespace comparison")
                names = [t2.comparators[0].value]
            ns, nameexpr, g, imports = lookup_then_make(scope, b2, tag, data)
            need(is_name(nameexpr, shortv), "namespace lookup does not use the short class name")
            nscl.append("NsClause %s %s %s %s %s" % (clist([T(x) for x in names]), "None" if suffix is None else "(Some %s)" % T(suffix),
                                                   T(ns), clist([T(x) for x in imports]), g))
        return "ClExcFlag %s %s %s" % (T(flagkey), cbool(use_all), clist(["(%s)" % x for x in nscl]))
    raise GenError("unrecognised test in the dict_to_class chain: " + ast.unparse(test)[:80])


# ------------------------------------------------------------------ make_exception / recreate_classes / hooks
def parse_make_exception(mod):
    f = without_logs(find_func(mod, "make_exception", "SerializerBase"))
    need(len(f.args.args) >= 2, "make_exception signature changed")
    tvar, data = [a.arg for a in f.args.args[:2]]
    # further parameters must be optional switches that default to True (the call sites in dict_to_class do not pass them)
    extra = [a.arg for a in f.args.args[2:]]
    need(len(f.args.defaults) == len(extra) and all(isinstance(d, ast.Constant) and d.value is True for d in f.args.defaults)
         and not f.args.kwonlyargs and not f.args.vararg and not f.args.kwarg, "make_exception has new parameters that are not default-true switches")
    body = strip_doc(f.body)
    need(len(body) in (2, 3), "make_exception body changed")
    s = body[0]
    need(isinstance(s, ast.Assign) and is_name(s.targets[0]) and isinstance(s.value, ast.Call) and is_name(s.value.func, tvar) and not s.value.keywords
         and len(s.value.args) == 1 and isinstance(s.value.args[0], ast.Starred) and subscript_key(s.value.args[0].value, data) is not None,
         "exception is not constructed as exceptiontype(*data[key])")
    ex = s.targets[0].id
    argskey = subscript_key(s.value.args[0].value, data)
    attrkey = None
    if len(body) == 3:
        c = body[1]
        if isinstance(c, ast.If) and isinstance(c.test, ast.BoolOp) and isinstance(c.test.op, ast.And):
            rest = [v for v in c.test.values if not (is_name(v) and v.id in extra)]
            if len(rest) == 1:
                c.test = rest[0]
        need(isinstance(c, ast.If) and not c.orelse and isinstance(c.test, ast.Compare) and isinstance(c.test.ops[0], ast.In) and is_str(c.test.left)
             and is_name(c.test.comparators[0], data) and len(c.body) == 1 and isinstance(c.body[0], ast.For), "unrecognised attribute restoration")
        attrkey = c.test.left.value
        loop = c.body[0]
        need(isinstance(loop.target, ast.Tuple) and len(loop.target.elts) == 2 and is_call(loop.iter, 0) and isinstance(loop.iter.func, ast.Attribute)
             and loop.iter.func.attr == "items" and subscript_key(loop.iter.func.value, data) == attrkey and len(loop.body) == 1 and not loop.orelse,
             "unrecognised attribute loop")
        a, v = [e.id for e in loop.target.elts]
        st = loop.body[0]
        need(isinstance(st, ast.Expr) and is_call(st.value, 3) and is_name(st.value.func, "setattr") and is_name(st.value.args[0], ex)
             and is_name(st.value.args[1], a) and is_name(st.value.args[2], v), "attributes are not restored with setattr(ex, attr, value)")
    need(isinstance(body[-1], ast.Return) and is_name(body[-1].value, ex), "make_exception does not return the constructed exception")
    return {"argskey": argskey, "attrkey": attrkey, "sha": ast_sha(f)}


def passthrough_ok(mod, name):
    """module-level NAME = frozenset/tuple/list/set of scalar types (never dict/list/tuple/set)"""
    for n in mod.body:
        if isinstance(n, ast.Assign) and len(n.targets) == 1 and is_name(n.targets[0], name):
            names = [m.id for m in ast.walk(n.value) if isinstance(m, ast.Name)]
            return not ({"dict", "list", "tuple", "set"} & set(names))
    return False


def parse_recreate(mod, tagkey):
    f = without_logs(find_func(mod, "recreate_classes", "SerializerBase"))
    need(len(f.args.args) == 2, "recreate_classes signature changed")
    lit = f.args.args[1].arg
    body = strip_doc(f.body)
    tvar = None
    handled = {}
    for st in body:
        if isinstance(st, ast.Assign) and is_name(st.targets[0]) and is_call(st.value, 1) and is_name(st.value.func, "type") and is_name(st.value.args[0], lit):
            tvar = st.targets[0].id
            continue
        if isinstance(st, ast.Return):
            need(is_name(st.value, lit), "recreate_classes does not return other values unchanged")
            continue
        # a shortcut that hands some values back unchanged (`if t in ATOMS: return literal`) re-creates nothing
        if isinstance(st, ast.If) and not st.orelse and len(st.body) == 1 and isinstance(st.body[0], ast.Return) and is_name(st.body[0].value, lit) \
                and isinstance(st.test, ast.Compare) and len(st.test.ops) == 1 and isinstance(st.test.ops[0], ast.In) and is_name(st.test.left, tvar) \
                and isinstance(st.test.comparators[0], ast.Name) and passthrough_ok(mod, st.test.comparators[0].id):
            continue
        need(isinstance(st, ast.If) and not st.orelse and isinstance(st.test, ast.Compare) and isinstance(st.test.ops[0], ast.Is)
             and is_name(st.test.left, tvar) and is_name(st.test.comparators[0]), "unrecognised statement in recreate_classes")
        kind = st.test.comparators[0].id
        need(kind in ("set", "list", "tuple", "dict"), "recreate_classes handles an unexpected type " + kind)
        if kind == "dict":
            b = st.body
            need(len(b) == 4 and isinstance(b[0], ast.If) and isinstance(b[0].test, ast.Compare) and isinstance(b[0].test.ops[0], ast.In)
                 and is_str(b[0].test.left, tagkey) and is_name(b[0].test.comparators[0], lit) and len(b[0].body) == 1
                 and isinstance(b[0].body[0], ast.Return) and is_call(b[0].body[0].value, 1)
                 and attr_path(b[0].body[0].value.func) == ["self", "dict_to_class"] and is_name(b[0].body[0].value.args[0], lit),
                 "tagged dicts are not handed to self.dict_to_class")
            need(isinstance(b[2], ast.For) and "recreate_classes" in ast.unparse(b[2]) and isinstance(b[3], ast.Return), "dict values are not recreated")
        else:
            need(len(st.body) == 1 and isinstance(st.body[0], ast.Return) and "recreate_classes" in ast.unparse(st.body[0]), "container elements are not recreated")
        handled[kind] = True
    need(tvar is not None, "recreate_classes does not dispatch on type(literal)")
    return {"handled": handled, "sha": ast_sha(f)}


def calls_recreate(n):
    """self.recreate_classes(X) -> X"""
    if is_call(n, 1) and attr_path(n.func) == ["self", "recreate_classes"]:
        return n.args[0]
    return None


def parse_hooks(mod, tagkey):
    out = []
    ids = {}
    specials = []
    exthook = None
    for cls in [n for n in mod.body if isinstance(n, ast.ClassDef)]:
        bases = [b.id for b in cls.bases if isinstance(b, ast.Name)]
        if "SerializerBase" not in bases:
            continue
        sid = None
        for st in cls.body:
            if isinstance(st, ast.Assign) and is_name(st.targets[0], "serializer_id") and isinstance(st.value, ast.Constant):
                sid = st.value.value
        need(isinstance(sid, int) and sid > 0, "serializer class %s without serializer_id" % cls.name)
        ids[cls.name] = sid
        funcs = {n.name: n for n in cls.body if isinstance(n, ast.FunctionDef)}
        for path in ("loads", "loadsCall"):
            need(path in funcs, "%s.%s missing" % (cls.name, path))
            out.append((sid, path, hook_mode(funcs[path], cls.name)))
        for extra in funcs:
            need(extra in ("loads", "loadsCall", "dumps", "dumpsCall", "register_type_replacement", "dict_to_class", "class_to_dict",
                           "convert_obj_into_marshallable", "default", "object_hook", "ext_hook"), "unexpected method %s.%s" % (cls.name, extra))
        if "dict_to_class" in funcs:
            f = funcs["dict_to_class"]
            body = strip_doc(f.body)
            data = f.args.args[1].arg
            need(len(body) == 2 and isinstance(body[0], ast.If) and not body[0].orelse and isinstance(body[0].test, ast.Compare)
                 and isinstance(body[0].test.ops[0], ast.Eq) and is_call(body[0].test.left, 1) and attr_path(body[0].test.left.func) == [data, "get"]
                 and is_str(body[0].test.left.args[0], tagkey) and is_str(body[0].test.comparators[0]), "unrecognised dict_to_class override in " + cls.name)
            r = body[0].body
            need(len(r) == 1 and isinstance(r[0], ast.Return) and is_call(r[0].value, 1) and is_name(r[0].value.func, "float")
                 and subscript_key(r[0].value.args[0], data) is not None, "dict_to_class override builds something other than float(data[key])")
            need(isinstance(body[1], ast.Return) and "super(" in ast.unparse(body[1]) and "dict_to_class(%s)" % data in ast.unparse(body[1]),
                 "dict_to_class override does not defer to the base class")
            specials.append((sid, body[0].test.comparators[0].value, subscript_key(r[0].value.args[0], data)))
        if "object_hook" in funcs:
            f = funcs["object_hook"]
            body = strip_doc(f.body)
            o = f.args.args[1].arg
            need(len(body) == 2 and isinstance(body[0], ast.If) and not body[0].orelse and isinstance(body[0].test, ast.Compare)
                 and isinstance(body[0].test.ops[0], ast.In) and is_str(body[0].test.left, tagkey) and is_name(body[0].test.comparators[0], o)
                 and len(body[0].body) == 1 and isinstance(body[0].body[0], ast.Return) and is_call(body[0].body[0].value, 1)
                 and attr_path(body[0].body[0].value.func) == ["self", "dict_to_class"] and is_name(body[0].body[0].value.args[0], o)
                 and isinstance(body[1], ast.Return) and is_name(body[1].value, o), "unrecognised object_hook")
        if "ext_hook" in funcs:
            f = funcs["ext_hook"]
            body = strip_doc(f.body)
            code = f.args.args[1].arg
            codes = []
            for st in body[:-1]:
                need(isinstance(st, ast.If) and not st.orelse and isinstance(st.test, ast.Compare) and isinstance(st.test.ops[0], ast.Eq)
                     and is_name(st.test.left, code) and isinstance(st.test.comparators[0], ast.Constant) and isinstance(st.test.comparators[0].value, int)
                     and isinstance(st.body[-1], ast.Return), "unrecognised ext_hook branch")
                src = ast.unparse(st)
                for bad in ("eval", "exec", "compile", "__import__", "open(", "pickle", "marshal"):
                    need(bad not in src, "ext_hook branch uses " + bad)
                ret = st.body[-1].value
                need(is_call(ret) and attr_path(ret.func) in (["complex"], ["int"], ["datetime", "datetime", "fromtimestamp"], ["datetime", "date", "fromordinal"]),
                     "ext_hook builds something other than complex/int/datetime/date")
                codes.append(st.test.comparators[0].value)
            need(isinstance(body[-1], ast.Raise) and "SerializeError" in ast.unparse(body[-1]), "ext_hook does not reject unknown codes with SerializeError")
            exthook = codes
    return out, ids, specials, exthook


def decoder_call(n):
    """the library call that turns bytes into literals -> (library, object_hook?, ext_hook?) or None"""
    if is_call(n, 1) and attr_path(n.func) in (["serpent", "loads"], ["marshal", "loads"], ["json", "loads"]):
        return attr_path(n.func)[0], False, False
    if isinstance(n, ast.Call) and attr_path(n.func) == ["msgpack", "unpackb"] and len(n.args) == 1:
        kw = {k.arg: k.value for k in n.keywords}
        for k in kw:
            need(k in ("raw", "object_hook", "ext_hook"), "unexpected unpackb option " + str(k))
        need(isinstance(kw.get("raw"), ast.Constant) and kw["raw"].value is False, "unpackb without raw=False")
        if "object_hook" in kw:
            need(attr_path(kw["object_hook"]) == ["self", "object_hook"], "unexpected object_hook")
        if "ext_hook" in kw:
            need(attr_path(kw["ext_hook"]) == ["self", "ext_hook"], "unexpected ext_hook")
        return "msgpack", "object_hook" in kw, "ext_hook" in kw
    return None


def hook_mode(f, clsname):
    body = strip_doc(f.body)
    data = f.args.args[1].arg
    last = body[-1]
    need(isinstance(last, ast.Return), "%s.%s does not end in return" % (clsname, f.name))
    # hooks applied by the library while decoding: return msgpack.unpackb(bytes, raw=False, object_hook=..[, ext_hook=..])
    d = decoder_call(last.value)
    if d is not None:
        need(len(body) == 1 and d[0] == "msgpack", "%s.%s returns the raw decoder result" % (clsname, f.name))
        return "BottomUp %s %s" % (cbool(d[1]), cbool(d[2]))
    # whole value: [data = conv(data);] return self.recreate_classes(lib.loads(data))
    x = calls_recreate(last.value)
    if x is not None:
        d = decoder_call(x)
        need(d is not None and not d[1], "unexpected decoder call in %s.%s" % (clsname, f.name))
        for st in body[:-1]:
            need(isinstance(st, ast.Assign) and is_name(st.targets[0], data), "unexpected statement in %s.%s" % (clsname, f.name))
        return "TopDown [0%%N] %s" % cbool(d[2])
    # call path: which of (object, method, vargs, kwargs) are recreated
    recreated = {}
    order = []
    names = None
    ext = False
    for st in body[:-1]:
        need(isinstance(st, ast.Assign) and len(st.targets) == 1, "unexpected statement in %s.%s" % (clsname, f.name))
        tgt, val = st.targets[0], st.value
        if isinstance(tgt, ast.Tuple):
            d = decoder_call(val)
            need(len(tgt.elts) == 4 and d is not None and not d[1], "unexpected unpacking in " + clsname)
            ext = d[2]
            names = [e.id for e in tgt.elts]
            continue
        x = calls_recreate(val)
        if x is not None:
            if names is not None and is_name(x) and x.id in names:
                need(is_name(tgt, x.id), "recreated call part stored under another name")
                order.append(names.index(x.id))
                recreated[tgt.id] = names.index(x.id)
            else:
                k = subscript_key(x, data)
                need(k in ("params", "kwargs") and is_name(tgt), "unexpected recreate_classes argument in " + clsname)
                order.append({"params": 2, "kwargs": 3}[k])
                recreated[tgt.id] = {"params": 2, "kwargs": 3}[k]
            continue
        need(is_name(tgt, data), "unexpected assignment in %s.%s" % (clsname, f.name))
    need(isinstance(last.value, ast.Tuple) and len(last.value.elts) == 4, "call path does not return a 4-tuple")
    for pos, e in enumerate(last.value.elts):
        if is_name(e) and e.id in recreated:
            need(recreated[e.id] == pos, "call parts returned in another order")
        elif is_name(e):
            need(names is not None and names.index(e.id) == pos, "call parts returned in another order")
        else:
            need(subscript_key(e, data) in ("object", "method") and pos == {"object": 0, "method": 1}[subscript_key(e, data)], "unexpected call part")
    return "TopDown %s %s" % (clist([cN(p + 1) for p in order]), cbool(ext))


# ------------------------------------------------------------------ the converter registries
def tag_normalisation(f, fname):
    """does the method decode a bytes tag argument to text before using it as the key?
    (`if isinstance(tag, bytes): tag = tag.decode("utf-8")`); any other rewriting of the tag parameter fails closed"""
    need(len(f.args.args) >= 2, fname + " signature changed")
    tagvar = f.args.args[1].arg
    found = False
    for n in ast.walk(f):
        targets = []
        if isinstance(n, ast.Assign):
            targets = n.targets
        elif isinstance(n, (ast.AugAssign, ast.AnnAssign)):
            targets = [n.target]
        elif isinstance(n, (ast.For, ast.comprehension)):
            targets = [n.target]
        elif isinstance(n, ast.NamedExpr):
            targets = [n.target]
        bound = []
        for t in targets:
            stack = [t]
            while stack:
                x = stack.pop()
                if isinstance(x, (ast.Tuple, ast.List)):
                    stack.extend(x.elts)
                elif isinstance(x, ast.Starred):
                    stack.append(x.value)
                else:
                    bound.append(x)
        for t in bound:
            for m in [t]:
                if is_name(m, tagvar):
                    ok = isinstance(n, ast.Assign) and len(n.targets) == 1 and is_name(n.targets[0], tagvar) and is_call(n.value, 1) \
                        and isinstance(n.value.func, ast.Attribute) and n.value.func.attr == "decode" and is_name(n.value.func.value, tagvar) \
                        and is_str(n.value.args[0], "utf-8")
                    need(ok, "%s rewrites its tag argument in an unrecognised way: %s" % (fname, ast.unparse(n)[:70]))
                    found = True
    if found:
        # the decode must be the guarded first statement
        body = strip_doc(f.body)
        st = body[0]
        need(isinstance(st, ast.If) and not st.orelse and is_call(st.test, 2) and is_name(st.test.func, "isinstance") and is_name(st.test.args[0], tagvar)
             and is_name(st.test.args[1], "bytes") and len(st.body) == 1 and isinstance(st.body[0], ast.Assign) and is_name(st.body[0].targets[0], tagvar),
             "%s decodes its tag argument, but not as a guarded first statement" % fname)
        need(sum(1 for n in ast.walk(f) if isinstance(n, ast.Assign) and any(is_name(t, tagvar) for t in n.targets)) == 1, fname + " rewrites its tag argument more than once")
    return found



def parse_registries(mod):
    """How register_* / unregister_* (classmethods of SerializerBase) change the class-level registry dicts:
    in place (`cls.__reg[k] = v`, `del cls.__reg[k]`: one dict shared by all serializer classes) or by rebinding
    the attribute through cls (`cls.__reg = ...`: a subclass gets its own copy that shadows the shared one)."""
    base = find_class(mod, "SerializerBase")
    regs = {"dict_to_class": None, "class_to_dict": None}
    attr_of = {}
    for st in base.body:
        if isinstance(st, ast.Assign) and len(st.targets) == 1 and is_name(st.targets[0]) and st.targets[0].id.endswith("_registry"):
            need(isinstance(st.value, ast.Dict) and not st.value.keys, "registry %s does not start as an empty dict literal" % st.targets[0].id)
            for k in regs:
                if k in st.targets[0].id:
                    attr_of[k] = st.targets[0].id
    need(set(attr_of) == set(regs), "the two converter registries are not class attributes of SerializerBase")
    for cls in [n for n in mod.body if isinstance(n, ast.ClassDef) and n.name != "SerializerBase"]:
        for n in ast.walk(cls):
            if isinstance(n, (ast.Name, ast.Attribute)):
                nm = n.id if isinstance(n, ast.Name) else n.attr
                need(nm not in attr_of.values(), "class %s touches the converter registry %s" % (cls.name, nm))
    out = {}
    norm = {}
    for k, attr in attr_of.items():
        inplace = True
        for fname in ("register_" + k, "unregister_" + k):
            f = find_func(mod, fname, "SerializerBase")
            norm[fname] = tag_normalisation(f, fname)
            need(any(isinstance(d, ast.Name) and d.id == "classmethod" for d in f.decorator_list), fname + " is not a classmethod")
            clsvar = f.args.args[0].arg
            touched = False
            for n in ast.walk(f):
                targets = []
                if isinstance(n, ast.Assign):
                    targets = n.targets
                elif isinstance(n, (ast.AugAssign, ast.AnnAssign)):
                    targets = [n.target]
                elif isinstance(n, ast.Delete):
                    targets = n.targets
                for t in targets:
                    if isinstance(t, ast.Subscript) and isinstance(t.value, ast.Attribute) and t.value.attr == attr:
                        need(is_name(t.value.value, clsvar) or is_name(t.value.value, "SerializerBase"), "registry reached through an unexpected object in " + fname)
                        touched = True
                    elif isinstance(t, ast.Attribute) and t.attr == attr:
                        need(is_name(t.value, clsvar) or is_name(t.value, "SerializerBase"), "registry rebound through an unexpected object in " + fname)
                        if is_name(t.value, clsvar):
                            inplace = False      # rebinding through cls: a subclass gets a shadowing copy
                        touched = True
                if isinstance(n, ast.Call) and isinstance(n.func, ast.Attribute) and isinstance(n.func.value, ast.Attribute) and n.func.value.attr == attr:
                    need(n.func.attr in ("get", "keys", "items", "values", "copy"), "registry changed through method %s in %s" % (n.func.attr, fname))
                if isinstance(n, ast.Call) and is_name(n.func, "setattr"):
                    raise GenError("setattr in " + fname)
            need(touched, fname + " does not change the registry " + attr)
        out[k] = inplace
    out["norm"] = norm
    # every other function of SerializerBase only reads the registries
    for f in [n for n in base.body if isinstance(n, ast.FunctionDef) and not n.name.endswith(("register_dict_to_class", "register_class_to_dict"))]:
        for n in ast.walk(f):
            if isinstance(n, (ast.Assign, ast.Delete, ast.AugAssign)):
                for t in (n.targets if not isinstance(n, ast.AugAssign) else [n.target]):
                    for m in ast.walk(t):
                        need(not (isinstance(m, ast.Attribute) and m.attr in attr_of.values()), "function %s changes a converter registry" % f.name)
    return out


# ------------------------------------------------------------------ runtime tables
def runtime_tables(tree):
    """name tables of the interpreter (builtins, sqlite3, struct) and of Pyro5.errors in the tree under test.
    Pyro5.errors is read with ast (class statements and their bases), not imported."""
    import builtins, sqlite3
    mod, _ = parse(tree, "Pyro5/errors.py")
    err = {}
    pyro = set()
    for n in mod.body:
        if isinstance(n, ast.ClassDef):
            bases = [attr_path(b) for b in n.bases]
            need(all(b is not None and len(b) == 1 for b in bases), "unrecognised base class in errors.py")
            bases = [b[0] for b in bases]
            is_pyro = n.name == "PyroError" or any(b in pyro for b in bases)
            is_exc = is_pyro or any((isinstance(getattr(builtins, b, None), type) and issubclass(getattr(builtins, b), BaseException)) for b in bases)
            if n.name == "PyroError":
                need(is_exc, "PyroError is not an exception class")
            if is_pyro:
                pyro.add(n.name)
            err[n.name] = ("class", "Pyro5.errors." + n.name, is_exc, is_pyro)
        elif isinstance(n, (ast.FunctionDef, ast.AsyncFunctionDef)):
            err[n.name] = ("other",)
        elif isinstance(n, (ast.Import, ast.ImportFrom)):
            for a in n.names:
                err[(a.asname or a.name).split(".")[0]] = ("other",)
        elif isinstance(n, ast.Assign):
            for t in n.targets:
                if isinstance(t, ast.Name):
                    err[t.id] = ("other",)

    def table(ns):
        out = {}
        for k, v in vars(ns).items():
            if isinstance(v, type):
                out[k] = ("class", v.__module__ + "." + v.__qualname__, issubclass(v, BaseException), False)
            else:
                out[k] = ("other",)
        return out
    return {"Pyro5.errors": err, "builtins": table(builtins), "sqlite3": table(sqlite3)}


def parse_all_exceptions(mod, scope):
    """the module-level loops that fill all_exceptions: for name, t in vars(NS).items(): if type(t) is type and issubclass(t, B): all_exceptions[name] = t"""
    srcs = []
    for n in mod.body:
        if isinstance(n, ast.For) and "all_exceptions" in ast.unparse(n):
            need(isinstance(n.target, ast.Tuple) and len(n.target.elts) == 2 and is_call(n.iter, 0) and isinstance(n.iter.func, ast.Attribute)
                 and n.iter.func.attr == "items" and is_call(n.iter.func.value, 1) and is_name(n.iter.func.value.func, "vars"), "unrecognised all_exceptions loop")
            ns = scope.resolve(n.iter.func.value.args[0])
            nv, tv = [e.id for e in n.target.elts]
            need(len(n.body) == 1 and isinstance(n.body[0], ast.If) and not n.body[0].orelse, "unrecognised all_exceptions filter")
            c = n.body[0]
            need(isinstance(c.test, ast.BoolOp) and isinstance(c.test.op, ast.And) and len(c.test.values) == 2, "unrecognised all_exceptions filter")
            a, b = c.test.values
            need(ast.unparse(a) == "type(%s) is type" % tv, "all_exceptions filter does not require a plain class")
            g = guard_of(scope, b, tv)
            need(len(c.body) == 1 and ast.unparse(c.body[0]) == "all_exceptions[%s] = %s" % (nv, tv), "unrecognised all_exceptions assignment")
            srcs.append((ns, g))
        elif "all_exceptions" in ast.unparse(n) and not isinstance(n, (ast.ClassDef, ast.FunctionDef)):
            need(isinstance(n, ast.Assign) and ast.unparse(n) == "all_exceptions = {}", "all_exceptions is modified in an unrecognised way: " + ast.unparse(n)[:60])
    need(srcs, "all_exceptions is never filled")
    return srcs


def c_entry(e):
    if e[0] == "other":
        return "EntOther"
    return "EntClass %s %s %s" % (ctext(e[1]), cbool(e[2]), cbool(e[3]))


# ------------------------------------------------------------------ second reader: reference structure + behavioural probes
def reference_tables():
    import json, os
    with open(os.path.join(os.path.dirname(os.path.abspath(__file__)), "classtag_reference.json"), encoding="utf-8") as f:
        return json.load(f)


def probe_reference(tree):
    """When the shape of dict_to_class / make_exception / recreate_classes is not recognised (helper functions, lookup
    tables, early returns, extra validation ...), the decision structure of the reference implementation is used, but only
    after the functions of the tree under test have answered a fixed set of probes the way that structure says.
    (The correspondence run of the harness compares the model built on it with the real decoders on thousands of payloads.)"""
    import struct as _struct
    from tools.gen.gen import tree_module
    sz = tree_module(tree, "Pyro5.serializers")
    core, client, server, errors = (tree_module(tree, "Pyro5." + m) for m in ("core", "client", "server", "errors"))
    import builtins as _b, sqlite3 as _sq
    base = sz.SerializerBase
    d2c = base.dict_to_class

    def outcome(data):
        try:
            return ("ok", d2c(dict(data)))
        except BaseException as x:      # noqa
            return ("err", x)

    def expect_class(tag, clazz, **members):
        data = {"__class__": tag}
        data.update(members)
        k, v = outcome(data)
        need(k == "ok" and type(v) is clazz, "probe: tag %r does not build %s (%s %r)" % (tag, clazz.__name__, k, v))
        return v

    def expect_refused(tag, flagged=True, klass=None, **members):
        data = {"__class__": tag, "args": [], "state": []}
        if flagged:
            data["__exception__"] = True
        data.update(members)
        k, v = outcome(data)
        need(k == "err", "probe: tag %r is not refused (%r)" % (tag, v))
        if klass is not None:
            need(type(v) is klass, "probe: tag %r is refused with %s, not %s" % (tag, type(v).__name__, klass.__name__))

    uri_state = ["PYRO", "obj", None, "host", 55]
    expect_class("Pyro5.core.URI", core.URI, state=uri_state)
    expect_class("Pyro5.client.Proxy", client.Proxy, state=["PYRO:obj@host:55", [], [], [], "hello", None])
    expect_class("Pyro5.server.Daemon", server.Daemon, state=[])
    for n in ("SerpentSerializer", "MarshalSerializer", "JsonSerializer", "MsgpackSerializer"):
        expect_class("Pyro5.util." + n, getattr(sz, n))
    expect_class("struct.error", _struct.error, args=["m"])
    w = expect_class("Pyro5.core._ExceptionWrapper", core._ExceptionWrapper, exception={"__class__": "KeyError", "__exception__": True, "args": ["k"]})
    need(type(w.exception) is KeyError, "probe: the wrapped exception is not re-created")
    w = expect_class("Pyro5.core._ExceptionWrapper", core._ExceptionWrapper, exception="plain")
    need(w.exception == "plain", "probe: a plain wrapped value is changed")
    expect_class("Pyro5.errors.NamingError", errors.NamingError, args=["m"])
    expect_class(b"Pyro5.errors.NamingError", errors.NamingError, args=["m"])
    v = expect_class("ValueError", ValueError, __exception__=True, args=["m", 5], attributes={"custom": 1})
    need(v.args == ("m", 5) and getattr(v, "custom", None) == 1, "probe: exception args / attributes are not restored")
    expect_class("TimeoutError", errors.TimeoutError, __exception__=True, args=[])
    expect_class("builtins.KeyError", KeyError, __exception__=1, args=[])
    expect_class("exceptions.OSError", OSError, __exception__="x", args=[])
    expect_class("sqlite3.OperationalError", _sq.OperationalError, __exception__=True, args=["m"])
    # refusals: the double underscore first (also for bytes), then everything outside the closed set
    for tag in ("zz__y", b"zz__y", "builtins.__import__", "__main__.X", "Pyro5.errors.__builtins__", "__builtin__.ValueError"):
        expect_refused(tag, klass=errors.SecurityError)
    for tag in ("ValueError", "builtins.ValueError", "sqlite3.OperationalError"):
        expect_refused(tag, flagged=False)
    for tag in ("os.getcwd", "subprocess.Popen", "builtins.int", "builtins.open", "builtins.object", "builtins.type", "sqlite3.connect", "sqlite3.Warning",
                "sqlite3.Row", "Pyro5.errors.format_traceback", "Pyro5.errors.get_pyro_traceback", "Pyro5.errors.sys", "Pyro5.util.Other", "Pyro5.core.Daemon",
                "Pyro5.core.URI.x", "struct.Struct", "decimal.Decimal", "int", "float" if False else "complex", "tests.Custom", "json.JSONDecodeError", "JSONDecodeError"):
        expect_refused(tag)
        expect_refused(tag, flagged=False)
    expect_refused(5)
    expect_refused(None)
    expect_refused(("a", "b"))
    expect_refused(b"\xff\xfe")
    # the registry comes before the refusal, and nothing else reaches a converter
    calls = []
    regattr = "_SerializerBase__custom_dict_to_class_registry"
    saved = dict(getattr(base, regattr))
    try:
        base.register_dict_to_class("zz.__probe__", lambda name, data: calls.append(name) or "converted")
        k, v = outcome({"__class__": "zz.__probe__"})
        need(k == "ok" and v == "converted" and calls == ["zz.__probe__"], "probe: a registered converter is not used first")
        k, v = outcome({"__class__": b"zz.__probe__"})
        need(k == "ok" and v == "converted", "probe: a bytes tag is not decoded before the registry lookup")
        expect_refused("zz.__probe__2")
        base.register_dict_to_class("zzprobe", lambda name, data: "converted")
        base.register_dict_to_class("zz.probe3", lambda name, data: "converted")
        for tag in ("os.zzprobe", "zzprobe.x", "ZZPROBE", "probe3", "x.zz.probe3", "zz", b"m.zzprobe"):
            expect_refused(tag)
        base.unregister_dict_to_class("zzprobe")
        base.unregister_dict_to_class("zz.probe3")
        base.unregister_dict_to_class("zz.__probe__")
        expect_refused("zz.__probe__", klass=errors.SecurityError)
    finally:
        for c in [base] + [getattr(sz, n) for n in ("SerpentSerializer", "MarshalSerializer", "JsonSerializer", "MsgpackSerializer")]:
            if c is not base and regattr in c.__dict__:
                delattr(c, regattr)
        getattr(base, regattr).clear()
        getattr(base, regattr).update(saved)
    # recreate_classes: top-down over list / tuple / set / dict values; members of a class dict stay as they are
    ser = sz.MarshalSerializer()
    tagged = {"__class__": "Pyro5.core.URI", "state": uri_state}
    r = ser.recreate_classes([dict(tagged), (dict(tagged), 1), {"k": dict(tagged)}, {1, "a"}, "s"])
    need(type(r) is list and type(r[0]) is core.URI and type(r[1]) is tuple and type(r[1][0]) is core.URI and type(r[2]["k"]) is core.URI
         and r[3] == {1, "a"} and r[4] == "s", "probe: recreate_classes does not re-create inside list / tuple / dict")
    r = ser.recreate_classes({"__class__": "Pyro5.core.URI", "state": [dict(tagged), "o", None, "h", 1]})
    need(type(r) is core.URI and type(r.protocol) is dict, "probe: members of a class dict are re-created before the class is rebuilt")
    shared = [dict(tagged)]
    r = ser.recreate_classes([shared, {"__class__": "Pyro5.core.URI", "state": [shared, "o", None, "h", 1]}])
    need(type(r[1].protocol[0]) is dict, "probe: recreate_classes changes its argument in place")


def probe_hooks(tree):
    """Second reader for the hook table: how each serializer's loads / loadsCall applies dict_to_class is MEASURED on the
    functions of the tree under test (used when their shape is not recognised: private helpers, validation wrappers ...).
    Measured per serializer and path: which parts of a call are re-created and in which order (a recording converter),
    whether members of a class dict are re-created before the class itself (bottom-up = msgpack's object_hook), whether
    msgpack ext values are converted and for which codes, and serpent's float special case."""
    import json as _json, marshal as _marshal, struct as _struct
    from tools.gen.gen import tree_module
    sz = tree_module(tree, "Pyro5.serializers")
    core = tree_module(tree, "Pyro5.core")
    config = tree_module(tree, "Pyro5.config") if False else __import__("Pyro5").config
    import serpent as _serpent
    try:
        import msgpack as _msgpack
    except ImportError:
        _msgpack = None
    base = sz.SerializerBase
    regattr = "_SerializerBase__custom_dict_to_class_registry"
    saved = dict(getattr(base, regattr))

    def enc(name, v):
        if name == "serpent":
            return _serpent.dumps(v, module_in_classname=True, bytes_repr=config.SERPENT_BYTES_REPR)
        if name == "marshal":
            return _marshal.dumps(v)
        if name == "json":
            return _json.dumps(v).encode("utf-8")
        return _msgpack.packb(v, use_bin_type=True)

    def uri():
        return {"__class__": "Pyro5.core.URI", "state": ["PYRO", "o", None, "h", 1]}

    def nested():
        return {"__class__": "Pyro5.core.URI", "state": [uri(), "o", None, "h", 1]}

    def call_msg(name, parts):
        if name == "json":
            return dict(zip(("object", "method", "params", "kwargs"), parts))
        return tuple(parts) if name in ("serpent", "marshal") else list(parts)

    def is_uri(x):
        return type(x) is core.URI
    hooks, ids, specials, extcodes = [], {}, [], None
    order_log = []
    try:
        for name, ser in sorted(sz.serializers.items(), key=lambda kv: kv[1].serializer_id):
            sid = ser.serializer_id
            need(isinstance(sid, int) and sid > 0, "serializer %s without a serializer_id" % name)
            ids[type(ser).__name__] = sid
            # ---- loads
            r = ser.loads(enc(name, [nested(), "x"]))
            need(type(r) is list and is_uri(r[0]) and r[1] == "x", "probe: %s.loads does not re-create a class dict inside a list" % name)
            bottom = is_uri(r[0].protocol)
            need(bottom or type(r[0].protocol) is dict, "probe: %s.loads leaves an unexpected member in a re-created object" % name)
            ext = False
            if name == "msgpack":
                x = ser.loads(_msgpack.packb([_msgpack.ExtType(0x31, b"12")], use_bin_type=True))
                ext = x == [12]
                need(ext or type(x[0]) is _msgpack.ExtType, "probe: msgpack.loads does something unknown with ext values")
            hooks.append((sid, "loads", "BottomUp true %s" % cbool(ext) if bottom else "TopDown [0%%N] %s" % cbool(ext)))
            # ---- loadsCall: which parts, members first?, order
            r = ser.loadsCall(enc(name, call_msg(name, [uri(), uri(), [nested()], {"k": uri()}])))
            need(len(r) == 4, "probe: %s.loadsCall does not return four parts" % name)
            got = [is_uri(r[0]), is_uri(r[1]), type(r[2]) in (list, tuple) and len(r[2]) == 1 and is_uri(r[2][0]), type(r[3]) is dict and is_uri(r[3].get("k"))]
            for i, g in enumerate(got):
                need(g or (i < 2 and type(r[i]) is dict) , "probe: %s.loadsCall changes call part %d in an unknown way" % (name, i + 1))
            need(got[2] and got[3], "probe: %s.loadsCall does not re-create the arguments" % name)
            bottom = is_uri(r[2][0].protocol)
            ext = False
            if name == "msgpack":
                x = ser.loadsCall(_msgpack.packb(["o", "m", [_msgpack.ExtType(0x31, b"12")], {}], use_bin_type=True))
                ext = list(x[2]) == [12]
            if bottom:
                need(all(got), "probe: %s.loadsCall re-creates bottom-up but not in every part" % name)
                hooks.append((sid, "loadsCall", "BottomUp true %s" % cbool(ext)))
            else:
                del order_log[:]
                for i in range(4):
                    base.register_dict_to_class("zz.hookprobe.%d" % i, lambda tag, d: order_log.append(int(tag[-1])) or tag)
                ser.loadsCall(enc(name, call_msg(name, [{"__class__": "zz.hookprobe.0"}, {"__class__": "zz.hookprobe.1"},
                                                        [{"__class__": "zz.hookprobe.2"}], {"k": {"__class__": "zz.hookprobe.3"}}])))
                for i in range(4):
                    base.unregister_dict_to_class("zz.hookprobe.%d" % i)
                need(sorted(order_log) == [i for i in range(4) if got[i]], "probe: %s.loadsCall re-creation order could not be measured" % name)
                hooks.append((sid, "loadsCall", "TopDown %s %s" % (clist([cN(i + 1) for i in order_log]), cbool(ext))))
            # ---- a tag the serializer itself turns into a float, before the registry
            try:
                x = ser.loads(enc(name, [{"__class__": "float", "value": "1.5"}]))
                special = type(x[0]) is float and x[0] == 1.5
            except Exception:
                special = False
            if special:
                base.register_dict_to_class("float", lambda tag, d: "converted")
                x = ser.loads(enc(name, [{"__class__": "float", "value": "1.5"}]))
                base.unregister_dict_to_class("float")
                need(x == [1.5], "probe: %s lets a registered converter take its special tag" % name)
                specials.append((sid, "float", "value"))
        if _msgpack is not None and "msgpack" in sz.serializers and any("true" in m.split()[-1] for _, _, m in hooks):
            ser = sz.serializers["msgpack"]
            extcodes = []
            samples = [b"12", _struct.pack("d", 1.0), _struct.pack("dd", 1.0, 2.0), _struct.pack("l", 5), _struct.pack("i", 5), b"", b"x"]
            for code in range(0, 128):
                ok = False
                for data in samples:
                    try:
                        x = ser.loads(_msgpack.packb([_msgpack.ExtType(code, data)], use_bin_type=True))
                    except Exception:
                        continue
                    need(type(x[0]) in (int, float, complex) or type(x[0]).__module__ == "datetime" or type(x[0]) is _msgpack.ExtType,
                         "probe: msgpack ext code %d builds a %s" % (code, type(x[0]).__name__))
                    if type(x[0]) is not _msgpack.ExtType:
                        ok = True
                        break
                if ok:
                    extcodes.append(code)
    finally:
        for c in [base] + [type(v) for v in sz.serializers.values()]:
            if c is not base and regattr in c.__dict__:
                delattr(c, regattr)
        getattr(base, regattr).clear()
        getattr(base, regattr).update(saved)
    return hooks, ids, specials, extcodes


def evaluated_all_exceptions(tree, tables):
    """all_exceptions as Python built it in the tree under test; every class is looked up in the name tables"""
    from tools.gen.gen import tree_module
    sz = tree_module(tree, "Pyro5.serializers")
    need(isinstance(getattr(sz, "all_exceptions", None), dict), "all_exceptions is not a dict")
    out = {}
    for name, clazz in sz.all_exceptions.items():
        need(isinstance(name, str), "all_exceptions has a key that is not text")
        canon = "%s.%s" % (getattr(clazz, "__module__", "?"), getattr(clazz, "__qualname__", "?"))
        entry = None
        for ns in ("Pyro5.errors", "builtins"):
            e = tables[ns].get(name)
            if e is not None and e[0] == "class" and e[1] == canon:
                entry = e
        if entry is None:   # a class that is bound under this name in neither namespace: recorded as it is, the computed table check decides
            entry = ("class", canon, isinstance(clazz, type) and issubclass(clazz, BaseException), False)
        out[name] = entry
    return out


@generator("GenClassTag", SRC, "Pyro5/errors.py")
def gen_classtag(tree):
    mod, _ = parse(tree, SRC)
    scope = Scope(mod)
    mode = {}
    probed = []

    def read(what, fn):
        """ast reader first; on an unrecognised shape fall back to the reference structure, checked by behavioural probes"""
        try:
            v = fn()
            mode[what] = "ast"
            return v
        except GenError as x:
            if not probed:
                probe_reference(tree)
                probed.append(True)
            mode[what] = "reference structure + behavioural probes (ast reader: %s)" % x
            ref = dict(reference_tables()[what])
            ref["sha"] = "reference"
            return ref
    dtc = read("dict_to_class", lambda: parse_dict_to_class(mod, scope))
    mk = read("make_exception", lambda: parse_make_exception(mod))
    rc = read("recreate_classes", lambda: parse_recreate(mod, dtc["tagkey"]))
    try:
        hooks, ids, specials, extcodes = parse_hooks(mod, dtc["tagkey"])
        mode["hooks"] = "ast"
    except GenError as x:
        hooks, ids, specials, extcodes = probe_hooks(tree)
        mode["hooks"] = "measured on the real loads / loadsCall (ast reader: %s)" % x
    tables = runtime_tables(tree)
    regmode = parse_registries(mod)
    try:
        all_srcs = parse_all_exceptions(mod, scope)
        # all_exceptions as the module-level loops build it (later loops override earlier names)
        allexc = {}
        for ns, g in all_srcs:
            need(ns in tables, "all_exceptions is filled from an unknown namespace " + ns)
            for k, e in tables[ns].items():
                if e[0] != "class":
                    continue
                ok = e[2] if g == "GuardBaseException" else e[3]
                if ok:
                    allexc[k] = e
        mode["all_exceptions"] = "ast"
    except GenError as x:
        allexc = evaluated_all_exceptions(tree, tables)
        mode["all_exceptions"] = "evaluated (ast reader: %s)" % x
    out = HEADER % "Pyro5/serializers.py, Pyro5/errors.py and the interpreter's builtins / sqlite3 name tables"
    out += "From V Require Import Model.ClassTagDefs.\n\n"
    out += "(* readers: %s *)\n" % "; ".join("%s = %s" % (k, v.split(" (")[0]) for k, v in sorted(mode.items()))
    out += "(* dict_to_class: tag = data.get(%r, %r) *)\n" % (dtc["tagkey"], dtc["tagdefault"])
    out += "Definition dtc_tagkey : list N := %s.\n" % ctext(dtc["tagkey"])
    out += "Definition dtc_imports : list (list N) := %s.   (* %s *)\n" % (clist([ctext(x) for x in dtc["imports"]]), ", ".join(dtc["imports"]))
    out += "Definition dtc_pre : list prestep :=\n  [%s].\n" % ";\n   ".join(dtc["pre"])
    out += "Definition dtc_chain : list (list clause) :=   (* one inner list per if/elif group *)\n  [%s].\n" % ";\n   ".join(
        "[" + ";\n    ".join(g) + "]" for g in dtc["chain"])
    out += "(* make_exception: exceptiontype( *data[%r]); attributes restored from data[%r] with setattr *)\n" % (mk["argskey"], mk["attrkey"])
    out += "Definition mkexc_argskey : list N := %s.\n" % ctext(mk["argskey"])
    out += "Definition mkexc_attrkey : option (list N) := %s.\n" % ("None" if mk["attrkey"] is None else "Some %s" % ctext(mk["attrkey"]))
    out += "(* recreate_classes: container types whose elements are recreated *)\n"
    for k in ("set", "list", "tuple", "dict"):
        out += "Definition rc_handles_%s : bool := %s.\n" % (k, cbool(rc["handled"].get(k, False)))
    out += "(* serializer ids: %s *)\n" % ", ".join("%s=%d" % kv for kv in sorted(ids.items()))
    out += "Definition ser_hooks : list (N * bool * hookmode) :=   (* (serializer id, is_call_path, mode) *)\n  [%s].\n" % ";\n   ".join(
        "(%s, %s, %s)" % (cN(sid), cbool(path == "loadsCall"), mode) for sid, path, mode in hooks)
    out += "Definition ser_float_special : list (N * (list N * list N)) := %s.\n" % clist(
        ["(%s, (%s, %s))" % (cN(sid), ctext(t), ctext(k)) for sid, t, k in specials])
    out += "Definition ext_codes : list N := %s.\n" % clist([cN(c) for c in (extcodes or [])])
    out += "(* converter registries: does register_x / unregister_x change the shared class-level dict in place (true), or rebind the\n"
    out += "   attribute through cls so that a serializer subclass gets its own shadowing copy (false)? *)\n"
    out += "Definition reg_d2c_inplace : bool := %s.\n" % cbool(regmode["dict_to_class"])
    out += "Definition reg_c2d_inplace : bool := %s.\n" % cbool(regmode["class_to_dict"])
    out += "(* does register_dict_to_class / unregister_dict_to_class decode a bytes tag argument to text before using it as the key? *)\n"
    out += "Definition reg_d2c_norm_register : bool := %s.\n" % cbool(regmode["norm"]["register_dict_to_class"])
    out += "Definition reg_d2c_norm_unregister : bool := %s.\n" % cbool(regmode["norm"]["unregister_dict_to_class"])
    need(not regmode["norm"]["register_class_to_dict"] and not regmode["norm"]["unregister_class_to_dict"], "class_to_dict registry rewrites its class argument")
    for ns, name in (("Pyro5.errors", "env_errors"), ("builtins", "env_builtins"), ("sqlite3", "env_sqlite3")):
        t = tables[ns]
        out += "Definition %s : list (list N * entry) :=   (* %d names *)\n  [%s].\n" % (
            name, len(t), ";\n   ".join("(%s, %s) (* %s *)" % (ctext(k), c_entry(t[k]), k.replace("*)", "")) for k in sorted(t)))
    out += "Definition env_all_exceptions : list (list N * entry) :=   (* %d names *)\n  [%s].\n" % (
        len(allexc), ";\n   ".join("(%s, %s) (* %s *)" % (ctext(k), c_entry(allexc[k]), k) for k in sorted(allexc)))
    out += "Definition gen_env : env := {| e_namespaces := [(%s, env_errors); (%s, env_builtins); (%s, env_sqlite3)]; e_all := env_all_exceptions |}.\n" % (
        ctext("Pyro5.errors"), ctext("builtins"), ctext("sqlite3"))
    info = {"pre": dtc["pre"], "chain": dtc["chain"], "hooks": [(s, p, m) for s, p, m in hooks], "ids": ids, "specials": specials,
            "ext_codes": extcodes, "reg_inplace": regmode, "mode": mode, "all_exceptions": sorted(allexc), "errors": {k: v[0] for k, v in tables["Pyro5.errors"].items()},
            "sha": {"dict_to_class": dtc["sha"], "make_exception": mk["sha"], "recreate_classes": rc["sha"]}}
    return out, info
