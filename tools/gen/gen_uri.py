"""GenUri (C19): the two regular expressions of Pyro5.core.URI as text, the default name-server port,
the shape of the tests in URI.location / URI.__str__, and the Unicode tables of the running
interpreter that the URI parser depends on (`\\S`, `\\d`, what int() strips and reads as digits)."""
import ast
from tools.gen.gen import generator, parse, find_class, find_func, need, GenError, HEADER, clist, cN, ctext, cZ, ast_sha

_UNI = None


def unicode_tables():
    """(ws, intws, dzeros): code points with str.isspace(); the ones int() skips on both ends;
    the zero of every block of ten decimal digits.  Runtime tables of the interpreter, computed once per process."""
    global _UNI
    if _UNI is not None:
        return _UNI
    import re
    ws = [c for c in range(0x110000) if chr(c).isspace()]
    for c in ws:      # `\s` of the re module is the same predicate (checked on the table and on a sample of others)
        need(re.match(r"\s\Z", chr(c)) is not None, "re \\s disagrees with str.isspace at U+%04X" % c)
    wss = set(ws)
    for c in list(range(0, 0x3100)) + [0xfeff, 0x1d7ce, 0xe0020]:
        need((re.match(r"\S\Z", chr(c)) is None) == (c in wss), "re \\S disagrees with str.isspace at U+%04X" % c)
    digs = [c for c in range(0x110000) if chr(c).isdecimal()]
    import unicodedata
    dz = []
    ds = set(digs)
    for c in digs:
        v = unicodedata.decimal(chr(c))
        z = c - v
        need(all((z + i) in ds and unicodedata.decimal(chr(z + i)) == i for i in range(10)),
             "decimal digit U+%04X is not part of a block of ten consecutive digits" % c)
        if v == 0:
            dz.append(c)
    need(len(dz) * 10 == len(digs), "decimal digit blocks do not tile the decimal digits")
    for z in dz[:80]:
        need(re.match(r"\d\Z", chr(z + 7)) is not None, "re \\d disagrees with str.isdecimal at U+%04X" % (z + 7))

    def int_skips(c):
        try:
            return int(chr(c) + "7") == 7 and int("7" + chr(c)) == 7
        except ValueError:
            return False
    cand = sorted(set(ws) | set(range(0, 256)))
    intws = [c for c in cand if int_skips(c)]
    need(48 not in intws and 43 not in intws and 45 not in intws, "int() whitespace probe is confused")
    for z in dz:
        need(int(chr(z + 3) + chr(z + 4)) == 34, "int() does not read decimal digits of block U+%04X" % z)
    _UNI = (ws, intws, dz)
    return _UNI


def const_str(node, what):
    need(isinstance(node, ast.Constant) and isinstance(node.value, str), what + " is not a string literal")
    return node.value


@generator("GenUri", "Pyro5/core.py", "Pyro5/configure.py")
def gen_uri(tree):
    mod, _ = parse(tree, "Pyro5/core.py")
    cls = find_class(mod, "URI")
    # uriRegEx = re.compile(<literal>)  — no flags
    rx = [n for n in cls.body if isinstance(n, ast.Assign) and len(n.targets) == 1
          and isinstance(n.targets[0], ast.Name) and n.targets[0].id == "uriRegEx"]
    need(len(rx) == 1, "URI.uriRegEx not assigned exactly once")
    call = rx[0].value
    need(isinstance(call, ast.Call) and isinstance(call.func, ast.Attribute) and call.func.attr == "compile"
         and isinstance(call.func.value, ast.Name) and call.func.value.id == "re" and len(call.args) == 1
         and not call.keywords, "URI.uriRegEx is not re.compile(<pattern>) without flags")
    uri_rx = const_str(call.args[0], "URI.uriRegEx pattern")
    init = find_func(mod, "__init__", "URI")
    uses = [n for n in ast.walk(init) if isinstance(n, ast.Call) and isinstance(n.func, ast.Attribute)
            and isinstance(n.func.value, ast.Attribute) and n.func.value.attr == "uriRegEx"]
    need(len(uses) == 1 and uses[0].func.attr == "match", "URI.__init__ does not use uriRegEx.match exactly once")
    # the ipv6 pattern in _parseLocation: re.match(<literal>, location)
    ploc = find_func(mod, "_parseLocation", "URI")
    rms = [n for n in ast.walk(ploc) if isinstance(n, ast.Call) and isinstance(n.func, ast.Attribute)
           and isinstance(n.func.value, ast.Name) and n.func.value.id == "re"]
    need(len(rms) == 1 and rms[0].func.attr == "match" and len(rms[0].args) == 2 and not rms[0].keywords,
         "_parseLocation does not contain exactly one re.match(<pattern>, location)")
    ip6_rx = const_str(rms[0].args[0], "ipv6 pattern")
    # string literals used with startswith / partition / slicing in _parseLocation
    lits = sorted({n.value for n in ast.walk(ploc) if isinstance(n, ast.Constant) and isinstance(n.value, str)
                   and len(n.value) <= 4})
    slices = sorted({n.slice.lower.value for n in ast.walk(ploc) if isinstance(n, ast.Subscript)
                     and isinstance(n.slice, ast.Slice) and isinstance(n.slice.lower, ast.Constant)})
    # default port: configure.py  self.NS_PORT = <int>
    cfg, _ = parse(tree, "Pyro5/configure.py")
    ports = [n.value.value for n in ast.walk(cfg) if isinstance(n, ast.Assign) and len(n.targets) == 1
             and isinstance(n.targets[0], ast.Attribute) and n.targets[0].attr == "NS_PORT"
             and isinstance(n.value, ast.Constant) and isinstance(n.value.value, int)]
    need(len(ports) == 1, "configure.py: self.NS_PORT = <int> not found exactly once")
    ws, intws, dz = unicode_tables()
    out = HEADER % "Pyro5/core.py, Pyro5/configure.py and the interpreter's Unicode tables"
    out += "(* uriRegEx = %s *)\n" % uri_rx.replace("*)", "* )")
    out += "Definition uri_regex_src : list N := %s.\n" % ctext(uri_rx)
    out += "(* ipv6 location pattern = %s *)\n" % ip6_rx.replace("*)", "* )")
    out += "Definition ipv6_regex_src : list N := %s.\n" % ctext(ip6_rx)
    out += "Definition ns_port_default : Z := %s.\n" % cZ(ports[0])
    out += "(* code points with str.isspace() (= what \\s matches) *)\n"
    out += "Definition ws_table : list N := %s.\n" % clist([cN(c) for c in ws])
    out += "(* code points int() skips at both ends of its argument *)\n"
    out += "Definition intws_table : list N := %s.\n" % clist([cN(c) for c in intws])
    out += "(* first code point of every block of ten decimal digits (\\d, int()) *)\n"
    out += "Definition dzero_table : list N := %s.\n" % clist([cN(c) for c in dz])
    return out, {"uri_regex": uri_rx, "ipv6_regex": ip6_rx, "ns_port": ports[0], "literals": lits, "slices": slices,
                 "n_ws": len(ws), "n_intws": len(intws), "n_dzero": len(dz),
                 "ast_sha": {"__init__": ast_sha(init), "_parseLocation": ast_sha(ploc),
                             "location": ast_sha(find_func(mod, "location", "URI")),
                             "__str__": ast_sha(find_func(mod, "__str__", "URI"))}}
