"""GenUri (C19): the two regular expressions of Pyro5.core.URI as text, the default name-server port,
the shape of the tests in URI.location / URI.__str__, and the Unicode tables of the running
interpreter that the URI parser depends on (`\\S`, `\\d`, what int() strips and reads as digits)."""
import ast
from tools.gen.gen import generator, parse, find_class, find_func, need, GenError, HEADER, clist, cN, ctext, cZ, ast_sha

_UNI = None


def unicode_tables():
    """(ws, intws, dzeros): code points with str.isspace(); the ones int() skips on both ends;
    the zero of every block of ten decimal digits.  Runtime tables of the interpreter, computed once per process."""
    global _UNI
    if _UNI is not None:
        return _UNI
    import re
    ws = [c for c in range(0x110000) if chr(c).isspace()]
    for c in ws:      # `\s` of the re module is the same predicate (checked on the table and on a sample of others)
        need(re.match(r"\s\Z", chr(c)) is not None, "re \\s disagrees with str.isspace at U+%04X" % c)
    wss = set(ws)
    for c in list(range(0, 0x3100)) + [0xfeff, 0x1d7ce, 0xe0020]:
        need((re.match(r"\S\Z", chr(c)) is None) == (c in wss), "re \\S disagrees with str.isspace at U+%04X" % c)
    digs = [c for c in range(0x110000) if chr(c).isdecimal()]
    import unicodedata
    dz = []
    ds = set(digs)
    for c in digs:
        v = unicodedata.decimal(chr(c))
        z = c - v
        need(all((z + i) in ds and unicodedata.decimal(chr(z + i)) == i for i in range(10)),
             "decimal digit U+%04X is not part of a block of ten consecutive digits" % c)
        if v == 0:
            dz.append(c)
    need(len(dz) * 10 == len(digs), "decimal digit blocks do not tile the decimal digits")
    for z in dz[:80]:
        need(re.match(r"\d\Z", chr(z + 7)) is not None, "re \\d disagrees with str.isdecimal at U+%04X" % (z + 7))

    def int_skips(c):
        try:
            return int(chr(c) + "7") == 7 and int("7" + chr(c)) == 7
        except ValueError:
            return False
    cand = sorted(set(ws) | set(range(0, 256)))
    intws = [c for c in cand if int_skips(c)]
    need(48 not in intws and 43 not in intws and 45 not in intws, "int() whitespace probe is confused")
    for z in dz:
        need(int(chr(z + 3) + chr(z + 4)) == 34, "int() does not read decimal digits of block U+%04X" % z)
    _UNI = (ws, intws, dz)
    return _UNI


def const_str(node, what):
    need(isinstance(node, ast.Constant) and isinstance(node.value, str), what + " is not a string literal")
    return node.value


STATE_FIELDS = ["protocol", "object", "sockname", "host", "port"]


def _self_attr(node, who="self"):
    if isinstance(node, ast.Attribute) and isinstance(node.value, ast.Name) and node.value.id == who:
        return node.attr
    return None


def _is_getstate_call(node, who):
    return (isinstance(node, ast.Call) and not node.args and not node.keywords and isinstance(node.func, ast.Attribute)
            and node.func.attr == "__getstate__" and isinstance(node.func.value, ast.Name) and node.func.value.id == who)


def _strip_doc(body):
    if body and isinstance(body[0], ast.Expr) and isinstance(body[0].value, ast.Constant) and isinstance(body[0].value.value, str):
        return body[1:]
    return body


def eq_structure(fn, state):
    """-> (exact, fields): exact = `if not isinstance(other, URI): return False; return <A> == <B>` where A/B are the two
    __getstate__() tuples or tuples of the same plain attributes of self/other; fields = what is compared (state positions).
    Anything else (extra branches, normalised fields, other operators): (False, fields that could still be identified)."""
    body = _strip_doc(fn.body)
    other = fn.args.args[1].arg if len(fn.args.args) == 2 else None
    if other is None or len(body) != 2:
        return False, []
    g, r = body
    ok_guard = (isinstance(g, ast.If) and not g.orelse and isinstance(g.test, ast.UnaryOp) and isinstance(g.test.op, ast.Not)
                and isinstance(g.test.operand, ast.Call) and getattr(g.test.operand.func, "id", None) == "isinstance"
                and len(g.test.operand.args) == 2 and getattr(g.test.operand.args[0], "id", None) == other
                and getattr(g.test.operand.args[1], "id", None) == "URI"
                and len(g.body) == 1 and isinstance(g.body[0], ast.Return) and isinstance(g.body[0].value, ast.Constant)
                and g.body[0].value.value is False)
    if not ok_guard or not (isinstance(r, ast.Return) and isinstance(r.value, ast.Compare) and len(r.value.ops) == 1
                            and isinstance(r.value.ops[0], ast.Eq)):
        return False, []
    a, b = r.value.left, r.value.comparators[0]
    if _is_getstate_call(a, "self") and _is_getstate_call(b, other) or _is_getstate_call(a, other) and _is_getstate_call(b, "self"):
        return True, list(range(len(state)))
    if isinstance(a, ast.Tuple) and isinstance(b, ast.Tuple) and len(a.elts) == len(b.elts):
        fa = [_self_attr(e, "self") for e in a.elts]
        fb = [_self_attr(e, other) for e in b.elts]
        if fa == fb and all(f in state for f in fa):
            return True, [state.index(f) for f in fa]
        names = [f for f in fa if f in state]
        return False, [state.index(f) for f in names]
    return False, []


def hash_structure(fn, state):
    """-> (exact, fields): exact = hash(self.__getstate__()), or hash of a tuple of plain self attributes, or the unpacked
    state tuple re-packed (a set-valued element may be wrapped in frozenset)."""
    body = _strip_doc(fn.body)
    if not body or not isinstance(body[-1], ast.Return):
        return False, []
    ret = body[-1].value
    if not (isinstance(ret, ast.Call) and getattr(ret.func, "id", None) == "hash" and len(ret.args) == 1 and not ret.keywords):
        return False, []
    arg = ret.args[0]
    if len(body) == 1:
        if _is_getstate_call(arg, "self"):
            return True, list(range(len(state)))
        if isinstance(arg, ast.Tuple):
            fa = [_self_attr(e, "self") for e in arg.elts]
            if all(f in state for f in fa):
                return True, [state.index(f) for f in fa]
        return False, []
    # names = self.__getstate__() ; [if isinstance(x, set): x = frozenset(x)]* ; return hash((names...))
    first = body[0]
    if not (isinstance(first, ast.Assign) and len(first.targets) == 1 and isinstance(first.targets[0], ast.Tuple)
            and all(isinstance(e, ast.Name) for e in first.targets[0].elts) and _is_getstate_call(first.value, "self")
            and len(first.targets[0].elts) == len(state)):
        return False, []
    names = [e.id for e in first.targets[0].elts]
    for st in body[1:-1]:
        ok = (isinstance(st, ast.If) and not st.orelse and isinstance(st.test, ast.Call) and getattr(st.test.func, "id", None) == "isinstance"
              and len(st.test.args) == 2 and getattr(st.test.args[0], "id", None) in names and getattr(st.test.args[1], "id", None) == "set"
              and len(st.body) == 1 and isinstance(st.body[0], ast.Assign) and len(st.body[0].targets) == 1
              and getattr(st.body[0].targets[0], "id", None) == st.test.args[0].id
              and isinstance(st.body[0].value, ast.Call) and getattr(st.body[0].value.func, "id", None) == "frozenset"
              and len(st.body[0].value.args) == 1 and getattr(st.body[0].value.args[0], "id", None) == st.test.args[0].id)
        if not ok:
            return False, []
    if not (isinstance(arg, ast.Tuple) and all(isinstance(e, ast.Name) and e.id in names for e in arg.elts)):
        return False, []
    return True, [names.index(e.id) for e in arg.elts]


@generator("GenUri", "Pyro5/core.py", "Pyro5/configure.py")
def gen_uri(tree):
    mod, _ = parse(tree, "Pyro5/core.py")
    cls = find_class(mod, "URI")
    # uriRegEx = re.compile(<literal>)  — no flags
    rx = [n for n in cls.body if isinstance(n, ast.Assign) and len(n.targets) == 1
          and isinstance(n.targets[0], ast.Name) and n.targets[0].id == "uriRegEx"]
    need(len(rx) == 1, "URI.uriRegEx not assigned exactly once")
    call = rx[0].value
    need(isinstance(call, ast.Call) and isinstance(call.func, ast.Attribute) and call.func.attr == "compile"
         and isinstance(call.func.value, ast.Name) and call.func.value.id == "re" and len(call.args) == 1
         and not call.keywords, "URI.uriRegEx is not re.compile(<pattern>) without flags")
    uri_rx = const_str(call.args[0], "URI.uriRegEx pattern")
    init = find_func(mod, "__init__", "URI")
    uses = [n for n in ast.walk(init) if isinstance(n, ast.Call) and isinstance(n.func, ast.Attribute)
            and isinstance(n.func.value, ast.Attribute) and n.func.value.attr == "uriRegEx"]
    need(len(uses) == 1 and uses[0].func.attr == "match", "URI.__init__ does not use uriRegEx.match exactly once")
    # the ipv6 pattern in _parseLocation: re.match(<literal>, location)
    ploc = find_func(mod, "_parseLocation", "URI")
    rms = [n for n in ast.walk(ploc) if isinstance(n, ast.Call) and isinstance(n.func, ast.Attribute)
           and isinstance(n.func.value, ast.Name) and n.func.value.id == "re"]
    need(len(rms) == 1 and rms[0].func.attr == "match" and len(rms[0].args) == 2 and not rms[0].keywords,
         "_parseLocation does not contain exactly one re.match(<pattern>, location)")
    ip6_rx = const_str(rms[0].args[0], "ipv6 pattern")
    # string literals used with startswith / partition / slicing in _parseLocation
    lits = sorted({n.value for n in ast.walk(ploc) if isinstance(n, ast.Constant) and isinstance(n.value, str)
                   and len(n.value) <= 4})
    slices = sorted({n.slice.lower.value for n in ast.walk(ploc) if isinstance(n, ast.Subscript)
                     and isinstance(n.slice, ast.Slice) and isinstance(n.slice.lower, ast.Constant)})
    # default port: configure.py  self.NS_PORT = <int>
    cfg, _ = parse(tree, "Pyro5/configure.py")
    ports = [n.value.value for n in ast.walk(cfg) if isinstance(n, ast.Assign) and len(n.targets) == 1
             and isinstance(n.targets[0], ast.Attribute) and n.targets[0].attr == "NS_PORT"
             and isinstance(n.value, ast.Constant) and isinstance(n.value.value, int)]
    need(len(ports) == 1, "configure.py: self.NS_PORT = <int> not found exactly once")
    # __getstate__ / __eq__ / __ne__ / __hash__ : which state fields equality compares and which the hash covers
    gs = _strip_doc(find_func(mod, "__getstate__", "URI").body)
    need(len(gs) == 1 and isinstance(gs[0], ast.Return) and isinstance(gs[0].value, ast.Tuple),
         "URI.__getstate__ is not `return <tuple of self attributes>`")
    state = [_self_attr(e) for e in gs[0].value.elts]
    need(state == STATE_FIELDS, "URI.__getstate__ does not return (protocol, object, sockname, host, port): %r" % (state,))
    eq_exact, eq_fields = eq_structure(find_func(mod, "__eq__", "URI"), state)
    hash_exact, hash_fields = hash_structure(find_func(mod, "__hash__", "URI"), state)
    ne = _strip_doc(find_func(mod, "__ne__", "URI").body)
    ne_is_not_eq = (len(ne) == 1 and isinstance(ne[0], ast.Return) and isinstance(ne[0].value, ast.UnaryOp)
                    and isinstance(ne[0].value.op, ast.Not) and isinstance(ne[0].value.operand, ast.Call)
                    and isinstance(ne[0].value.operand.func, ast.Attribute) and ne[0].value.operand.func.attr == "__eq__"
                    and _self_attr(ne[0].value.operand.func) == "__eq__" and len(ne[0].value.operand.args) == 1)
    ws, intws, dz = unicode_tables()
    out = HEADER % "Pyro5/core.py, Pyro5/configure.py and the interpreter's Unicode tables"
    out += "(* uriRegEx = %s *)\n" % uri_rx.replace("*)", "* )")
    out += "Definition uri_regex_src : list N := %s.\n" % ctext(uri_rx)
    out += "(* ipv6 location pattern = %s *)\n" % ip6_rx.replace("*)", "* )")
    out += "Definition ipv6_regex_src : list N := %s.\n" % ctext(ip6_rx)
    out += "(* state tuple positions: 0 protocol, 1 object, 2 sockname, 3 host, 4 port *)\n"
    out += "(* __eq__ is `not a URI -> False; else <tuple> == <tuple>` over plain fields (no extra branch, no normalisation) *)\n"
    out += "Definition eq_exact : bool := %s.\n" % ("true" if eq_exact else "false")
    out += "Definition eq_fields : list N := %s.\n" % clist([cN(i) for i in eq_fields])
    out += "(* __hash__ is hash(<tuple>) over plain fields (a set-valued field may be frozen) *)\n"
    out += "Definition hash_exact : bool := %s.\n" % ("true" if hash_exact else "false")
    out += "Definition hash_fields : list N := %s.\n" % clist([cN(i) for i in hash_fields])
    out += "Definition ne_is_not_eq : bool := %s.\n" % ("true" if ne_is_not_eq else "false")
    out += "Definition ns_port_default : Z := %s.\n" % cZ(ports[0])
    out += "(* code points with str.isspace() (= what \\s matches) *)\n"
    out += "Definition ws_table : list N := %s.\n" % clist([cN(c) for c in ws])
    out += "(* code points int() skips at both ends of its argument *)\n"
    out += "Definition intws_table : list N := %s.\n" % clist([cN(c) for c in intws])
    out += "(* first code point of every block of ten decimal digits (\\d, int()) *)\n"
    out += "Definition dzero_table : list N := %s.\n" % clist([cN(c) for c in dz])
    return out, {"uri_regex": uri_rx, "ipv6_regex": ip6_rx, "ns_port": ports[0], "literals": lits, "slices": slices,
                 "eq_exact": eq_exact, "eq_fields": eq_fields, "hash_exact": hash_exact,
                 "hash_fields": hash_fields, "ne_is_not_eq": ne_is_not_eq, "n_ws": len(ws), "n_intws": len(intws), "n_dzero": len(dz),
                 "ast_sha": {"__init__": ast_sha(init), "_parseLocation": ast_sha(ploc),
                             "location": ast_sha(find_func(mod, "location", "URI")),
                             "__str__": ast_sha(find_func(mod, "__str__", "URI"))}}
