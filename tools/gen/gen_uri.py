"""GenUri (C19): the two regular expressions of Pyro5.core.URI as text, the default name-server port,
the shape of the tests in URI.location / URI.__str__, and the Unicode tables of the running
interpreter that the URI parser depends on (`\\S`, `\\d`, what int() strips and reads as digits)."""
import ast
from tools.gen.gen import generator, parse, find_class, find_func, need, GenError, HEADER, clist, cN, ctext, cZ, ast_sha, tree_module, try_sha

_UNI = None


def unicode_tables():
    """(ws, intws, dzeros): code points with str.isspace(); the ones int() skips on both ends;
    the zero of every block of ten decimal digits.  Runtime tables of the interpreter, computed once per process."""
    global _UNI
    if _UNI is not None:
        return _UNI
    import re
    ws = [c for c in range(0x110000) if chr(c).isspace()]
    for c in ws:      # `\s` of the re module is the same predicate (checked on the table and on a sample of others)
        need(re.match(r"\s\Z", chr(c)) is not None, "re \\s disagrees with str.isspace at U+%04X" % c)
    wss = set(ws)
    for c in list(range(0, 0x3100)) + [0xfeff, 0x1d7ce, 0xe0020]:
        need((re.match(r"\S\Z", chr(c)) is None) == (c in wss), "re \\S disagrees with str.isspace at U+%04X" % c)
    digs = [c for c in range(0x110000) if chr(c).isdecimal()]
    import unicodedata
    dz = []
    ds = set(digs)
    for c in digs:
        v = unicodedata.decimal(chr(c))
        z = c - v
        need(all((z + i) in ds and unicodedata.decimal(chr(z + i)) == i for i in range(10)),
             "decimal digit U+%04X is not part of a block of ten consecutive digits" % c)
        if v == 0:
            dz.append(c)
    need(len(dz) * 10 == len(digs), "decimal digit blocks do not tile the decimal digits")
    for z in dz[:80]:
        need(re.match(r"\d\Z", chr(z + 7)) is not None, "re \\d disagrees with str.isdecimal at U+%04X" % (z + 7))

    def int_skips(c):
        try:
            return int(chr(c) + "7") == 7 and int("7" + chr(c)) == 7
        except ValueError:
            return False
    cand = sorted(set(ws) | set(range(0, 256)))
    intws = [c for c in cand if int_skips(c)]
    need(48 not in intws and 43 not in intws and 45 not in intws, "int() whitespace probe is confused")
    for z in dz:
        need(int(chr(z + 3) + chr(z + 4)) == 34, "int() does not read decimal digits of block U+%04X" % z)
    _UNI = (ws, intws, dz)
    return _UNI


def const_str(node, what):
    need(isinstance(node, ast.Constant) and isinstance(node.value, str), what + " is not a string literal")
    return node.value


STATE_FIELDS = ["protocol", "object", "sockname", "host", "port"]


def _self_attr(node, who="self"):
    if isinstance(node, ast.Attribute) and isinstance(node.value, ast.Name) and node.value.id == who:
        return node.attr
    return None


def _is_getstate_call(node, who):
    return (isinstance(node, ast.Call) and not node.args and not node.keywords and isinstance(node.func, ast.Attribute)
            and node.func.attr == "__getstate__" and isinstance(node.func.value, ast.Name) and node.func.value.id == who)


def _strip_doc(body):
    if body and isinstance(body[0], ast.Expr) and isinstance(body[0].value, ast.Constant) and isinstance(body[0].value.value, str):
        return body[1:]
    return body


def eq_structure(fn, state):
    """-> (exact, fields): exact = `if not isinstance(other, URI): return False; return <A> == <B>` where A/B are the two
    __getstate__() tuples or tuples of the same plain attributes of self/other; fields = what is compared (state positions).
    Anything else (extra branches, normalised fields, other operators): (False, fields that could still be identified)."""
    body = _strip_doc(fn.body)
    other = fn.args.args[1].arg if len(fn.args.args) == 2 else None
    if other is None or len(body) != 2:
        return False, []
    g, r = body
    ok_guard = (isinstance(g, ast.If) and not g.orelse and isinstance(g.test, ast.UnaryOp) and isinstance(g.test.op, ast.Not)
                and isinstance(g.test.operand, ast.Call) and getattr(g.test.operand.func, "id", None) == "isinstance"
                and len(g.test.operand.args) == 2 and getattr(g.test.operand.args[0], "id", None) == other
                and getattr(g.test.operand.args[1], "id", None) == "URI"
                and len(g.body) == 1 and isinstance(g.body[0], ast.Return) and isinstance(g.body[0].value, ast.Constant)
                and g.body[0].value.value is False)
    if not ok_guard or not (isinstance(r, ast.Return) and isinstance(r.value, ast.Compare) and len(r.value.ops) == 1
                            and isinstance(r.value.ops[0], ast.Eq)):
        return False, []
    a, b = r.value.left, r.value.comparators[0]
    if _is_getstate_call(a, "self") and _is_getstate_call(b, other) or _is_getstate_call(a, other) and _is_getstate_call(b, "self"):
        return True, list(range(len(state)))
    if isinstance(a, ast.Tuple) and isinstance(b, ast.Tuple) and len(a.elts) == len(b.elts):
        fa = [_self_attr(e, "self") for e in a.elts]
        fb = [_self_attr(e, other) for e in b.elts]
        if fa == fb and all(f in state for f in fa):
            return True, [state.index(f) for f in fa]
        names = [f for f in fa if f in state]
        return False, [state.index(f) for f in names]
    return False, []


def hash_structure(fn, state):
    """-> (exact, fields): exact = hash(self.__getstate__()), or hash of a tuple of plain self attributes, or the unpacked
    state tuple re-packed (a set-valued element may be wrapped in frozenset)."""
    body = _strip_doc(fn.body)
    if not body or not isinstance(body[-1], ast.Return):
        return False, []
    ret = body[-1].value
    if not (isinstance(ret, ast.Call) and getattr(ret.func, "id", None) == "hash" and len(ret.args) == 1 and not ret.keywords):
        return False, []
    arg = ret.args[0]
    if len(body) == 1:
        if _is_getstate_call(arg, "self"):
            return True, list(range(len(state)))
        if isinstance(arg, ast.Tuple):
            fa = [_self_attr(e, "self") for e in arg.elts]
            if all(f in state for f in fa):
                return True, [state.index(f) for f in fa]
        return False, []
    # names = self.__getstate__() ; [if isinstance(x, set): x = frozenset(x)]* ; return hash((names...))
    first = body[0]
    if not (isinstance(first, ast.Assign) and len(first.targets) == 1 and isinstance(first.targets[0], ast.Tuple)
            and all(isinstance(e, ast.Name) for e in first.targets[0].elts) and _is_getstate_call(first.value, "self")
            and len(first.targets[0].elts) == len(state)):
        return False, []
    names = [e.id for e in first.targets[0].elts]
    for st in body[1:-1]:
        ok = (isinstance(st, ast.If) and not st.orelse and isinstance(st.test, ast.Call) and getattr(st.test.func, "id", None) == "isinstance"
              and len(st.test.args) == 2 and getattr(st.test.args[0], "id", None) in names and getattr(st.test.args[1], "id", None) == "set"
              and len(st.body) == 1 and isinstance(st.body[0], ast.Assign) and len(st.body[0].targets) == 1
              and getattr(st.body[0].targets[0], "id", None) == st.test.args[0].id
              and isinstance(st.body[0].value, ast.Call) and getattr(st.body[0].value.func, "id", None) == "frozenset"
              and len(st.body[0].value.args) == 1 and getattr(st.body[0].value.args[0], "id", None) == st.test.args[0].id)
        if not ok:
            return False, []
    if not (isinstance(arg, ast.Tuple) and all(isinstance(e, ast.Name) and e.id in names for e in arg.elts)):
        return False, []
    return True, [names.index(e.id) for e in arg.elts]


PROBE_BASES = [("PYRO", "obj", None, "host.name", 4444), ("PYRO", "obj", "sock/Name", None, None),
               ("PYROMETA", {"a", "b"}, None, "h", 9090), ("PYRONAME", "n", None, None, None),
               ("PYRONAME", "obj", None, "fe80::a", 0)]


def _probe_variants(base):
    """states that differ from `base` in exactly one position of the state tuple: {field: [state, ...]}"""
    proto, obj, sock, host, port = base
    out = {0: [], 1: [], 2: [], 3: [], 4: []}
    if not isinstance(obj, set):
        out[0] += [("PYRONAME" if proto == "PYRO" else "PYRO", obj, sock, host, port)]
        out[1] += [(proto, obj.swapcase(), sock, host, port), (proto, obj + "x", sock, host, port), (proto, obj[:-1] + "?", sock, host, port)]
    else:
        out[1] += [(proto, {"a", "B"}, sock, host, port), (proto, {"a"}, sock, host, port), (proto, {"a", "b", ""}, sock, host, port)]
    if sock is not None:
        out[2] += [(proto, obj, sock.swapcase(), host, port), (proto, obj, sock + " ", host, port), (proto, obj, sock[:-1] + "3", host, port)]
    if host is not None:
        out[3] += [(proto, obj, sock, host.swapcase(), port), (proto, obj, sock, host + ".", port), (proto, obj, sock, host[:-1] + "z", port),
                   (proto, obj, sock, "", port)]
        out[4] += [(proto, obj, sock, host, port + 1), (proto, obj, sock, host, -port - 1), (proto, obj, sock, host, port + 2 ** 64)]
    return out


def eq_hash_probed(tree):
    """-> (eq_exact, eq_fields, hash_exact, hash_fields, ne_is_not_eq) observed on the URI class of the tree under test:
    a field is in eq_fields iff EVERY one-field variation of it makes the URIs unequal (both ways round); eq_exact iff that holds
    for all five fields, equal states compare equal and a non-URI never does; a field is in hash_fields iff every one-field
    variation changes the hash; hash_exact iff equal states hash equal and hashing never raises."""
    import copy
    core = tree_module(tree, "Pyro5.core")

    def mk(st):
        u = core.URI.__new__(core.URI)
        u.__setstate__(copy.deepcopy(st))
        return u
    eq_sens = {f: True for f in range(5)}
    hash_sens = {f: True for f in range(5)}
    seen = {f: 0 for f in range(5)}
    ident_ok = hash_ok = ne_ok = True
    for base in PROBE_BASES:
        a, a2 = mk(base), mk(base)
        ident_ok = ident_ok and (a == a2) is True and (a2 == a) is True and (a == a) is True and (a == base) is False and (a == str(a)) is False
        ne_ok = ne_ok and (a != a2) is False
        try:
            ha = hash(a)
            hash_ok = hash_ok and ha == hash(a2)
        except Exception:
            hash_ok, ha = False, None
        for f, variants in _probe_variants(base).items():
            for st in variants:
                b = mk(st)
                seen[f] += 1
                e1, e2 = a == b, b == a
                ne_ok = ne_ok and (a != b) is (not e1) and (b != a) is (not e2)
                if e1 or e2:
                    eq_sens[f] = False
                try:
                    if ha is None or hash(b) == ha:
                        hash_sens[f] = False
                except Exception:
                    hash_ok = False
                    hash_sens[f] = False
    need(all(seen[f] > 0 for f in range(5)), "probe battery does not vary every state field")
    eq_fields = [f for f in range(5) if eq_sens[f]]
    hash_fields = [f for f in range(5) if hash_sens[f]] if hash_ok else []
    return bool(ident_ok and len(eq_fields) == 5), eq_fields, bool(hash_ok), hash_fields, bool(ne_ok)


@generator("GenUri", "Pyro5/core.py", "Pyro5/configure.py")
def gen_uri(tree):
    mod, _ = parse(tree, "Pyro5/core.py")
    cls = find_class(mod, "URI")
    # the two patterns: uriRegEx (class attribute) and the bracketed-ipv6 location pattern.  The ast reader accepts the
    # pattern literal wherever in class URI it is handed to re.compile/match/fullmatch/search (inline in a method, or
    # precompiled as a class attribute under any name); if that does not identify them, uriRegEx is read as evaluated.
    # HOW a pattern is applied (match / fullmatch) is not pinned here: behaviour is compared by the harness on every string.
    modes = []
    pats = []         # (assigned class-attribute name or None, pattern text)
    for node in ast.walk(cls):
        if isinstance(node, ast.Call) and isinstance(node.func, ast.Attribute) and isinstance(node.func.value, ast.Name) \
                and node.func.value.id == "re" and node.func.attr in ("compile", "match", "fullmatch", "search") and node.args \
                and isinstance(node.args[0], ast.Constant) and isinstance(node.args[0].value, str):
            owner = [n.targets[0].id for n in cls.body if isinstance(n, ast.Assign) and n.value is node
                     and len(n.targets) == 1 and isinstance(n.targets[0], ast.Name)]
            pats.append((owner[0] if owner else None, node.args[0].value, len(node.args) + len(node.keywords)))
    named = [p for p in pats if p[0] == "uriRegEx"]
    if len(named) == 1 and named[0][2] == 1:
        uri_rx = named[0][1]
        modes.append("uriRegEx: ast")
    else:
        rxobj = getattr(tree_module(tree, "Pyro5.core").URI, "uriRegEx", None)
        need(hasattr(rxobj, "pattern") and isinstance(rxobj.pattern, str), "URI.uriRegEx is not a compiled str pattern")
        import re as _re
        need(rxobj.flags & ~_re.UNICODE == 0, "URI.uriRegEx is compiled with flags")
        uri_rx = rxobj.pattern
        modes.append("uriRegEx: evaluated")
    others = sorted({p[1] for p in pats if p[0] != "uriRegEx" and p[1] != uri_rx})
    need(len(others) == 1, "expected exactly one more pattern literal (the bracketed ipv6 location) in class URI, found %d" % len(others))
    ip6_rx = others[0]
    init = find_func(mod, "__init__", "URI")
    ploc = find_func(mod, "_parseLocation", "URI")
    # string literals used with startswith / partition / slicing in _parseLocation
    lits = sorted({n.value for n in ast.walk(ploc) if isinstance(n, ast.Constant) and isinstance(n.value, str)
                   and len(n.value) <= 4})
    slices = sorted({n.slice.lower.value for n in ast.walk(ploc) if isinstance(n, ast.Subscript)
                     and isinstance(n.slice, ast.Slice) and isinstance(n.slice.lower, ast.Constant)})
    # default port: configure.py  self.NS_PORT = <int>
    cfg, _ = parse(tree, "Pyro5/configure.py")
    ports = [n.value.value for n in ast.walk(cfg) if isinstance(n, ast.Assign) and len(n.targets) == 1
             and isinstance(n.targets[0], ast.Attribute) and n.targets[0].attr == "NS_PORT"
             and isinstance(n.value, ast.Constant) and isinstance(n.value.value, int)]
    need(len(ports) == 1, "configure.py: self.NS_PORT = <int> not found exactly once")
    # __getstate__ / __eq__ / __ne__ / __hash__ : which state fields equality compares and which the hash covers
    gs = _strip_doc(find_func(mod, "__getstate__", "URI").body)
    need(len(gs) == 1 and isinstance(gs[0], ast.Return) and isinstance(gs[0].value, ast.Tuple),
         "URI.__getstate__ is not `return <tuple of self attributes>`")
    state = [_self_attr(e) for e in gs[0].value.elts]
    need(state == STATE_FIELDS, "URI.__getstate__ does not return (protocol, object, sockname, host, port): %r" % (state,))
    eq_exact, eq_fields = eq_structure(find_func(mod, "__eq__", "URI"), state)
    hash_exact, hash_fields = hash_structure(find_func(mod, "__hash__", "URI"), state)
    ne = _strip_doc(find_func(mod, "__ne__", "URI").body)
    ne_is_not_eq = (len(ne) == 1 and isinstance(ne[0], ast.Return) and isinstance(ne[0].value, ast.UnaryOp)
                    and isinstance(ne[0].value.op, ast.Not) and isinstance(ne[0].value.operand, ast.Call)
                    and isinstance(ne[0].value.operand.func, ast.Attribute) and ne[0].value.operand.func.attr == "__eq__"
                    and _self_attr(ne[0].value.operand.func) == "__eq__" and len(ne[0].value.operand.args) == 1)
    if eq_exact and hash_exact and ne_is_not_eq:
        modes.append("eq/hash: ast")
    else:
        # the methods are not in one of the recognised shapes (helper calls, shortcuts, one-expression forms ...):
        # second reader = probe the class of the tree under test with states that differ in exactly one field
        eq_exact, eq_fields, hash_exact, hash_fields, ne_is_not_eq = eq_hash_probed(tree)
        modes.append("eq/hash: probed")
    ws, intws, dz = unicode_tables()
    out = HEADER % "Pyro5/core.py, Pyro5/configure.py and the interpreter's Unicode tables"
    out += "(* uriRegEx = %s *)\n" % uri_rx.replace("*)", "* )")
    out += "Definition uri_regex_src : list N := %s.\n" % ctext(uri_rx)
    out += "(* ipv6 location pattern = %s *)\n" % ip6_rx.replace("*)", "* )")
    out += "Definition ipv6_regex_src : list N := %s.\n" % ctext(ip6_rx)
    out += "(* state tuple positions: 0 protocol, 1 object, 2 sockname, 3 host, 4 port *)\n"
    out += "(* __eq__ is `not a URI -> False; else <tuple> == <tuple>` over plain fields (no extra branch, no normalisation) *)\n"
    out += "Definition eq_exact : bool := %s.\n" % ("true" if eq_exact else "false")
    out += "Definition eq_fields : list N := %s.\n" % clist([cN(i) for i in eq_fields])
    out += "(* __hash__ is hash(<tuple>) over plain fields (a set-valued field may be frozen) *)\n"
    out += "Definition hash_exact : bool := %s.\n" % ("true" if hash_exact else "false")
    out += "Definition hash_fields : list N := %s.\n" % clist([cN(i) for i in hash_fields])
    out += "Definition ne_is_not_eq : bool := %s.\n" % ("true" if ne_is_not_eq else "false")
    out += "Definition ns_port_default : Z := %s.\n" % cZ(ports[0])
    out += "(* code points with str.isspace() (= what \\s matches) *)\n"
    out += "Definition ws_table : list N := %s.\n" % clist([cN(c) for c in ws])
    out += "(* code points int() skips at both ends of its argument *)\n"
    out += "Definition intws_table : list N := %s.\n" % clist([cN(c) for c in intws])
    out += "(* first code point of every block of ten decimal digits (\\d, int()) *)\n"
    out += "Definition dzero_table : list N := %s.\n" % clist([cN(c) for c in dz])
    return out, {"uri_regex": uri_rx, "ipv6_regex": ip6_rx, "ns_port": ports[0], "literals": lits, "slices": slices,
                 "eq_exact": eq_exact, "eq_fields": eq_fields, "hash_exact": hash_exact,
                 "hash_fields": hash_fields, "ne_is_not_eq": ne_is_not_eq, "mode": "; ".join(modes), "n_ws": len(ws), "n_intws": len(intws), "n_dzero": len(dz),
                 "ast_sha": {"__init__": ast_sha(init), "_parseLocation": ast_sha(ploc),
                             "location": try_sha(lambda: find_func(mod, "location", "URI")),
                             "__str__": try_sha(lambda: find_func(mod, "__str__", "URI"))}}
