"""GenCleanup (C13): the cleanup structure of both transport servers, read from the source with `ast`.

What is extracted (fail closed on any unrecognised shape):
  svr_threads.ClientConnectionJob.__call__   the `finally:` of the request loop -> ordered cleanup actions; every
                                             `except` of the loop and whether it leaves the loop (`break`)
  svr_threads.Worker.run                     the worker is handed back to the pool after the job, whatever it raised
  svr_threads.ClientConnectionJob.handleConnection / svr_multiplex._handleConnection
                                             a refused handshake closes the connection (no hook)
  svr_multiplex.SocketServer_Multiplex.events   the `if not active:` branch -> ordered cleanup actions
  svr_multiplex.SocketServer_Multiplex.handleRequest   every `except` and whether it returns False
  socketutil.SocketConnection.close          ordered primitive actions (socket, session instances, tracked resources)
  callcontext.track_resource/untrack_resource  add / discard on client.tracked_resources
  server.Daemon._clientDisconnect            calls the user hook exactly once, unconditionally
  server.Daemon.handleRequest                which method exceptions are re-raised (security, @callback)
"""
import ast
from tools.gen.gen import generator, parse, find_class, find_func, need, GenError, HEADER, clist, cbool, ast_sha

EXC = ["XClosed", "XProtocol", "XTimeout", "XSecurity", "XOther"]
EXC_CLASS = {"XClosed": "ConnectionClosedError", "XProtocol": "ProtocolError", "XTimeout": "TimeoutError",
             "XSecurity": "SecurityError", "XOther": "Exception"}


def dotted(node):
    if isinstance(node, ast.Name):
        return node.id
    if isinstance(node, ast.Attribute):
        b = dotted(node.value)
        return None if b is None else b + "." + node.attr
    return None


def call_name(node):
    return dotted(node.func) if isinstance(node, ast.Call) else None


def is_log_call(node):
    n = call_name(node)
    return n is not None and (n.startswith("log.") or n.startswith("logging."))


def error_hierarchy(tree):
    mod, _ = parse(tree, "Pyro5/errors.py")
    h = {}
    for n in mod.body:
        if isinstance(n, ast.ClassDef):
            bases = [dotted(b) for b in n.bases]
            need(all(b is not None for b in bases), "unrecognised base class of errors.%s" % n.name)
            h[n.name] = [b.split(".")[-1] for b in bases]
    for k in EXC_CLASS.values():
        need(k == "Exception" or k in h, "errors.%s not found" % k)
    return h


def ancestors(h, cls):
    out, todo = [], [cls]
    while todo:
        c = todo.pop(0)
        if c in out:
            continue
        out.append(c)
        todo.extend(h.get(c, []))
    if "Exception" not in out:
        out.append("Exception")   # everything the daemon catches derives from Exception
    return out


def handler_classes(hd):
    need(hd.type is not None, "bare except")
    elts = hd.type.elts if isinstance(hd.type, ast.Tuple) else [hd.type]
    names = []
    for e in elts:
        d = dotted(e)
        need(d is not None, "unrecognised exception class expression in except")
        names.append(d.split(".")[-1])
    return names


def first_handler(h, handlers, xclass):
    """index of the first handler catching the Pyro class `xclass` (or a generic non-Pyro Exception subclass)"""
    anc = ancestors(h, xclass) if xclass != "Exception" else ["Exception"]
    for i, hd in enumerate(handlers):
        if any(n in anc for n in handler_classes(hd)):
            return i
    return None


def no_flow_escape(stmts, what):
    for st in stmts:
        for sub in ast.walk(st):
            need(not isinstance(sub, (ast.Continue, ast.Return, ast.Raise, ast.Yield)), "unexpected control flow in " + what)


def seq_actions(stmts, rules, what):
    """Walk a straight-line statement list (descending into the body of `with` and `try`), map every call to an
    action through `rules` (callable name -> action | None to ignore); anything conditional or unknown fails closed."""
    acts = []

    def walk(sts):
        for st in sts:
            if isinstance(st, ast.With):
                guards = False
                for it in st.items:
                    n = call_name(it.context_expr) or dotted(it.context_expr)
                    need(n is not None and (n.endswith("suppress") or n.endswith("_lock") or n.endswith("lock")),
                         "unrecognised context manager in " + what)
                    if n.endswith("suppress"):
                        need(any(dotted(a) == "Exception" for a in it.context_expr.args), "suppress(...) of something else than Exception in " + what)
                        guards = True
                walk(st.body)
                if guards:
                    acts.append("AGuardEnd")     # an exception raised inside is swallowed here: the rest of the block is skipped
            elif isinstance(st, ast.Try):
                need(not st.orelse and not st.finalbody, "try with else/finally in " + what)
                walk(st.body)
                for hd in st.handlers:
                    for s2 in hd.body:
                        need(isinstance(s2, ast.Expr) and is_log_call(s2.value) or isinstance(s2, ast.Pass),
                             "except branch in %s does more than logging" % what)
                # a hook exception is caught here (and only logged): what follows the hook inside this try is skipped
                if any("Exception" in handler_classes(hd) for hd in st.handlers):
                    acts.append("AGuardEnd")
            elif isinstance(st, ast.Expr) and isinstance(st.value, ast.Call):
                if is_log_call(st.value):
                    continue
                a = rules(st.value)
                need(a is not None, "unrecognised call %s in %s" % (call_name(st.value), what))
                acts.extend(a)
            elif isinstance(st, ast.Pass):
                continue
            else:
                raise GenError("unrecognised statement %s in %s" % (type(st).__name__, what))
    walk(stmts)
    return acts


def conn_close_actions(tree):
    mod, _ = parse(tree, "Pyro5/socketutil.py")
    f = find_func(mod, "close", "SocketConnection")
    acts = []
    body = list(f.body)
    # optional docstring
    if body and isinstance(body[0], ast.Expr) and isinstance(body[0].value, ast.Constant) and isinstance(body[0].value.value, str):
        body = body[1:]
    # `if self.keep_open: return`
    need(body and isinstance(body[0], ast.If) and dotted(body[0].test) == "self.keep_open" and len(body[0].body) == 1
         and isinstance(body[0].body[0], ast.Return) and not body[0].orelse, "SocketConnection.close: keep_open guard not recognised")
    for st in body[1:]:
        if isinstance(st, ast.With):
            need(all((call_name(it.context_expr) or "").endswith("suppress") for it in st.items),
                 "SocketConnection.close: unrecognised with")
            need(len(st.body) == 1 and isinstance(st.body[0], ast.Expr) and isinstance(st.body[0].value, ast.Call),
                 "SocketConnection.close: unrecognised with body")
            n = call_name(st.body[0].value)
            if n == "self.sock.close":
                acts.append("ASock")
            elif n == "self.sock.shutdown":
                pass
            else:
                raise GenError("SocketConnection.close: unrecognised call " + str(n))
        elif isinstance(st, ast.Expr) and isinstance(st.value, ast.Call):
            n = call_name(st.value)
            if n == "self.sock.close":
                acts.append("ASock")
            elif n == "self.sock.shutdown":
                pass
            elif n == "self.tracked_resources.clear":
                acts.append("AClearRes")
            elif is_log_call(st.value):
                pass
            else:
                raise GenError("SocketConnection.close: unrecognised call " + str(n))
        elif isinstance(st, ast.Assign):
            need(len(st.targets) == 1, "SocketConnection.close: unrecognised assignment")
            t = dotted(st.targets[0])
            if t == "self.pyroInstances":
                need(isinstance(st.value, ast.Dict) and not st.value.keys or
                     (isinstance(st.value, ast.Call) and call_name(st.value) == "dict" and not st.value.args and not st.value.keywords),
                     "SocketConnection.close: pyroInstances is not reset to an empty dict")
                acts.append("ADropInst")
            elif t == "self.tracked_resources":
                need(isinstance(st.value, ast.Call) and call_name(st.value) in ("weakref.WeakSet", "set") and not st.value.args,
                     "SocketConnection.close: tracked_resources reassigned to something unrecognised")
                acts.append("AClearRes")
            else:
                raise GenError("SocketConnection.close: unrecognised assignment to " + str(t))
        elif isinstance(st, ast.Expr) and isinstance(st.value, ast.Call) and call_name(st.value) == "self.pyroInstances.clear":
            acts.append("ADropInst")
        elif isinstance(st, ast.For):
            need(dotted(st.iter) == "self.tracked_resources" or
                 (isinstance(st.iter, ast.Call) and call_name(st.iter) in ("list", "tuple", "set") and len(st.iter.args) == 1
                  and dotted(st.iter.args[0]) == "self.tracked_resources"),
                 "SocketConnection.close: for loop does not iterate over self.tracked_resources")
            need(isinstance(st.target, ast.Name) and not st.orelse, "SocketConnection.close: unrecognised for loop")
            var = st.target.id
            inner = st.body
            if len(inner) == 1 and isinstance(inner[0], ast.With):
                need(all((call_name(it.context_expr) or "").endswith("suppress") for it in inner[0].items),
                     "SocketConnection.close: unrecognised with in resource loop")
                inner = inner[0].body
            need(len(inner) == 1 and isinstance(inner[0], ast.Expr) and call_name(inner[0].value) == var + ".close"
                 and not inner[0].value.args, "SocketConnection.close: resource loop body is not a single `rsc.close()`")
            acts.append("ACloseRes")
        else:
            raise GenError("SocketConnection.close: unrecognised statement " + type(st).__name__)
    return acts, ast_sha(f)


def hook_calls(tree):
    """Daemon._clientDisconnect: number of unconditional top-level calls of self.clientDisconnect(conn)"""
    mod, _ = parse(tree, "Pyro5/server.py")
    f = find_func(mod, "_clientDisconnect", "Daemon")
    need(len(f.args.args) == 2, "_clientDisconnect signature")
    conn = f.args.args[1].arg
    total = [c for c in ast.walk(f) if isinstance(c, ast.Call) and call_name(c) == "self.clientDisconnect"]
    top = [st for st in f.body if isinstance(st, ast.Expr) and isinstance(st.value, ast.Call)
           and call_name(st.value) == "self.clientDisconnect"]
    need(len(total) == len(top), "_clientDisconnect calls the user hook conditionally")
    for st in top:
        need(len(st.value.args) == 1 and dotted(st.value.args[0]) == conn, "user hook is not called with the connection")
    for st in f.body:
        for sub in ast.walk(st):
            need(not isinstance(sub, (ast.Return, ast.Raise)), "_clientDisconnect can leave before the user hook")
    return len(top), ast_sha(f)


def reraise_facts(tree):
    mod, _ = parse(tree, "Pyro5/server.py")
    f = find_func(mod, "handleRequest", "Daemon")
    tries = [st for st in f.body if isinstance(st, ast.Try)]
    need(len(tries) == 2, "Daemon.handleRequest: expected two top-level try statements")
    first, second = tries
    # receiving: CommunicationError is re-raised
    need(len(first.handlers) == 1 and "CommunicationError" in handler_classes(first.handlers[0])
         and any(isinstance(s, ast.Raise) for s in first.handlers[0].body),
         "Daemon.handleRequest: a failed receive is not re-raised")
    need(any(call_name(c) == "protocol.recv_stub" for st in first.body for c in ast.walk(st) if isinstance(c, ast.Call)),
         "Daemon.handleRequest: first try does not receive the message")
    need(len(second.handlers) == 1 and handler_classes(second.handlers[0]) == ["Exception"],
         "Daemon.handleRequest: catch-all handler not recognised")
    hd = second.handlers[0]
    last = hd.body[-1]
    need(isinstance(last, ast.If) and len(last.body) == 1 and isinstance(last.body[0], ast.Raise) and last.body[0].exc is None
         and not last.orelse, "Daemon.handleRequest: final conditional re-raise not recognised")
    test = last.test
    disj = test.values if isinstance(test, ast.BoolOp) and isinstance(test.op, ast.Or) else [test]
    callback, classes = False, []
    for d in disj:
        if isinstance(d, ast.Name) and d.id == "isCallback":
            callback = True
        elif isinstance(d, ast.Call) and call_name(d) == "isinstance" and len(d.args) == 2 and dotted(d.args[0]) == hd.name:
            elts = d.args[1].elts if isinstance(d.args[1], ast.Tuple) else [d.args[1]]
            for e in elts:
                n = dotted(e)
                need(n is not None, "unrecognised class in re-raise test")
                classes.append(n.split(".")[-1])
        else:
            raise GenError("Daemon.handleRequest: unrecognised disjunct in the re-raise test")
    # isCallback must be what getattr(method, "_pyroCallback", False) says
    if callback:
        need(any(isinstance(n, ast.Assign) and dotted(n.targets[0]) == "isCallback" and isinstance(n.value, ast.Call)
                 and call_name(n.value) == "getattr" for n in ast.walk(second)), "isCallback is not read from the method")
    # ordering fact: the call context is bound to THIS connection before the target instance is looked up / constructed
    # (a constructor that tracks a resource must track it on the connection whose request is being served)
    binds = [n for n in ast.walk(second) if isinstance(n, ast.Assign) and len(n.targets) == 1
             and dotted(n.targets[0]) == "current_context.client"]
    need(len(binds) == 1 and dotted(binds[0].value) == f.args.args[1].arg,
         "Daemon.handleRequest: current_context.client is not bound exactly once to the connection")
    ctor_calls = [c for c in ast.walk(second) if isinstance(c, ast.Call) and call_name(c) == "self._getInstance"]
    need(len(ctor_calls) == 1, "Daemon.handleRequest: self._getInstance not called exactly once")
    need(binds[0] in second.body, "Daemon.handleRequest: current_context.client is bound conditionally")
    bound_first = binds[0].lineno < ctor_calls[0].lineno
    return callback, classes, ast_sha(f), bound_first


def thread_facts(tree, h, close_acts, nhook):
    mod, _ = parse(tree, "Pyro5/svr_threads.py")
    f = find_func(mod, "__call__", "ClientConnectionJob")
    need(len(f.body) == 1 and isinstance(f.body[0], ast.If) and call_name(f.body[0].test) == "self.handleConnection"
         and not f.body[0].orelse, "ClientConnectionJob.__call__: `if self.handleConnection():` not recognised")
    inner = f.body[0].body
    need(len(inner) == 1 and isinstance(inner[0], ast.Try) and not inner[0].handlers and not inner[0].orelse and inner[0].finalbody,
         "ClientConnectionJob.__call__: try/finally around the request loop not recognised")
    tr = inner[0]
    need(len(tr.body) == 1 and isinstance(tr.body[0], ast.While) and isinstance(tr.body[0].test, ast.Constant)
         and tr.body[0].test.value is True and not tr.body[0].orelse, "ClientConnectionJob.__call__: `while True:` not recognised")
    loop = tr.body[0]
    need(len(loop.body) == 1 and isinstance(loop.body[0], ast.Try) and not loop.body[0].finalbody and not loop.body[0].orelse,
         "ClientConnectionJob.__call__: loop body is not a single try")
    ltry = loop.body[0]
    need(len(ltry.body) == 1 and isinstance(ltry.body[0], ast.Expr) and call_name(ltry.body[0].value) == "self.daemon.handleRequest"
         and len(ltry.body[0].value.args) == 1 and dotted(ltry.body[0].value.args[0]) == "self.csock",
         "ClientConnectionJob.__call__: the loop does not just call daemon.handleRequest(self.csock)")
    ends = {}
    handlers = []
    for hd in ltry.handlers:
        last = hd.body[-1]
        brk = isinstance(last, ast.Break)
        no_flow_escape(hd.body[:-1] if brk else hd.body, "except branch of the request loop")
        if not brk:
            need(not any(isinstance(s, ast.Break) for st in hd.body for s in ast.walk(st)), "break in the middle of an except branch")
        handlers.append((handler_classes(hd), brk))
    for x in EXC:
        i = first_handler(h, ltry.handlers, EXC_CLASS[x])
        # uncaught: the exception leaves the loop through the finally (and is contained by Worker.run)
        ends[x] = True if i is None else handlers[i][1]

    def rules(call):
        n = call_name(call)
        if n == "self.daemon._clientDisconnect":
            need(len(call.args) == 1 and dotted(call.args[0]) == "self.csock", "_clientDisconnect not called with self.csock")
            return ["AHook"] * nhook
        if n == "self.csock.close":
            return list(close_acts)
        return None
    cleanup = seq_actions(tr.finalbody, rules, "finally of ClientConnectionJob.__call__")
    # the worker slot: Worker.run calls pool.notify_done after the job, whatever the job raised
    w = find_func(mod, "run", "Worker")
    loops = [st for st in w.body if isinstance(st, ast.While)]
    need(len(loops) == 1, "Worker.run: loop not recognised")
    body = loops[0].body
    idx = [i for i, st in enumerate(body) if isinstance(st, ast.Try) and any(
        isinstance(s, ast.Expr) and call_name(s.value) == "self.job" for s in st.body)]
    need(len(idx) == 1, "Worker.run: `try: self.job()` not recognised")
    jt = body[idx[0]]
    need(any("Exception" in handler_classes(hd) for hd in jt.handlers) and not jt.finalbody,
         "Worker.run: the job's exceptions are not contained")
    for hd in jt.handlers:
        no_flow_escape(hd.body, "except branch of Worker.run")
    after = body[idx[0] + 1:]
    nd = [st for st in after if isinstance(st, ast.Expr) and call_name(st.value) == "self.pool.notify_done"]
    need(len(nd) == 1, "Worker.run: pool.notify_done is not called exactly once after the job")
    for st in after:
        need(isinstance(st, (ast.Expr, ast.Assign)), "Worker.run: unrecognised statement after the job")
    # ordering fact: the worker's job slot is cleared BEFORE the worker hands itself back to the pool (afterwards the
    # accept loop may already have stored the next connection's job there)
    clear = [i for i, st in enumerate(after) if isinstance(st, ast.Assign) and len(st.targets) == 1
             and dotted(st.targets[0]) == "self.job"]
    for i in clear:
        need(isinstance(after[i].value, ast.Constant) and after[i].value.value is None, "Worker.run: self.job assigned something else than None")
    done_at = after.index(nd[0])
    job_cleared_first = all(i < done_at for i in clear)
    # (Worker.run contains whatever escapes the job: a guarded block ends before the worker is handed back)
    cleanup = cleanup + ["AGuardEnd", "ASlot"]
    # refused handshake
    hc = find_func(mod, "handleConnection", "ClientConnectionJob")
    tries = [st for st in hc.body if isinstance(st, ast.Try)]
    need(len(tries) == 1, "handleConnection: try not recognised")
    t0 = tries[0]
    need(len(t0.body) == 2 and isinstance(t0.body[0], ast.If) and call_name(t0.body[0].test) == "self.daemon._handshake"
         and len(t0.body[0].body) == 1 and isinstance(t0.body[0].body[0], ast.Return)
         and isinstance(t0.body[0].body[0].value, ast.Constant) and t0.body[0].body[0].value.value is True
         and isinstance(t0.body[1], ast.Expr) and call_name(t0.body[1].value) == "self.csock.close",
         "handleConnection: refused handshake does not close the connection")
    for hd in t0.handlers:
        need(any(isinstance(s, ast.Expr) and call_name(s.value) == "self.csock.close" for s in hd.body),
             "handleConnection: failed handshake does not close the connection")
    need(not any(call_name(c) == "self.daemon._clientDisconnect" for c in ast.walk(hc) if isinstance(c, ast.Call)),
         "handleConnection calls the disconnect hook")
    reject = list(close_acts)
    # server-side connections are created without keep_open
    for c in ast.walk(mod):
        if isinstance(c, ast.Call) and (call_name(c) or "").endswith("SocketConnection"):
            need(len(c.args) == 1 and not c.keywords, "svr_threads creates a SocketConnection with extra arguments")
    return {"cleanup": cleanup, "reject": reject, "ends": ends, "handlers": handlers, "idle_timeout": True,
            "job_cleared_first": job_cleared_first, "sha": ast_sha(f) + ast_sha(w) + ast_sha(hc)}


def mux_facts(tree, h, close_acts, nhook):
    mod, _ = parse(tree, "Pyro5/svr_multiplex.py")
    ev = find_func(mod, "events", "SocketServer_Multiplex")
    fors = [st for st in ev.body if isinstance(st, ast.For)]
    need(len(fors) == 1 and isinstance(fors[0].target, ast.Name) and dotted(fors[0].iter) == ev.args.args[1].arg,
         "events: loop over the event sockets not recognised")
    s = fors[0].target.id
    branch = [st for st in fors[0].body if isinstance(st, ast.If) and isinstance(st.test, ast.Compare)
              and dotted(st.test.left) == s and len(st.test.ops) == 1 and isinstance(st.test.ops[0], ast.Is)
              and dotted(st.test.comparators[0]) == "self.sock"]
    need(len(branch) == 1, "events: `if s is self.sock` not recognised")
    els = branch[0].orelse
    need(len(els) == 2 and isinstance(els[0], ast.Assign) and len(els[0].targets) == 1 and isinstance(els[0].targets[0], ast.Name)
         and call_name(els[0].value) == "self.handleRequest" and len(els[0].value.args) == 1 and dotted(els[0].value.args[0]) == s,
         "events: `active = self.handleRequest(s)` not recognised")
    act = els[0].targets[0].id
    iff = els[1]
    need(isinstance(iff, ast.If) and isinstance(iff.test, ast.UnaryOp) and isinstance(iff.test.op, ast.Not)
         and dotted(iff.test.operand) == act and not iff.orelse, "events: `if not active:` not recognised")

    def rules(call):
        n = call_name(call)
        if n == "self.daemon._clientDisconnect":
            need(len(call.args) == 1 and dotted(call.args[0]) == s, "_clientDisconnect not called with the connection")
            return ["AHook"] * nhook
        if n == "self.selector.unregister":
            need(len(call.args) == 1 and dotted(call.args[0]) == s, "unregister not called with the connection")
            return ["ASlot"]
        if n == s + ".close":
            return list(close_acts)
        return None
    cleanup = seq_actions(iff.body, rules, "`if not active:` branch of SocketServer_Multiplex.events")
    for i, a in enumerate(cleanup):
        if a == "AHook":
            need("AGuardEnd" in cleanup[i + 1:], "events: an exception of the disconnect hook would leave the event loop")
    # registration happens for accepted connections only
    need(any(call_name(c) == "self.selector.register" for c in ast.walk(branch[0]) if isinstance(c, ast.Call)),
         "events: accepted connections are not registered")
    hr = find_func(mod, "handleRequest", "SocketServer_Multiplex")
    tries = [st for st in hr.body if isinstance(st, ast.Try)]
    need(len(tries) == 1 and not tries[0].finalbody and not tries[0].orelse, "multiplex handleRequest: try not recognised")
    t0 = tries[0]
    need(len(t0.body) == 2 and isinstance(t0.body[0], ast.Expr) and call_name(t0.body[0].value) == "self.daemon.handleRequest"
         and isinstance(t0.body[1], ast.Return) and isinstance(t0.body[1].value, ast.Constant) and t0.body[1].value.value is True,
         "multiplex handleRequest: body is not `daemon.handleRequest(conn); return True`")
    for st in hr.body:
        need(isinstance(st, ast.Try) or (isinstance(st, ast.Expr) and isinstance(st.value, ast.Constant)),
             "multiplex handleRequest: statements outside the try")
    handlers = []
    for hd in t0.handlers:
        last = hd.body[-1]
        need(isinstance(last, ast.Return) and isinstance(last.value, ast.Constant) and isinstance(last.value.value, bool),
             "multiplex handleRequest: an except branch does not end in `return True/False`")
        for st in hd.body[:-1]:
            for sub in ast.walk(st):
                need(not isinstance(sub, (ast.Return, ast.Raise)), "multiplex handleRequest: early return/raise in an except branch")
        handlers.append((handler_classes(hd), last.value.value is False))
    ends = {}
    for x in EXC:
        i = first_handler(h, t0.handlers, EXC_CLASS[x])
        need(i is not None, "multiplex handleRequest: %s is not caught (it would leave the event loop)" % EXC_CLASS[x])
        ends[x] = handlers[i][1]
    hc = find_func(mod, "_handleConnection", "SocketServer_Multiplex")
    ok = False
    for st in ast.walk(hc):
        if isinstance(st, ast.Try):
            for i, s0 in enumerate(st.body):
                if isinstance(s0, ast.If) and call_name(s0.test) == "self.daemon._handshake" and i + 1 < len(st.body):
                    nxt = st.body[i + 1]
                    cvar = dotted(s0.test.args[0]) if s0.test.args else None
                    if isinstance(nxt, ast.Expr) and cvar and call_name(nxt.value) == cvar + ".close" \
                            and len(s0.body) == 1 and isinstance(s0.body[0], ast.Return) and dotted(s0.body[0].value) == cvar:
                        ok = True
    need(ok, "_handleConnection: refused handshake does not close the connection")
    need(not any(call_name(c) == "self.daemon._clientDisconnect" for c in ast.walk(hc) if isinstance(c, ast.Call)),
         "_handleConnection calls the disconnect hook")
    for c in ast.walk(mod):
        if isinstance(c, ast.Call) and (call_name(c) or "").endswith("SocketConnection"):
            need(len(c.args) == 1 and not c.keywords, "svr_multiplex creates a SocketConnection with extra arguments")
    return {"cleanup": cleanup, "reject": list(close_acts), "ends": ends, "handlers": handlers, "idle_timeout": False,
            "sha": ast_sha(ev) + ast_sha(hr) + ast_sha(hc)}


def tracking_facts(tree):
    mod, _ = parse(tree, "Pyro5/callcontext.py")
    out = {}
    for fn, meth in (("track_resource", "add"), ("untrack_resource", "discard")):
        f = find_func(mod, fn, "_CallContext")
        arg = f.args.args[1].arg
        calls = [c for c in ast.walk(f) if isinstance(c, ast.Call) and (call_name(c) or "").startswith("self.client.tracked_resources.")]
        need(len(calls) == 1 and call_name(calls[0]) == "self.client.tracked_resources." + meth and len(calls[0].args) == 1
             and dotted(calls[0].args[0]) == arg, "callcontext.%s does not %s the resource on client.tracked_resources" % (fn, meth))
        out[fn] = ast_sha(f)
    su, _ = parse(tree, "Pyro5/socketutil.py")
    init = find_func(su, "__init__", "SocketConnection")
    tr = [n for n in ast.walk(init) if isinstance(n, ast.Assign) and dotted(n.targets[0]) == "self.tracked_resources"]
    need(len(tr) == 1 and isinstance(tr[0].value, ast.Call) and call_name(tr[0].value) in ("weakref.WeakSet", "set"),
         "SocketConnection.tracked_resources is not a (weak) set")
    return out


def shape_text(name, f, escapes_security, escapes_callback):
    ends = "fun x => match x with %s end" % " | ".join("%s => %s" % (x, cbool(f["ends"][x])) for x in EXC)
    return ("Definition %s : shape := {|\n  sh_cleanup := %s;\n  sh_reject := %s;\n  sh_ends := %s;\n"
            "  sh_escapes_security := %s;\n  sh_escapes_callback := %s;\n  sh_idle_timeout := %s;\n  sh_hook_raises := fun _ => false |}.\n") % (
        name, clist(f["cleanup"]), clist(f["reject"]), ends, cbool(escapes_security), cbool(escapes_callback),
        cbool(f["idle_timeout"]))


@generator("GenCleanup", "Pyro5/svr_threads.py", "Pyro5/svr_multiplex.py", "Pyro5/socketutil.py", "Pyro5/server.py",
           "Pyro5/callcontext.py", "Pyro5/errors.py")
def gen_cleanup(tree):
    h = error_hierarchy(tree)
    close_acts, sha_close = conn_close_actions(tree)
    nhook, sha_hook = hook_calls(tree)
    callback, classes, sha_hr, bound_first = reraise_facts(tree)
    anc_sec = ancestors(h, "SecurityError")
    escapes_security = any(c in anc_sec and c != "Exception" or c == "Exception" for c in classes)
    th = thread_facts(tree, h, close_acts, nhook)
    mx = mux_facts(tree, h, close_acts, nhook)
    tracking_facts(tree)
    out = HEADER % "Pyro5/svr_threads.py, svr_multiplex.py, socketutil.py, server.py, callcontext.py, errors.py"
    out += "From V Require Import Model.Cleanup.\n\n"
    out += "(* SocketConnection.close, statement by statement *)\n"
    out += "Definition conn_close_acts : list act := %s.\n" % clist(close_acts)
    out += "(* Daemon._clientDisconnect: unconditional calls of the user hook *)\n"
    out += "Definition hook_calls : nat := %d.\n" % nhook
    out += "(* thread server: finally-block of ClientConnectionJob.__call__, then Worker.run hands the worker back;\n"
    out += "   except branches of the request loop: %s *)\n" % "; ".join("%s -> %s" % ("|".join(c), "break" if b else "CONTINUES") for c, b in th["handlers"])
    out += shape_text("thread_shape", th, escapes_security, callback)
    out += "(* Worker.run: no write to self.job after pool.notify_done(self) (a job dispatched to the just-idled worker is not overwritten) *)\n"
    out += "Definition worker_job_cleared_before_handback : bool := %s.\n" % cbool(th["job_cleared_first"])
    out += "(* Daemon.handleRequest: current_context.client = conn precedes self._getInstance(obj, conn) *)\n"
    out += "Definition ctx_client_bound_before_construction : bool := %s.\n" % cbool(bound_first)
    out += "(* multiplex server: `if not active:` branch of events;\n"
    out += "   except branches of handleRequest: %s *)\n" % "; ".join("%s -> %s" % ("|".join(c), "False" if b else "TRUE") for c, b in mx["handlers"])
    out += shape_text("mux_shape", mx, escapes_security, callback)
    info = {"close": close_acts, "hook_calls": nhook, "thread": {k: th[k] for k in ("cleanup", "reject", "ends", "handlers")},
            "mux": {k: mx[k] for k in ("cleanup", "reject", "ends", "handlers")}, "reraise": classes, "callback": callback,
            "ast_sha": {"close": sha_close, "hook": sha_hook, "handleRequest": sha_hr, "thread": th["sha"], "mux": mx["sha"]}}
    return out, info
