"""GenCleanup (C13): the cleanup structure of both transport servers, read from the source with `ast`.

What is extracted (fail closed on any unrecognised shape):
  svr_threads.ClientConnectionJob.__call__   the `finally:` of the request loop -> ordered cleanup actions; every
                                             `except` of the loop and whether it leaves the loop (`break`)
  svr_threads.Worker.run                     the worker is handed back to the pool after the job, whatever it raised
  svr_threads.ClientConnectionJob.handleConnection / svr_multiplex._handleConnection
                                             a refused handshake closes the connection (no hook)
  svr_multiplex.SocketServer_Multiplex.events   the `if not active:` branch -> ordered cleanup actions
  svr_multiplex.SocketServer_Multiplex.handleRequest   every `except` and whether it returns False
  socketutil.SocketConnection.close          ordered primitive actions (socket, session instances, tracked resources)
  callcontext.track_resource/untrack_resource  add / discard on client.tracked_resources
  server.Daemon._clientDisconnect            calls the user hook exactly once, unconditionally
  server.Daemon.handleRequest                which method exceptions are re-raised (security, @callback)
"""
import ast
from tools.gen.gen import generator, parse, find_class, find_func, need, GenError, HEADER, clist, cbool, ast_sha

EXC = ["XClosed", "XProtocol", "XTimeout", "XSecurity", "XOther"]
EXC_CLASS = {"XClosed": "ConnectionClosedError", "XProtocol": "ProtocolError", "XTimeout": "TimeoutError",
             "XSecurity": "SecurityError", "XOther": "Exception"}


def dotted(node):
    if isinstance(node, ast.Name):
        return node.id
    if isinstance(node, ast.Attribute):
        b = dotted(node.value)
        return None if b is None else b + "." + node.attr
    return None


def call_name(node):
    return dotted(node.func) if isinstance(node, ast.Call) else None


def is_log_call(node):
    n = call_name(node)
    return n is not None and (n.startswith("log.") or n.startswith("logging."))


def error_hierarchy(tree):
    mod, _ = parse(tree, "Pyro5/errors.py")
    h = {}
    for n in mod.body:
        if isinstance(n, ast.ClassDef):
            bases = [dotted(b) for b in n.bases]
            need(all(b is not None for b in bases), "unrecognised base class of errors.%s" % n.name)
            h[n.name] = [b.split(".")[-1] for b in bases]
    for k in EXC_CLASS.values():
        need(k == "Exception" or k in h, "errors.%s not found" % k)
    return h


def ancestors(h, cls):
    out, todo = [], [cls]
    while todo:
        c = todo.pop(0)
        if c in out:
            continue
        out.append(c)
        todo.extend(h.get(c, []))
    if "Exception" not in out:
        out.append("Exception")   # everything the daemon catches derives from Exception
    return out


def handler_classes(hd):
    need(hd.type is not None, "bare except")
    elts = hd.type.elts if isinstance(hd.type, ast.Tuple) else [hd.type]
    names = []
    for e in elts:
        d = dotted(e)
        need(d is not None, "unrecognised exception class expression in except")
        names.append(d.split(".")[-1])
    return names


def first_handler(h, handlers, xclass):
    """index of the first handler catching the Pyro class `xclass` (or a generic non-Pyro Exception subclass)"""
    anc = ancestors(h, xclass) if xclass != "Exception" else ["Exception"]
    for i, hd in enumerate(handlers):
        if any(n in anc for n in handler_classes(hd)):
            return i
    return None


def no_flow_escape(stmts, what):
    for st in stmts:
        for sub in ast.walk(st):
            need(not isinstance(sub, (ast.Continue, ast.Return, ast.Raise, ast.Yield)), "unexpected control flow in " + what)


# ---------------------------------------------------------------- tolerant reader of a straight-line cleanup path
BENIGN_CALLS = ("len", "list", "tuple", "set", "str", "repr", "int", "bool", "time.time", "getattr", "id", "type", "sorted",
                "sys.exc_info", "errors.format_traceback", "traceback.format_exc", "traceback.format_exception")


def is_docstring(st):
    return isinstance(st, ast.Expr) and isinstance(st.value, ast.Constant) and isinstance(st.value.value, str)


def benign_expr(node):
    """an expression whose evaluation does nothing the cleanup depends on (no calls except a few pure builtins / logging)"""
    for sub in ast.walk(node):
        if isinstance(sub, ast.Call):
            n = call_name(sub)
            on_literal = isinstance(sub.func, ast.Attribute) and isinstance(sub.func.value, ast.Constant) and isinstance(sub.func.value.value, str)
            if not (is_log_call(sub) or (n in BENIGN_CALLS) or on_literal):     # "".join(tb), "..".format(x): message texts
                return False
        if isinstance(sub, (ast.Yield, ast.YieldFrom, ast.Await, ast.Lambda)):
            return False
    return True


def subst(name, env):
    """rename the leading identifier of a dotted name through env (parameter of an inlined helper -> caller's expression)"""
    if name is None:
        return None
    head, _, rest = name.partition(".")
    if head in env and env[head] is not None:
        return env[head] + ("." + rest if rest else "")
    return name


class Walker:
    """Reads a statement list as a sequence of cleanup actions.  Tolerated (property-irrelevant) shapes: logging calls and
    message texts, assignments to local names, `if` statements that only log / update locals, docstrings, calls of private
    helper methods of the same class (inlined, parameters renamed, a few levels deep), `with <lock>` / `with suppress(...)`,
    try/except whose handlers only log, try/finally, a trailing `return`.  Everything else fails closed.
    rules(name, call, env) -> list of actions | None;  assign_rule / for_rule / if_rule are optional site-specific readers.
    An AGuardEnd marker is emitted at the end of a `try ... except Exception` / suppress(Exception) block that encloses a hook
    call (a raising hook skips the rest of exactly that block)."""
    def __init__(self, cls_node, rules, what, assign_rule=None, for_rule=None, if_rule=None):
        self.cls, self.rules, self.what = cls_node, rules, what
        self.assign_rule, self.for_rule, self.if_rule = assign_rule, for_rule, if_rule
        self.inlined = []

    def method(self, name):
        if self.cls is None:
            return None
        m = [n for n in self.cls.body if isinstance(n, ast.FunctionDef) and n.name == name]
        return m[0] if len(m) == 1 else None

    def fail(self, msg):
        raise GenError("%s in %s" % (msg, self.what))

    def only_logging(self, stmts):
        for st in stmts:
            if isinstance(st, ast.Pass) or is_docstring(st):
                continue
            if isinstance(st, ast.Expr) and isinstance(st.value, ast.Call) and (is_log_call(st.value) or self.logging_helper(st.value)):
                continue
            if isinstance(st, ast.Try) and not st.finalbody and not st.orelse and self._log_only_try(st) \
                    and all(self.only_logging(hd.body) for hd in st.handlers):
                continue
            if isinstance(st, (ast.Assign, ast.AugAssign, ast.AnnAssign)):
                tg = st.targets if isinstance(st, ast.Assign) else [st.target]
                if all(isinstance(t, ast.Name) or (isinstance(t, ast.Tuple) and all(isinstance(e, ast.Name) for e in t.elts)) for t in tg) \
                        and (getattr(st, "value", None) is None or benign_expr(st.value)):
                    continue
            if isinstance(st, ast.If) and benign_expr(st.test) and self.only_logging(st.body) and self.only_logging(st.orelse):
                continue
            if isinstance(st, ast.Delete) and all(isinstance(t, ast.Name) for t in st.targets):
                continue
            if isinstance(st, ast.Try) and not st.finalbody and self.only_logging(st.body) and self.only_logging(st.orelse) \
                    and all(self.only_logging(hd.body) for hd in st.handlers):
                # e.g. try: peername = conn.sock.getpeername(); log.debug(...) except socket.error: log.debug(...)
                continue
            return False
        return True

    def walk(self, stmts, env, depth=3, top=True):
        acts = []
        n = len(stmts)
        for i, st in enumerate(stmts):
            if isinstance(st, ast.Pass) or is_docstring(st):
                continue
            if isinstance(st, ast.Return):
                if not (i == n - 1 and top and (st.value is None or benign_expr(st.value))):
                    self.fail("early / conditional return")
                break
            if self.only_logging([st]):
                # a try whose body only reads things for a log line may hide a getpeername() call: allow those reads
                continue
            if isinstance(st, ast.Try) and not st.finalbody and not st.orelse and all(self.only_logging(hd.body) for hd in st.handlers) \
                    and self._log_only_try(st):
                continue
            if isinstance(st, ast.Expr) and isinstance(st.value, ast.Call):
                acts.extend(self.call(st.value, env, depth))
            elif isinstance(st, (ast.Assign, ast.AugAssign, ast.AnnAssign)):
                r = self.assign_rule(st, env) if self.assign_rule else None
                if r is None:
                    self.fail("unrecognised assignment")
                acts.extend(r)
            elif isinstance(st, ast.With):
                guards = False
                for it in st.items:
                    nm = call_name(it.context_expr) or dotted(it.context_expr)
                    if nm is None or not (nm.endswith("suppress") or nm.endswith("lock")):
                        self.fail("unrecognised context manager")
                    if nm.endswith("suppress") and any(dotted(a_) in ("Exception", "BaseException") for a_ in it.context_expr.args):
                        guards = True       # (a narrower suppress() catches nothing a hook is modelled to raise: no guard)
                body = self.walk(st.body, env, depth, top=False)
                acts.extend(body)
                if guards and "AHook" in body:
                    acts.append("AGuardEnd")
            elif isinstance(st, ast.Try):
                if st.orelse:
                    self.fail("try with else")
                body = self.walk(st.body, env, depth, top=False)
                for hd in st.handlers:
                    if not self.only_logging(hd.body):
                        self.fail("an except branch does more than logging")
                catches = any(c_ in ("Exception", "BaseException") for hd in st.handlers for c_ in handler_classes(hd))
                acts.extend(body)
                if "AHook" in body:
                    if catches:
                        acts.append("AGuardEnd")      # a raising hook skips the rest of this try body, nothing else
                    elif st.finalbody:
                        # try/finally around an unguarded hook: what follows the finally would be skipped: not expressible
                        if "AGuardEnd" not in body[body.index("AHook"):]:
                            self.fail("hook call inside try/finally without an `except Exception`")
                if st.finalbody:
                    acts.extend(self.walk(st.finalbody, env, depth, top=False))
            elif isinstance(st, ast.If):
                r = self.if_rule(st, env, self, depth) if self.if_rule else None
                if r is None:
                    self.fail("conditional cleanup (if)")
                acts.extend(r)
            elif isinstance(st, ast.For):
                r = self.for_rule(st, env) if self.for_rule else None
                if r is None:
                    self.fail("unrecognised for loop")
                acts.extend(r)
            else:
                self.fail("unrecognised statement %s" % type(st).__name__)
        return acts

    def logging_helper(self, call, depth=2):
        """a private helper of the same class that does nothing but logging (e.g. _logDisconnected(conn))"""
        n = call_name(call)
        if not (n and n.startswith("self.") and n.count(".") == 1 and depth > 0):
            return False
        m = self.method(n.split(".")[1])
        if m is None:
            return False
        for sub in ast.walk(m):
            if isinstance(sub, (ast.Return, ast.Raise)) and getattr(sub, "value", None) is not None and isinstance(sub, ast.Return):
                return False
            if isinstance(sub, ast.Raise):
                return False
        return self.only_logging([st for st in m.body if not (isinstance(st, ast.Return) and st.value is None)])

    def _log_only_try(self, st):
        # try: <reads for a log line>; log.x(...)  except ...: log.x(...)
        for s_ in st.body:
            if isinstance(s_, ast.Expr) and isinstance(s_.value, ast.Call) and is_log_call(s_.value):
                continue
            if isinstance(s_, ast.Assign) and all(isinstance(t, ast.Name) for t in s_.targets) and all(
                    (call_name(c_) or "").endswith(("getpeername", "getsockname")) or is_log_call(c_) or call_name(c_) in BENIGN_CALLS
                    for c_ in ast.walk(s_.value) if isinstance(c_, ast.Call)):
                continue
            return False
        return True

    def call(self, call, env, depth):
        if is_log_call(call):
            return []
        name = subst(call_name(call), env)
        r = self.rules(name, call, env)
        if r is not None:
            return r
        if name and name.startswith("self.") and name.count(".") == 1 and depth > 0:
            m = self.method(name.split(".")[1])
            if m is not None and not call.keywords:
                params = [a_.arg for a_ in m.args.args]
                static = any(dotted(d) == "staticmethod" for d in m.decorator_list)
                if not static:
                    params = params[1:]
                if len(params) != len(call.args):
                    self.fail("helper %s called with an unexpected number of arguments" % name)
                new_env = {pn: subst(dotted(arg), env) for pn, arg in zip(params, call.args)}
                self.inlined.append(m.name)
                return self.walk(m.body, new_env, depth - 1, top=True)
        self.fail("unrecognised call %s" % name)


def strip_guards(acts):
    return [a_ for a_ in acts if a_ != "AGuardEnd"]


def conn_close_actions(tree):
    mod, _ = parse(tree, "Pyro5/socketutil.py")
    cls = find_class(mod, "SocketConnection")
    f = find_func(mod, "close", "SocketConnection")
    body = [st for st in f.body if not is_docstring(st)]
    # `if self.keep_open: return` + rest   or   `if not self.keep_open: <all of it>`
    if body and isinstance(body[0], ast.If) and dotted(body[0].test) == "self.keep_open" and len(body[0].body) == 1 \
            and isinstance(body[0].body[0], ast.Return) and not body[0].orelse:
        body = body[1:]
    elif len(body) == 1 and isinstance(body[0], ast.If) and isinstance(body[0].test, ast.UnaryOp) and isinstance(body[0].test.op, ast.Not) \
            and dotted(body[0].test.operand) == "self.keep_open" and not body[0].orelse:
        body = body[0].body
    else:
        raise GenError("SocketConnection.close: keep_open guard not recognised")

    def rules(name, call, env):
        if name == "self.sock.close":
            return ["ASock"]
        if name == "self.sock.shutdown":
            return []
        if name == "self.tracked_resources.clear":
            return ["AClearRes"]
        if name == "self.pyroInstances.clear":
            return ["ADropInst"]
        if name and name.count(".") == 1 and name.split(".")[0] in local_tables and name.endswith(".clear"):
            return []          # emptying the old instance table that was swapped out
        return None
    local_tables = set()

    def assign_rule(st, env):
        if not isinstance(st, ast.Assign) or len(st.targets) != 1:
            return None
        tg = st.targets[0]
        if isinstance(tg, ast.Tuple) and isinstance(st.value, ast.Tuple) and len(tg.elts) == len(st.value.elts):
            # released, self.pyroInstances = self.pyroInstances, {}
            acts = []
            for t_, v_ in zip(tg.elts, st.value.elts):
                if dotted(t_) == "self.pyroInstances":
                    need(isinstance(v_, ast.Dict) and not v_.keys, "SocketConnection.close: pyroInstances is not reset to an empty dict")
                    acts.append("ADropInst")
                elif isinstance(t_, ast.Name) and dotted(v_) == "self.pyroInstances":
                    local_tables.add(t_.id)
                else:
                    return None
            return acts
        t = dotted(tg)
        if t == "self.pyroInstances":
            need(isinstance(st.value, ast.Dict) and not st.value.keys or
                 (isinstance(st.value, ast.Call) and call_name(st.value) == "dict" and not st.value.args and not st.value.keywords),
                 "SocketConnection.close: pyroInstances is not reset to an empty dict")
            return ["ADropInst"]
        if t == "self.tracked_resources":
            need(isinstance(st.value, ast.Call) and call_name(st.value) in ("weakref.WeakSet", "set") and not st.value.args,
                 "SocketConnection.close: tracked_resources reassigned to something unrecognised")
            return ["AClearRes"]
        return None

    def is_tracked(node):
        return dotted(node) == "self.tracked_resources" or (
            isinstance(node, ast.Call) and call_name(node) in ("list", "tuple", "set", "len") and len(node.args) == 1
            and dotted(node.args[0]) == "self.tracked_resources")

    def for_rule(st, env):
        if not (is_tracked(st.iter) and isinstance(st.target, ast.Name) and not st.orelse):
            return None
        var = st.target.id
        inner = [x for x in st.body if not is_docstring(x)]
        # every single close() must be guarded INSIDE the loop: a raising close() must not keep the others from being closed
        guarded = False
        if len(inner) == 1 and isinstance(inner[0], ast.With) and all(
                (call_name(it.context_expr) or "").endswith("suppress") and any(dotted(a_) in ("Exception", "BaseException") for a_ in it.context_expr.args)
                for it in inner[0].items):
            inner, guarded = inner[0].body, True
        elif len(inner) == 1 and isinstance(inner[0], ast.Try) and not inner[0].orelse and not inner[0].finalbody and any(
                c_ in ("Exception", "BaseException") for hd in inner[0].handlers for c_ in handler_classes(hd)):
            w0 = Walker(None, lambda *a_: None, "resource loop")
            need(all(w0.only_logging(hd.body) for hd in inner[0].handlers), "SocketConnection.close: resource loop handler does more than logging")
            inner, guarded = inner[0].body, True
        need(guarded, "SocketConnection.close: a close() that raises would end the resource loop (not guarded inside the loop)")
        need(len(inner) == 1 and isinstance(inner[0], ast.Expr) and call_name(inner[0].value) == var + ".close"
             and not inner[0].value.args, "SocketConnection.close: resource loop body is not a single `<resource>.close()`")
        return ["ACloseRes"]

    def if_rule(st, env, walker, depth):
        # `if self.tracked_resources:` around the loop and the clear: on an empty set both are no-ops anyway
        t = st.test
        if isinstance(t, ast.Compare) and len(t.ops) == 1 and isinstance(t.ops[0], (ast.Gt, ast.NotEq)) and is_tracked(t.left) \
                and isinstance(t.comparators[0], ast.Constant) and t.comparators[0].value == 0:
            t = t.left
        if is_tracked(t) and walker.only_logging(st.orelse):
            acts = walker.walk(st.body, env, depth, top=False)
            need(all(a_ in ("ACloseRes", "AClearRes", "AGuardEnd") for a_ in acts),
                 "SocketConnection.close: socket / instances released only when resources are tracked")
            return acts
        return None
    w = Walker(cls, rules, "SocketConnection.close", assign_rule, for_rule, if_rule)
    acts = strip_guards(w.walk(body, {}, 3))
    return acts, ast_sha(f)


def handler_outcomes(tr, following, what, walker):
    """for a `try: <call>; [return True] except ...: <log> [return X]` (+ else / following `return X`): per handler, does the
    function return something falsy (True = falsy).  Also checks that the normal path returns True."""
    def ret_value(stmts):
        # value returned by this statement list when run to its end: (found, truthy)
        for i, st in enumerate(stmts):
            if isinstance(st, ast.Return):
                need(i == len(stmts) - 1, what + ": statements after a return")
                if st.value is None:
                    return True, False
                need(isinstance(st.value, ast.Constant), what + ": returns something that is not a constant")
                return True, bool(st.value.value)
            need(walker.only_logging([st]) or (isinstance(st, ast.Try) and walker._log_only_try(st) and all(walker.only_logging(hd.body) for hd in st.handlers)),
                 what + ": an except branch does more than logging")
        return False, False
    fol_found, fol_truthy = ret_value(following)
    # normal path
    body_tail = [st for st in tr.body[1:]]
    found, truthy = ret_value(body_tail)
    if not found:
        found, truthy = ret_value(tr.orelse)
    if not found:
        found, truthy = fol_found, fol_truthy
    need(found and truthy, what + ": the normal path does not return True")
    out = []
    for hd in tr.handlers:
        found, truthy = ret_value(hd.body)
        if not found:
            found, truthy = (fol_found, fol_truthy) if fol_found else (True, False)    # falls off the end: returns None
        out.append((handler_classes(hd), not truthy))
    return out


def hook_calls(tree):
    """Daemon._clientDisconnect: number of unconditional top-level calls of self.clientDisconnect(conn)"""
    mod, _ = parse(tree, "Pyro5/server.py")
    f = find_func(mod, "_clientDisconnect", "Daemon")
    need(len(f.args.args) == 2, "_clientDisconnect signature")
    conn = f.args.args[1].arg
    total = [c for c in ast.walk(f) if isinstance(c, ast.Call) and call_name(c) == "self.clientDisconnect"]
    top = [st for st in f.body if isinstance(st, ast.Expr) and isinstance(st.value, ast.Call)
           and call_name(st.value) == "self.clientDisconnect"]
    need(len(total) == len(top), "_clientDisconnect calls the user hook conditionally")
    for st in top:
        need(len(st.value.args) == 1 and dotted(st.value.args[0]) == conn, "user hook is not called with the connection")
    for st in f.body:
        for sub in ast.walk(st):
            need(not isinstance(sub, (ast.Return, ast.Raise)), "_clientDisconnect can leave before the user hook")
    return len(top), ast_sha(f)


def reraise_facts(tree):
    mod, _ = parse(tree, "Pyro5/server.py")
    f = find_func(mod, "handleRequest", "Daemon")
    tries = [st for st in f.body if isinstance(st, ast.Try)]
    need(len(tries) == 2, "Daemon.handleRequest: expected two top-level try statements")
    first, second = tries
    # receiving: CommunicationError is re-raised
    need(len(first.handlers) == 1 and "CommunicationError" in handler_classes(first.handlers[0])
         and any(isinstance(s, ast.Raise) for s in first.handlers[0].body),
         "Daemon.handleRequest: a failed receive is not re-raised")
    need(any(call_name(c) == "protocol.recv_stub" for st in first.body for c in ast.walk(st) if isinstance(c, ast.Call)),
         "Daemon.handleRequest: first try does not receive the message")
    need(len(second.handlers) == 1 and handler_classes(second.handlers[0]) == ["Exception"],
         "Daemon.handleRequest: catch-all handler not recognised")
    hd = second.handlers[0]
    # the conditional bare `raise` of the handler (possibly wrapped in try/finally)
    cands = [n for n in ast.walk(hd) if isinstance(n, ast.If) and len(n.body) == 1 and isinstance(n.body[0], ast.Raise)
             and n.body[0].exc is None and not n.orelse and any(
                 isinstance(c, ast.Call) and call_name(c) == "isinstance" for c in ast.walk(n.test))]
    need(len(cands) == 1, "Daemon.handleRequest: final conditional re-raise not recognised")
    last = cands[0]
    test = last.test
    disj = test.values if isinstance(test, ast.BoolOp) and isinstance(test.op, ast.Or) else [test]
    callback, classes = False, []
    for d in disj:
        if isinstance(d, ast.Name) and d.id == "isCallback":
            callback = True
        elif isinstance(d, ast.Call) and call_name(d) == "isinstance" and len(d.args) == 2 and dotted(d.args[0]) == hd.name:
            elts = d.args[1].elts if isinstance(d.args[1], ast.Tuple) else [d.args[1]]
            for e in elts:
                n = dotted(e)
                need(n is not None, "unrecognised class in re-raise test")
                classes.append(n.split(".")[-1])
        else:
            raise GenError("Daemon.handleRequest: unrecognised disjunct in the re-raise test")
    # isCallback must be what getattr(method, "_pyroCallback", False) says
    if callback:
        need(any(isinstance(n, ast.Assign) and dotted(n.targets[0]) == "isCallback" and isinstance(n.value, ast.Call)
                 and call_name(n.value) == "getattr" for n in ast.walk(second)), "isCallback is not read from the method")
    # ordering fact: the call context is bound to THIS connection before the target instance is looked up / constructed
    # (a constructor that tracks a resource must track it on the connection whose request is being served)
    dcls = find_class(mod, "Daemon")
    connp = f.args.args[1].arg

    def binds_client(stmts, connname):
        """does this statement list assign <call context>.client = <connname> unconditionally (top level, or inside a with)"""
        aliases = {"current_context"}
        for st in stmts:
            if isinstance(st, ast.Assign) and len(st.targets) == 1:
                if isinstance(st.targets[0], ast.Name) and dotted(st.value) in aliases:
                    aliases.add(st.targets[0].id)
                t = dotted(st.targets[0])
                if t and t.endswith(".client") and t[:-7] in aliases and dotted(st.value) == connname:
                    return True
        return False
    bind_stmts = []
    for st in second.body:
        if binds_client([st], connp):
            bind_stmts.append(st)
        elif isinstance(st, ast.Expr) and isinstance(st.value, ast.Call) and (call_name(st.value) or "").startswith("self.") \
                and call_name(st.value).count(".") == 1:
            hm = [n for n in dcls.body if isinstance(n, ast.FunctionDef) and n.name == call_name(st.value).split(".")[1]]
            if len(hm) == 1:
                params = [a_.arg for a_ in hm[0].args.args]
                if not any(dotted(d_) == "staticmethod" for d_ in hm[0].decorator_list):
                    params = params[1:]
                for pn, arg in zip(params, st.value.args):
                    if dotted(arg) == connp and binds_client(hm[0].body, pn):
                        bind_stmts.append(st)
    need(len(bind_stmts) == 1, "Daemon.handleRequest: current_context.client is not bound exactly once, unconditionally, to the connection")
    ctor_calls = [c for c in ast.walk(second) if isinstance(c, ast.Call) and call_name(c) == "self._getInstance"]
    need(len(ctor_calls) == 1, "Daemon.handleRequest: self._getInstance not called exactly once")
    bound_first = bind_stmts[0].lineno < ctor_calls[0].lineno
    return callback, classes, ast_sha(f), bound_first


def thread_facts(tree, h, close_acts, nhook):
    mod, _ = parse(tree, "Pyro5/svr_threads.py")
    cls = find_class(mod, "ClientConnectionJob")
    f = find_func(mod, "__call__", "ClientConnectionJob")
    W = "ClientConnectionJob.__call__"
    lw = Walker(cls, lambda *a_: None, W)      # used for its "only logging / locals" test
    body = [st for st in f.body if not is_docstring(st)]
    # `if self.handleConnection(): <serve>`   or   `if not self.handleConnection(): return` + <serve>
    if len(body) == 1 and isinstance(body[0], ast.If) and call_name(body[0].test) == "self.handleConnection" and not body[0].orelse:
        inner = body[0].body
    elif body and isinstance(body[0], ast.If) and isinstance(body[0].test, ast.UnaryOp) and isinstance(body[0].test.op, ast.Not) \
            and call_name(body[0].test.operand) == "self.handleConnection" and not body[0].orelse \
            and body[0].body and isinstance(body[0].body[-1], ast.Return) and lw.only_logging(body[0].body[:-1]) \
            and (body[0].body[-1].value is None or (isinstance(body[0].body[-1].value, ast.Constant) and not body[0].body[-1].value.value)):
        inner = body[1:]
    else:
        raise GenError(W + ": the handshake guard (`if self.handleConnection():`) is not recognised")
    tries = [st for st in inner if isinstance(st, ast.Try)]
    need(len(tries) == 1 and lw.only_logging([st for st in inner if st is not tries[0]]),
         W + ": try/finally around the request loop not recognised")
    tr = tries[0]
    need(not tr.handlers and not tr.orelse and tr.finalbody, W + ": try/finally around the request loop not recognised")
    loops = [st for st in tr.body if isinstance(st, ast.While)]
    need(len(loops) == 1 and lw.only_logging([st for st in tr.body if st is not loops[0]]) and not loops[0].orelse,
         W + ": request loop not recognised")
    loop = loops[0]

    def is_handle_request(st):
        return isinstance(st, ast.Expr) and call_name(st.value) == "self.daemon.handleRequest" and len(st.value.args) == 1 \
            and dotted(st.value.args[0]) == "self.csock"
    handlers = []
    if isinstance(loop.test, ast.Constant) and loop.test.value is True:
        # while True: try: daemon.handleRequest(csock) except X: ...; break
        lt = [st for st in loop.body if isinstance(st, ast.Try)]
        need(len(lt) == 1 and lw.only_logging([st for st in loop.body if st is not lt[0]]) and not lt[0].finalbody and not lt[0].orelse,
             W + ": loop body is not a single try")
        ltry = lt[0]
        need(ltry.body and is_handle_request(ltry.body[0]) and lw.only_logging(ltry.body[1:]),
             W + ": the loop does not just call daemon.handleRequest(self.csock)")
        for hd in ltry.handlers:
            brk = isinstance(hd.body[-1], ast.Break)
            rest = hd.body[:-1] if brk else hd.body
            need(lw.only_logging(rest) or all(lw.only_logging([x]) or (isinstance(x, ast.Try) and lw._log_only_try(x)) for x in rest),
                 W + ": an except branch of the request loop does more than logging")
            handlers.append((handler_classes(hd), brk))
    else:
        # while self._helper(): pass      with the try/except in the helper, which returns True to go on
        need(isinstance(loop.test, ast.Call) and (call_name(loop.test) or "").startswith("self.") and not loop.test.args
             and lw.only_logging(loop.body), W + ": request loop not recognised")
        hm = lw.method(call_name(loop.test).split(".")[1])
        need(hm is not None, W + ": loop helper not found")
        hb = [st for st in hm.body if not is_docstring(st)]
        ti = [i for i, st in enumerate(hb) if isinstance(st, ast.Try)]
        need(len(ti) == 1 and lw.only_logging(hb[:ti[0]]) and not hb[ti[0]].finalbody, W + ": loop helper not recognised")
        ltry = hb[ti[0]]
        need(ltry.body and is_handle_request(ltry.body[0]), W + ": the loop helper does not call daemon.handleRequest(self.csock)")
        handlers = handler_outcomes(ltry, hb[ti[0] + 1:], W + " (loop helper)", lw)
    ends = {}
    for x in EXC:
        i = first_handler(h, ltry.handlers, EXC_CLASS[x])
        # uncaught: the exception leaves the loop through the finally (and is contained by Worker.run)
        ends[x] = True if i is None else handlers[i][1]

    def rules(name, call, env):
        if name == "self.daemon._clientDisconnect":
            need(len(call.args) == 1 and subst(dotted(call.args[0]), env) == "self.csock", "_clientDisconnect not called with self.csock")
            return ["AHook"] * nhook
        if name == "self.csock.close":
            return list(close_acts)
        return None
    cleanup = Walker(cls, rules, "finally of ClientConnectionJob.__call__").walk(tr.finalbody, {}, 3, top=False)
    # the worker slot: Worker.run calls pool.notify_done after the job, whatever the job raised
    w = find_func(mod, "run", "Worker")
    wcls = find_class(mod, "Worker")
    ww = Walker(wcls, lambda *a_: None, "Worker.run")
    loops = [st for st in w.body if isinstance(st, ast.While)]
    need(len(loops) == 1, "Worker.run: loop not recognised")
    body = []
    for st in loops[0].body:      # follow `self._helper()` one level
        hm = ww.method(call_name(st.value).split(".")[1]) if isinstance(st, ast.Expr) and isinstance(st.value, ast.Call) \
            and (call_name(st.value) or "").startswith("self.") and call_name(st.value).count(".") == 1 and not st.value.args else None
        body.extend([x for x in hm.body if not is_docstring(x)] if hm is not None else [st])
    job_names = {"self.job"}
    for st in body:               # current_job = self.job
        if isinstance(st, ast.Assign) and len(st.targets) == 1 and isinstance(st.targets[0], ast.Name) and dotted(st.value) == "self.job":
            job_names.add(st.targets[0].id)
    idx = [i for i, st in enumerate(body) if isinstance(st, ast.Try) and any(
        isinstance(s, ast.Expr) and call_name(s.value) in job_names for s in st.body)]
    need(len(idx) == 1, "Worker.run: `try: self.job()` not recognised")
    jt = body[idx[0]]
    need(any("Exception" in handler_classes(hd) for hd in jt.handlers) and not jt.finalbody,
         "Worker.run: the job's exceptions are not contained")
    for hd in jt.handlers:
        no_flow_escape(hd.body, "except branch of Worker.run")
    after = body[idx[0] + 1:]
    nd = [st for st in after if isinstance(st, ast.Expr) and call_name(st.value) == "self.pool.notify_done"]
    need(len(nd) == 1, "Worker.run: pool.notify_done is not called exactly once after the job")
    for st in after:
        need(isinstance(st, (ast.Expr, ast.Assign)), "Worker.run: unrecognised statement after the job")
    # ordering fact: the worker's job slot is cleared BEFORE the worker hands itself back to the pool (afterwards the
    # accept loop may already have stored the next connection's job there)
    clear = [i for i, st in enumerate(after) if isinstance(st, ast.Assign) and len(st.targets) == 1
             and dotted(st.targets[0]) == "self.job"]
    for i in clear:
        need(isinstance(after[i].value, ast.Constant) and after[i].value.value is None, "Worker.run: self.job assigned something else than None")
    done_at = after.index(nd[0])
    job_cleared_first = all(i < done_at for i in clear)
    # (Worker.run contains whatever escapes the job: a guarded block ends before the worker is handed back)
    cleanup = cleanup + ["AGuardEnd", "ASlot"]
    # refused handshake
    hc = find_func(mod, "handleConnection", "ClientConnectionJob")
    tries = [st for st in hc.body if isinstance(st, ast.Try)]
    need(len(tries) == 1, "handleConnection: try not recognised")
    t0 = tries[0]
    tb0 = [x for x in t0.body if not lw.only_logging([x])]      # logging lines between the statements do not matter
    need(len(tb0) == 2 and isinstance(tb0[0], ast.If) and call_name(tb0[0].test) == "self.daemon._handshake"
         and len(tb0[0].body) == 1 and isinstance(tb0[0].body[0], ast.Return)
         and isinstance(tb0[0].body[0].value, ast.Constant) and tb0[0].body[0].value.value is True
         and isinstance(tb0[1], ast.Expr) and call_name(tb0[1].value) == "self.csock.close",
         "handleConnection: refused handshake does not close the connection")
    for hd in t0.handlers:
        need(any(isinstance(s, ast.Expr) and call_name(s.value) == "self.csock.close" for s in hd.body),
             "handleConnection: failed handshake does not close the connection")
    need(not any(call_name(c) == "self.daemon._clientDisconnect" for c in ast.walk(hc) if isinstance(c, ast.Call)),
         "handleConnection calls the disconnect hook")
    reject = list(close_acts)
    # server-side connections are created without keep_open
    for c in ast.walk(mod):
        if isinstance(c, ast.Call) and (call_name(c) or "").endswith("SocketConnection"):
            need(len(c.args) == 1 and not c.keywords, "svr_threads creates a SocketConnection with extra arguments")
    return {"cleanup": cleanup, "reject": reject, "ends": ends, "handlers": handlers, "idle_timeout": True,
            "job_cleared_first": job_cleared_first, "sha": ast_sha(f) + ast_sha(w) + ast_sha(hc)}


def mux_facts(tree, h, close_acts, nhook):
    mod, _ = parse(tree, "Pyro5/svr_multiplex.py")
    cls = find_class(mod, "SocketServer_Multiplex")
    ev = find_func(mod, "events", "SocketServer_Multiplex")
    lw = Walker(cls, lambda *a_: None, "SocketServer_Multiplex.events")
    fors = [st for st in ev.body if isinstance(st, ast.For)]
    need(len(fors) == 1 and isinstance(fors[0].target, ast.Name) and dotted(fors[0].iter) == ev.args.args[1].arg,
         "events: loop over the event sockets not recognised")
    s = fors[0].target.id
    branch = [st for st in fors[0].body if isinstance(st, ast.If) and isinstance(st.test, ast.Compare)
              and dotted(st.test.left) == s and len(st.test.ops) == 1 and isinstance(st.test.ops[0], ast.Is)
              and dotted(st.test.comparators[0]) == "self.sock"]
    need(len(branch) == 1, "events: `if s is self.sock` not recognised")
    # the client-socket part: the else branch, or what follows when the server-socket branch ends with `continue`
    if branch[0].orelse:
        part = branch[0].orelse
    else:
        need(isinstance(branch[0].body[-1], ast.Continue), "events: the server-socket branch falls through into the client-socket part")
        part = fors[0].body[fors[0].body.index(branch[0]) + 1:]

    def is_hr(node):
        return isinstance(node, ast.Call) and call_name(node) == "self.handleRequest" and len(node.args) == 1 and dotted(node.args[0]) == s
    iff = None
    rest = []
    for i, st in enumerate(part):
        if isinstance(st, ast.Assign) and len(st.targets) == 1 and isinstance(st.targets[0], ast.Name) and is_hr(st.value) \
                and i + 1 < len(part) and isinstance(part[i + 1], ast.If) and isinstance(part[i + 1].test, ast.UnaryOp) \
                and isinstance(part[i + 1].test.op, ast.Not) and dotted(part[i + 1].test.operand) == st.targets[0].id:
            iff = part[i + 1]
            rest = part[:i] + part[i + 2:]
            break
        if isinstance(st, ast.If) and isinstance(st.test, ast.UnaryOp) and isinstance(st.test.op, ast.Not) and is_hr(st.test.operand):
            iff = st
            rest = part[:i] + part[i + 1:]
            break
    cleanup_body = None
    if iff is None:
        # `if self.handleRequest(s): continue` followed by the cleanup
        for i, st in enumerate(part):
            if isinstance(st, ast.If) and is_hr(st.test) and not st.orelse and st.body and isinstance(st.body[-1], ast.Continue) \
                    and lw.only_logging(st.body[:-1]) and lw.only_logging(part[:i]):
                cleanup_body = part[i + 1:]
                break
    else:
        need(not iff.orelse and lw.only_logging(rest), "events: statements around `if not active:` not recognised")
        cleanup_body = iff.body
    need(cleanup_body is not None,
         "events: `if not self.handleRequest(s):` (or `active = ...; if not active:`, or `if ...: continue`) not recognised")

    def rules(name, call, env):
        arg0 = subst(dotted(call.args[0]), env) if call.args else None
        if name == "self.daemon._clientDisconnect":
            need(len(call.args) == 1 and arg0 == s, "_clientDisconnect not called with the connection")
            return ["AHook"] * nhook
        if name == "self.selector.unregister":
            need(len(call.args) == 1 and arg0 == s, "unregister not called with the connection")
            return ["ASlot"]
        if name == s + ".close":
            return list(close_acts)
        return None
    def if_rule(st, env, walker, depth):
        # `if <conn> in self.selector.get_map(): self.selector.unregister(<conn>)`: a registration that does not exist any
        # more needs no release
        t = st.test
        if isinstance(t, ast.Compare) and len(t.ops) == 1 and isinstance(t.ops[0], ast.In) and subst(dotted(t.left), env) == s \
                and call_name(t.comparators[0]) == "self.selector.get_map" and walker.only_logging(st.orelse):
            acts = walker.walk(st.body, env, depth, top=False)
            if acts == ["ASlot"]:
                return acts
        return None
    cleanup = Walker(cls, rules, "`if not active:` branch of SocketServer_Multiplex.events", if_rule=if_rule).walk(cleanup_body, {}, 3, top=False)
    for i, a in enumerate(cleanup):
        if a == "AHook":
            need("AGuardEnd" in cleanup[i + 1:], "events: an exception of the disconnect hook would leave the event loop")
    # registration happens for accepted connections only
    need(any(call_name(c) == "self.selector.register" for c in ast.walk(cls) if isinstance(c, ast.Call)),
         "events: accepted connections are not registered")
    hr = find_func(mod, "handleRequest", "SocketServer_Multiplex")
    hb = [st for st in hr.body if not is_docstring(st)]
    ti = [i for i, st in enumerate(hb) if isinstance(st, ast.Try)]
    need(len(ti) == 1 and lw.only_logging(hb[:ti[0]]) and not hb[ti[0]].finalbody, "multiplex handleRequest: try not recognised")
    t0 = hb[ti[0]]
    need(t0.body and isinstance(t0.body[0], ast.Expr) and call_name(t0.body[0].value) == "self.daemon.handleRequest",
         "multiplex handleRequest: the try does not start with daemon.handleRequest(conn)")
    handlers = handler_outcomes(t0, hb[ti[0] + 1:], "multiplex handleRequest", lw)
    ends = {}
    for x in EXC:
        i = first_handler(h, t0.handlers, EXC_CLASS[x])
        need(i is not None, "multiplex handleRequest: %s is not caught (it would leave the event loop)" % EXC_CLASS[x])
        ends[x] = handlers[i][1]
    hc = find_func(mod, "_handleConnection", "SocketServer_Multiplex")
    ok = False
    for st in ast.walk(hc):
        if isinstance(st, ast.Try):
            for i, s0 in enumerate(st.body):
                if isinstance(s0, ast.If) and call_name(s0.test) == "self.daemon._handshake":
                    # if handshake(c): return c   <logging>   c.close()
                    cvar = dotted(s0.test.args[0]) if s0.test.args else None
                    tail = [x for x in st.body[i + 1:] if not lw.only_logging([x])]
                    if tail and isinstance(tail[0], ast.Expr) and cvar and call_name(tail[0].value) == cvar + ".close" \
                            and len(s0.body) == 1 and isinstance(s0.body[0], ast.Return) and dotted(s0.body[0].value) == cvar:
                        ok = True
                if isinstance(s0, ast.If) and isinstance(s0.test, ast.UnaryOp) and isinstance(s0.test.op, ast.Not) \
                        and call_name(s0.test.operand) == "self.daemon._handshake" and not s0.orelse:
                    # if not handshake(c): c.close(); return None
                    cvar = dotted(s0.test.operand.args[0]) if s0.test.operand.args else None
                    inner_ = [x for x in s0.body if not lw.only_logging([x])]
                    if cvar and len(inner_) == 2 and isinstance(inner_[0], ast.Expr) and call_name(inner_[0].value) == cvar + ".close" \
                            and isinstance(inner_[1], ast.Return) and (inner_[1].value is None or (isinstance(inner_[1].value, ast.Constant) and not inner_[1].value.value)):
                        ok = True
    need(ok, "_handleConnection: refused handshake does not close the connection")
    need(not any(call_name(c) == "self.daemon._clientDisconnect" for c in ast.walk(hc) if isinstance(c, ast.Call)),
         "_handleConnection calls the disconnect hook")
    for c in ast.walk(mod):
        if isinstance(c, ast.Call) and (call_name(c) or "").endswith("SocketConnection"):
            need(len(c.args) == 1 and not c.keywords, "svr_multiplex creates a SocketConnection with extra arguments")
    return {"cleanup": cleanup, "reject": list(close_acts), "ends": ends, "handlers": handlers, "idle_timeout": False,
            "sha": ast_sha(ev) + ast_sha(hr) + ast_sha(hc)}


def tracking_facts(tree):
    mod, _ = parse(tree, "Pyro5/callcontext.py")
    out = {}
    for fn, meth in (("track_resource", "add"), ("untrack_resource", "discard")):
        f = find_func(mod, fn, "_CallContext")
        arg = f.args.args[1].arg
        calls = [c for c in ast.walk(f) if isinstance(c, ast.Call) and (call_name(c) or "").startswith("self.client.tracked_resources.")]
        need(len(calls) == 1 and call_name(calls[0]) == "self.client.tracked_resources." + meth and len(calls[0].args) == 1
             and dotted(calls[0].args[0]) == arg, "callcontext.%s does not %s the resource on client.tracked_resources" % (fn, meth))
        out[fn] = ast_sha(f)
    su, _ = parse(tree, "Pyro5/socketutil.py")
    init = find_func(su, "__init__", "SocketConnection")
    tr = [n for n in ast.walk(init) if isinstance(n, ast.Assign) and dotted(n.targets[0]) == "self.tracked_resources"]
    need(len(tr) == 1 and isinstance(tr[0].value, ast.Call) and call_name(tr[0].value) in ("weakref.WeakSet", "set"),
         "SocketConnection.tracked_resources is not a (weak) set")
    return out


def shape_text(name, f, escapes_security, escapes_callback):
    ends = "fun x => match x with %s end" % " | ".join("%s => %s" % (x, cbool(f["ends"][x])) for x in EXC)
    return ("Definition %s : shape := {|\n  sh_cleanup := %s;\n  sh_reject := %s;\n  sh_ends := %s;\n"
            "  sh_escapes_security := %s;\n  sh_escapes_callback := %s;\n  sh_idle_timeout := %s;\n  sh_hook_raises := fun _ => false |}.\n") % (
        name, clist(f["cleanup"]), clist(f["reject"]), ends, cbool(escapes_security), cbool(escapes_callback),
        cbool(f["idle_timeout"]))


@generator("GenCleanup", "Pyro5/svr_threads.py", "Pyro5/svr_multiplex.py", "Pyro5/socketutil.py", "Pyro5/server.py",
           "Pyro5/callcontext.py", "Pyro5/errors.py")
def gen_cleanup(tree):
    h = error_hierarchy(tree)
    close_acts, sha_close = conn_close_actions(tree)
    nhook, sha_hook = hook_calls(tree)
    callback, classes, sha_hr, bound_first = reraise_facts(tree)
    anc_sec = ancestors(h, "SecurityError")
    escapes_security = any(c in anc_sec and c != "Exception" or c == "Exception" for c in classes)
    th = thread_facts(tree, h, close_acts, nhook)
    mx = mux_facts(tree, h, close_acts, nhook)
    tracking_facts(tree)
    out = HEADER % "Pyro5/svr_threads.py, svr_multiplex.py, socketutil.py, server.py, callcontext.py, errors.py"
    out += "From V Require Import Model.Cleanup.\n\n"
    out += "(* SocketConnection.close, statement by statement *)\n"
    out += "Definition conn_close_acts : list act := %s.\n" % clist(close_acts)
    out += "(* Daemon._clientDisconnect: unconditional calls of the user hook *)\n"
    out += "Definition hook_calls : nat := %d.\n" % nhook
    out += "(* thread server: finally-block of ClientConnectionJob.__call__, then Worker.run hands the worker back;\n"
    out += "   except branches of the request loop: %s *)\n" % "; ".join("%s -> %s" % ("|".join(c), "break" if b else "CONTINUES") for c, b in th["handlers"])
    out += shape_text("thread_shape", th, escapes_security, callback)
    out += "(* Worker.run: no write to self.job after pool.notify_done(self) (a job dispatched to the just-idled worker is not overwritten) *)\n"
    out += "Definition worker_job_cleared_before_handback : bool := %s.\n" % cbool(th["job_cleared_first"])
    out += "(* Daemon.handleRequest: current_context.client = conn precedes self._getInstance(obj, conn) *)\n"
    out += "Definition ctx_client_bound_before_construction : bool := %s.\n" % cbool(bound_first)
    out += "(* multiplex server: `if not active:` branch of events;\n"
    out += "   except branches of handleRequest: %s *)\n" % "; ".join("%s -> %s" % ("|".join(c), "False" if b else "TRUE") for c, b in mx["handlers"])
    out += shape_text("mux_shape", mx, escapes_security, callback)
    info = {"close": close_acts, "hook_calls": nhook, "thread": {k: th[k] for k in ("cleanup", "reject", "ends", "handlers")},
            "mux": {k: mx[k] for k in ("cleanup", "reject", "ends", "handlers")}, "reraise": classes, "callback": callback,
            "ast_sha": {"close": sha_close, "hook": sha_hook, "handleRequest": sha_hr, "thread": th["sha"], "mux": mx["sha"]}}
    return out, info
