"""GenServer: the reserved dunder list and is_private_attribute of Pyro5/server.py (C02).

`_private_dunder_methods` becomes `private_dunder_methods : list text`; `is_private_attribute`
is translated statement by statement by a mini-translator for boolean string functions into a
Gallina function over Model/StrFun.v.  Anything outside the recognised fragment fails closed.

Recognised fragment (one parameter x):
  body   ::= ( `if` cond `:` `return` bool )*  `return` (bool | cond)      (docstring allowed first)
  cond   ::= x `in` NAME | x `not in` NAME | x.startswith(str) | x.endswith(str)
           | len(x) (>|>=|<|<=|==|!=) int | `not` cond | cond `and` cond | cond `or` cond | True | False
  NAME   ::= module-level frozenset/set/list/tuple literal of str constants
"""
import ast
from tools.gen.gen import generator, parse, find_func, module_assign, need, GenError, HEADER, clist, cN, ctext, cbool, ast_sha


def str_collection(node, what):
    """a literal collection of string constants, possibly wrapped in frozenset()/set()/tuple()/list()"""
    if isinstance(node, ast.Call) and isinstance(node.func, ast.Name) and node.func.id in ("frozenset", "set", "tuple", "list"):
        need(len(node.args) == 1 and not node.keywords, "%s: unrecognised %s(...) call" % (what, node.func.id))
        node = node.args[0]
    need(isinstance(node, (ast.List, ast.Tuple, ast.Set)), "%s is not a literal collection" % what)
    out = []
    for e in node.elts:
        need(isinstance(e, ast.Constant) and isinstance(e.value, str), "%s has a non-string element" % what)
        out.append(e.value)
    return out


class Translator:
    def __init__(self, mod, func):
        self.mod, self.func = mod, func
        args = func.args
        need(len(args.args) == 1 and not args.vararg and not args.kwarg and not args.kwonlyargs and not args.defaults
             and not getattr(args, "posonlyargs", []), "%s does not take exactly one plain parameter" % func.name)
        need(not func.decorator_list, "%s is decorated" % func.name)
        self.x = args.args[0].arg
        self.consts = {}     # NAME -> list of str

    def is_x(self, node):
        return isinstance(node, ast.Name) and node.id == self.x

    def lit(self, node):
        need(isinstance(node, ast.Constant) and isinstance(node.value, str), "string method argument is not a str literal")
        return ctext(node.value)

    def cond(self, node):
        if isinstance(node, ast.Constant) and isinstance(node.value, bool):
            return cbool(node.value)
        if isinstance(node, ast.UnaryOp) and isinstance(node.op, ast.Not):
            return "(negb %s)" % self.cond(node.operand)
        if isinstance(node, ast.BoolOp):
            op = " && " if isinstance(node.op, ast.And) else " || "
            return "(" + op.join(self.cond(v) for v in node.values) + ")"
        if isinstance(node, ast.Compare):
            need(len(node.ops) == 1 and len(node.comparators) == 1, "chained comparison")
            op, left, right = node.ops[0], node.left, node.comparators[0]
            if isinstance(op, (ast.In, ast.NotIn)):
                need(self.is_x(left) and isinstance(right, ast.Name), "membership test is not `%s in NAME`" % self.x)
                name = right.id
                if name not in self.consts:
                    self.consts[name] = str_collection(module_assign(self.mod, name), name)
                t = "(t_mem %s %s)" % (self.x, coq_ident(name))
                return t if isinstance(op, ast.In) else "(negb %s)" % t
            if isinstance(left, ast.Call) and isinstance(left.func, ast.Name) and left.func.id == "len":
                need(len(left.args) == 1 and self.is_x(left.args[0]) and not left.keywords, "len() of something else")
                need(isinstance(right, ast.Constant) and isinstance(right.value, int) and not isinstance(right.value, bool)
                     and right.value >= 0, "len(...) compared with a non-literal")
                n, L = cN(right.value), "(t_len %s)" % self.x
                table = {ast.Gt: "(N.ltb %s %s)" % (n, L), ast.GtE: "(N.leb %s %s)" % (n, L),
                         ast.Lt: "(N.ltb %s %s)" % (L, n), ast.LtE: "(N.leb %s %s)" % (L, n),
                         ast.Eq: "(N.eqb %s %s)" % (L, n), ast.NotEq: "(negb (N.eqb %s %s))" % (L, n)}
                need(type(op) in table, "unsupported comparison operator on len()")
                return table[type(op)]
            raise GenError("unsupported comparison in %s" % self.func.name)
        if isinstance(node, ast.Call) and isinstance(node.func, ast.Attribute) and self.is_x(node.func.value):
            need(node.func.attr in ("startswith", "endswith") and len(node.args) == 1 and not node.keywords,
                 "unsupported string method .%s(...)" % node.func.attr)
            return "(t_%s %s %s)" % (node.func.attr, self.x, self.lit(node.args[0]))
        raise GenError("unsupported condition in %s: %s" % (self.func.name, ast.dump(node)[:80]))

    def body(self):
        stmts = list(self.func.body)
        if stmts and isinstance(stmts[0], ast.Expr) and isinstance(stmts[0].value, ast.Constant) and isinstance(stmts[0].value.value, str):
            stmts = stmts[1:]
        need(stmts, "empty function body")
        lines = []
        for st in stmts[:-1]:
            need(isinstance(st, ast.If) and not st.orelse and len(st.body) == 1 and isinstance(st.body[0], ast.Return)
                 and isinstance(st.body[0].value, ast.Constant) and isinstance(st.body[0].value.value, bool),
                 "statement is not `if <cond>: return True/False`")
            lines.append("  if %s then %s else" % (self.cond(st.test), cbool(st.body[0].value.value)))
        last = stmts[-1]
        need(isinstance(last, ast.Return) and last.value is not None, "function does not end in `return <bool>`")
        lines.append("  %s." % self.cond(last.value))
        return "\n".join(lines)


def coq_ident(name):
    return name.lstrip("_")


@generator("GenServer", "Pyro5/server.py")
def gen_server(tree):
    mod, _ = parse(tree, "Pyro5/server.py")
    f = find_func(mod, "is_private_attribute")
    tr = Translator(mod, f)
    body = tr.body()
    need("_private_dunder_methods" in tr.consts, "is_private_attribute does not consult _private_dunder_methods")
    # the reserved list must not be modified anywhere else at module level
    for n in ast.walk(mod):
        if isinstance(n, ast.Attribute) and isinstance(n.value, ast.Name) and n.value.id == "_private_dunder_methods":
            raise GenError("_private_dunder_methods is used through an attribute (.%s): not understood" % n.attr)
        if isinstance(n, (ast.Assign, ast.AugAssign, ast.AnnAssign)):
            tg = n.targets if isinstance(n, ast.Assign) else [n.target]
            if any(isinstance(t, ast.Name) and t.id == "_private_dunder_methods" for t in tg) and n not in mod.body:
                raise GenError("_private_dunder_methods is assigned outside module level")
        if isinstance(n, ast.Global) and "_private_dunder_methods" in n.names:
            raise GenError("_private_dunder_methods is declared global in a function")
    out = HEADER % "Pyro5/server.py"
    out += "From V Require Import Model.StrFun.\n\n"
    for name, vals in tr.consts.items():
        out += "(* %s = %s *)\n" % (name, ", ".join(vals))
        out += "Definition %s : list text := %s.\n\n" % (coq_ident(name), "[\n  " + ";\n  ".join(ctext(v) for v in vals) + "\n]")
    out += "(* def is_private_attribute(%s): translated statement by statement *)\n" % tr.x
    out += "Definition is_private_attribute (%s : text) : bool :=\n%s\n" % (tr.x, body)
    # the per-class metadata cache of _get_exposed_members: what is it keyed on?
    gm = find_func(mod, "_get_exposed_members")
    need(len(gm.args.args) >= 1, "_get_exposed_members takes no parameter")
    objname = gm.args.args[0].arg
    uses_cache = any(isinstance(n, ast.Name) and n.id.endswith("exposed_member_cache") for n in ast.walk(gm))
    keyed_by_class = True
    if uses_cache:
        keys = [n for n in ast.walk(gm) if isinstance(n, ast.Assign) and len(n.targets) == 1
                and isinstance(n.targets[0], ast.Name) and n.targets[0].id == "cache_key"]
        need(len(keys) == 1, "_get_exposed_members: expected exactly one assignment to cache_key, found %d" % len(keys))
        kv = keys[0].value
        need(isinstance(kv, ast.Tuple) and len(kv.elts) >= 1, "_get_exposed_members: cache_key is not a tuple")
        # keyed by the class object itself iff the class (after `obj = obj.__class__` normalisation) is an element of the key
        keyed_by_class = any(isinstance(e, ast.Name) and e.id == objname for e in kv.elts)
        subs = [n for n in ast.walk(gm) if isinstance(n, ast.Subscript) and isinstance(n.value, ast.Name)
                and n.value.id.endswith("exposed_member_cache")]
        need(all(isinstance(x.slice, ast.Name) and x.slice.id == "cache_key" for x in subs),
             "_get_exposed_members: the cache is indexed by something other than cache_key")
    # the result is put into the cache only after the dir()/getattr scan: no partially filled entry is ever visible
    stored_after_scan = True
    if uses_cache:
        top = list(gm.body)
        loops = [i for i, st in enumerate(top) if isinstance(st, ast.For)]
        need(len(loops) == 1, "_get_exposed_members: expected exactly one top-level scan loop, found %d" % len(loops))
        def stores(node):
            return [n for n in ast.walk(node) if isinstance(n, (ast.Assign, ast.AugAssign, ast.AnnAssign))
                    and any(isinstance(t, ast.Subscript) and isinstance(t.value, ast.Name) and t.value.id.endswith("exposed_member_cache")
                            for t in (n.targets if isinstance(n, ast.Assign) else [n.target]))] + \
                   [n for n in ast.walk(node) if isinstance(n, ast.Call) and isinstance(n.func, ast.Attribute)
                    and isinstance(n.func.value, ast.Name) and n.func.value.id.endswith("exposed_member_cache")
                    and n.func.attr in ("setdefault", "update", "__setitem__")]
        where = [i for i, st in enumerate(top) if stores(st)]
        need(where, "_get_exposed_members: no store into the member cache found")
        stored_after_scan = all(i > loops[0] for i in where)
    out += "\n(* _get_exposed_members stores its result in the cache only after the scan loop has completed *)\n"
    out += "Definition metadata_cache_stored_after_scan : bool := %s.\n" % cbool(stored_after_scan)
    out += "\n(* _get_exposed_members: the metadata cache is keyed by the class object itself (not by a name) *)\n"
    out += "Definition metadata_cache_keyed_by_class : bool := %s.\n" % cbool(keyed_by_class)
    # how Daemon.handleRequest hands the arguments of __getattr__/__setattr__ requests to the property helpers
    from tools.gen.gen import find_class
    hr = find_func(mod, "handleRequest", "Daemon")
    forms = {}
    for call in ast.walk(hr):
        if isinstance(call, ast.Call) and isinstance(call.func, ast.Name) and call.func.id in ("_get_exposed_property_value", "_set_exposed_property_value"):
            need(call.func.id not in forms, "handleRequest calls %s more than once" % call.func.id)
            want = 1 if call.func.id.startswith("_get") else 2
            if any(isinstance(a, ast.Starred) for a in call.args) or any(k.arg is None for k in call.keywords):
                forms[call.func.id] = "star"       # *vargs / **kwargs: request arguments can reach trailing parameters
                continue
            need(not call.keywords, "%s is called with keyword arguments" % call.func.id)
            need(len(call.args) == want + 1 and isinstance(call.args[0], ast.Name), "%s: unrecognised argument list" % call.func.id)
            for i, a in enumerate(call.args[1:]):
                need(isinstance(a, ast.Subscript) and isinstance(a.value, ast.Name) and a.value.id == "vargs"
                     and isinstance(a.slice, ast.Constant) and a.slice.value == i, "%s: argument %d is not vargs[%d]" % (call.func.id, i + 1, i))
            forms[call.func.id] = "indexed"
    need(set(forms) == {"_get_exposed_property_value", "_set_exposed_property_value"}, "handleRequest does not call both property helpers")
    # the helpers' own signature: (obj, propname[, value], only_exposed=True) — nothing else a request could bind
    for fn, npos in (("_get_exposed_property_value", 2), ("_set_exposed_property_value", 3)):
        a = find_func(mod, fn).args
        need(not a.vararg and not a.kwarg and not a.kwonlyargs and len(a.args) == npos + 1 and a.args[-1].arg == "only_exposed"
             and len(a.defaults) == 1 and isinstance(a.defaults[0], ast.Constant) and a.defaults[0].value is True,
             "%s: unexpected signature" % fn)
    out += "\n(* Daemon.handleRequest passes vargs[0] (, vargs[1]) to the property helpers — no *vargs / **kwargs *)\n"
    out += "Definition attr_requests_index_arguments : bool := %s.\n" % cbool(all(v == "indexed" for v in forms.values()))
    shas = {"is_private_attribute": ast_sha(f)}
    for fn in ("expose", "_get_attribute", "_get_exposed_members", "_get_exposed_property_value", "_set_exposed_property_value"):
        shas[fn] = ast_sha(find_func(mod, fn))
    return out, {"reserved": tr.consts["_private_dunder_methods"], "ast_sha": shas}
