"""GenServer: facts about the exposure gate of Pyro5/server.py that the C02 theorems are checked against.

Every fact has an `ast` reader that is tolerant of restructuring (helper functions are followed, renamed locals,
early returns, message texts and logging are ignored) and, where the fact is a VALUE or can be observed by calling the
function of the tree under test, a second reader that evaluates it (gen.tree_module); info["mode"] records which reader
produced each fact.  A fact that neither reader can establish fails closed (GenError).

  private_dunder_methods        the reserved list (ast: literal collection; fallback: the evaluated module attribute)
  is_private_attribute          ast: mini-translator for boolean string functions (below), following calls into
                                one-parameter helper functions of the module.  If the translated formula is equivalent to the
                                canonical one (truth table over its atoms) the canonical text is emitted, so equivalent
                                restructurings do not disturb the proofs; if it is NOT equivalent the translation is emitted
                                verbatim (the obligation C02_private_exact then breaks).  fallback: the function of the tree is
                                probed on ~900 names against the canonical predicate.
  metadata_cache_keyed_by_class, metadata_cache_stored_after_scan
                                ast: cache_key tuple / position of the store relative to the scan loop; fallback: behavioural
                                probe of _get_exposed_members (two same-named classes; a class attribute that raises during the scan)
  attr_requests_index_arguments every call of the property helpers passes a FIXED number of positional arguments and nothing
                                else (no *args, no **kwargs, no keywords), wherever in the module the call sits

Translator fragment (one parameter x):
  body   ::= ( `if` cond `:` `return` (bool|cond) )*  `return` (bool | cond)      (docstring allowed first)
  cond   ::= x `in` NAME | x `not in` NAME | x.startswith(str) | x.endswith(str) | helper(x)
           | len(x) (>|>=|<|<=|==|!=) int | `not` cond | cond `and` cond | cond `or` cond | True | False
  NAME   ::= module-level frozenset/set/list/tuple literal of str constants
"""
import ast, itertools
from tools.gen.gen import generator, parse, find_func, module_assign, need, GenError, HEADER, clist, cN, ctext, cbool, ast_sha, tree_module

RESERVED = "_private_dunder_methods"


def str_collection(node, what):
    """a literal collection of string constants, possibly wrapped in frozenset()/set()/tuple()/list()"""
    if isinstance(node, ast.Call) and isinstance(node.func, ast.Name) and node.func.id in ("frozenset", "set", "tuple", "list"):
        need(len(node.args) == 1 and not node.keywords, "%s: unrecognised %s(...) call" % (what, node.func.id))
        node = node.args[0]
    need(isinstance(node, (ast.List, ast.Tuple, ast.Set)), "%s is not a literal collection" % what)
    out = []
    for e in node.elts:
        need(isinstance(e, ast.Constant) and isinstance(e.value, str), "%s has a non-string element" % what)
        out.append(e.value)
    return out


# ---------------------------------------------------------------- boolean string functions -> expression trees
# ("const", b) | ("atom", key) | ("not", e) | ("and", [e..]) | ("or", [e..]) | ("ite", c, a, b)
class Translator:
    def __init__(self, mod, func, depth=0):
        self.mod, self.func, self.depth = mod, func, depth
        args = func.args
        need(len(args.args) == 1 and not args.vararg and not args.kwarg and not args.kwonlyargs and not args.defaults
             and not getattr(args, "posonlyargs", []), "%s does not take exactly one plain parameter" % func.name)
        need(not func.decorator_list, "%s is decorated" % func.name)
        self.x = args.args[0].arg
        self.consts = {}     # NAME -> list of str

    def is_x(self, node):
        return isinstance(node, ast.Name) and node.id == self.x

    def cond(self, node):
        if isinstance(node, ast.Constant) and isinstance(node.value, bool):
            return ("const", node.value)
        if isinstance(node, ast.UnaryOp) and isinstance(node.op, ast.Not):
            return ("not", self.cond(node.operand))
        if isinstance(node, ast.BoolOp):
            return ("and" if isinstance(node.op, ast.And) else "or", [self.cond(v) for v in node.values])
        if isinstance(node, ast.IfExp):
            return ("ite", self.cond(node.test), self.cond(node.body), self.cond(node.orelse))
        if isinstance(node, ast.Compare):
            need(len(node.ops) == 1 and len(node.comparators) == 1, "chained comparison")
            op, left, right = node.ops[0], node.left, node.comparators[0]
            if isinstance(op, (ast.In, ast.NotIn)):
                need(self.is_x(left) and isinstance(right, ast.Name), "membership test is not `%s in NAME`" % self.x)
                name = right.id
                if name not in self.consts:
                    self.consts[name] = str_collection(module_assign(self.mod, name), name)
                t = ("atom", ("mem", name))
                return t if isinstance(op, ast.In) else ("not", t)
            if isinstance(left, ast.Call) and isinstance(left.func, ast.Name) and left.func.id == "len":
                need(len(left.args) == 1 and self.is_x(left.args[0]) and not left.keywords, "len() of something else")
                need(isinstance(right, ast.Constant) and isinstance(right.value, int) and not isinstance(right.value, bool)
                     and right.value >= 0, "len(...) compared with a non-literal")
                n = right.value
                gt = lambda k: ("atom", ("lengt", k))          # len(x) > k
                if isinstance(op, ast.Gt):
                    return gt(n)
                if isinstance(op, ast.GtE):
                    return gt(n - 1) if n >= 1 else ("const", True)
                if isinstance(op, ast.Lt):
                    return ("not", gt(n - 1)) if n >= 1 else ("const", False)
                if isinstance(op, ast.LtE):
                    return ("not", gt(n))
                if isinstance(op, ast.Eq):
                    return ("atom", ("leneq", n))
                if isinstance(op, ast.NotEq):
                    return ("not", ("atom", ("leneq", n)))
                raise GenError("unsupported comparison operator on len()")
            raise GenError("unsupported comparison in %s" % self.func.name)
        if isinstance(node, ast.Call) and isinstance(node.func, ast.Attribute) and self.is_x(node.func.value):
            need(node.func.attr in ("startswith", "endswith") and len(node.args) == 1 and not node.keywords
                 and isinstance(node.args[0], ast.Constant) and isinstance(node.args[0].value, str),
                 "unsupported string method .%s(...)" % node.func.attr)
            return ("atom", ("sw" if node.func.attr == "startswith" else "ew", node.args[0].value))
        if isinstance(node, ast.Call) and isinstance(node.func, ast.Name) and len(node.args) == 1 and not node.keywords \
                and self.is_x(node.args[0]):
            # a helper predicate of the same module applied to the same name: follow it
            need(self.depth < 2, "helper functions nested too deeply in %s" % self.func.name)
            sub = Translator(self.mod, find_func(self.mod, node.func.id), self.depth + 1)
            e = sub.body()
            self.consts.update(sub.consts)
            return e
        raise GenError("unsupported condition in %s: %s" % (self.func.name, ast.dump(node)[:80]))

    def value(self, node):
        need(node is not None, "bare return in %s" % self.func.name)
        return self.cond(node)

    def block(self, stmts):
        """a statement list that returns on every path -> expression"""
        need(stmts, "a path of %s does not return" % self.func.name)
        st, rest = stmts[0], stmts[1:]
        if isinstance(st, ast.Expr) and isinstance(st.value, ast.Constant) and isinstance(st.value.value, str):
            return self.block(rest)        # docstring / stray string
        if isinstance(st, ast.Expr) and isinstance(st.value, ast.Call) and isinstance(st.value.func, ast.Attribute) \
                and isinstance(st.value.func.value, ast.Name) and st.value.func.value.id in ("log", "logger", "logging"):
            return self.block(rest)        # logging is ignored
        if isinstance(st, ast.Return):
            return self.value(st.value)
        if isinstance(st, ast.If):
            c = self.cond(st.test)
            then = self.block(list(st.body) + rest)        # a branch that does not return falls through to the rest
            els = self.block(list(st.orelse) + rest)
            return ("ite", c, then, els)
        raise GenError("unsupported statement in %s: %s" % (self.func.name, type(st).__name__))

    def body(self):
        return self.block(list(self.func.body))


def atoms_of(e, acc=None):
    acc = set() if acc is None else acc
    if e[0] == "atom":
        acc.add(e[1])
    elif e[0] == "not":
        atoms_of(e[1], acc)
    elif e[0] in ("and", "or"):
        for x in e[1]:
            atoms_of(x, acc)
    elif e[0] == "ite":
        for x in e[1:]:
            atoms_of(x, acc)
    return acc


def evaluate(e, env):
    if e[0] == "const":
        return e[1]
    if e[0] == "atom":
        return env[e[1]]
    if e[0] == "not":
        return not evaluate(e[1], env)
    if e[0] == "and":
        return all(evaluate(x, env) for x in e[1])
    if e[0] == "or":
        return any(evaluate(x, env) for x in e[1])
    return evaluate(e[2], env) if evaluate(e[1], env) else evaluate(e[3], env)


def coq_ident(name):
    return name.lstrip("_")


def to_coq(e, x):
    if e[0] == "const":
        return cbool(e[1])
    if e[0] == "atom":
        k = e[1]
        if k[0] == "mem":
            return "(t_mem %s %s)" % (x, coq_ident(k[1]))
        if k[0] == "sw":
            return "(t_startswith %s %s)" % (x, ctext(k[1]))
        if k[0] == "ew":
            return "(t_endswith %s %s)" % (x, ctext(k[1]))
        if k[0] == "lengt":
            return "(N.ltb %s (t_len %s))" % (cN(k[1]), x)
        return "(N.eqb (t_len %s) %s)" % (x, cN(k[1]))
    if e[0] == "not":
        return "(negb %s)" % to_coq(e[1], x)
    if e[0] in ("and", "or"):
        return "(" + (" && " if e[0] == "and" else " || ").join(to_coq(v, x) for v in e[1]) + ")"
    return "(if %s then %s else %s)" % (to_coq(e[1], x), to_coq(e[2], x), to_coq(e[3], x))


A_MEM, A_SW1, A_LEN, A_SW2, A_EW2 = ("mem", RESERVED), ("sw", "_"), ("lengt", 4), ("sw", "__"), ("ew", "__")
CANON = ("or", [("atom", A_MEM), ("and", [("atom", A_SW1), ("not", ("and", [("atom", A_LEN), ("atom", A_SW2), ("atom", A_EW2)]))])])
CANON_TEXT = """Definition is_private_attribute (attr_name : text) : bool :=
  if (t_mem attr_name private_dunder_methods) then true else
  if (negb (t_startswith attr_name [95%N])) then false else
  if ((N.ltb 4%N (t_len attr_name)) && (t_startswith attr_name [95%N; 95%N]) && (t_endswith attr_name [95%N; 95%N])) then false else
  true.
"""


def equivalent_to_canonical(e):
    """truth-table comparison over the canonical atoms; assignments that no string can realise are skipped:
    startswith('__') implies startswith('_'), and every reserved name starts with '_' (re-checked in Coq: reserved_underscore)"""
    canon = [A_MEM, A_SW1, A_LEN, A_SW2, A_EW2]
    if not atoms_of(e) <= set(canon):
        return False
    for vals in itertools.product([False, True], repeat=5):
        env = dict(zip(canon, vals))
        if (env[A_SW2] and not env[A_SW1]) or (env[A_MEM] and not env[A_SW1]):
            continue
        if evaluate(e, env) != evaluate(CANON, env):
            return False
    return True


def canonical_private(name, reserved):
    return name in reserved or (name.startswith("_") and not (len(name) > 4 and name.startswith("__") and name.endswith("__")))


def probe_names(reserved):
    names = set(reserved)
    for alphabet, maxlen in (("_a", 7), ("_aéx", 5)):
        for n in range(0, maxlen + 1):
            for t in itertools.product(alphabet, repeat=n):
                names.add("".join(t))
    for r in reserved:
        names.update([r[:-1], r[1:], r + "_", "_" + r, r.upper(), r[:-2], r.replace("_", "", 1)])
    names.update(["__%s__" % w for w in ("len", "iter", "dunder", "x", "ab", "a" * 40)] + ["_" * k for k in range(0, 12)])
    return sorted(names)


# ---------------------------------------------------------------- the metadata cache
def cache_facts_ast(mod):
    gm = find_func(mod, "_get_exposed_members")
    need(len(gm.args.args) >= 1, "_get_exposed_members takes no parameter")
    objname = gm.args.args[0].arg
    uses_cache = any(isinstance(n, ast.Name) and n.id.endswith("exposed_member_cache") for n in ast.walk(gm))
    if not uses_cache:
        return True, True
    keys = [n for n in ast.walk(gm) if isinstance(n, ast.Assign) and len(n.targets) == 1
            and isinstance(n.targets[0], ast.Name) and n.targets[0].id == "cache_key"]
    need(len(keys) == 1, "_get_exposed_members: expected exactly one assignment to cache_key, found %d" % len(keys))
    kv = keys[0].value
    need(isinstance(kv, ast.Tuple) and len(kv.elts) >= 1, "_get_exposed_members: cache_key is not a tuple")
    keyed_by_class = any(isinstance(e, ast.Name) and e.id == objname for e in kv.elts)
    subs = [n for n in ast.walk(gm) if isinstance(n, ast.Subscript) and isinstance(n.value, ast.Name)
            and n.value.id.endswith("exposed_member_cache")]
    need(all(isinstance(x.slice, ast.Name) and x.slice.id == "cache_key" for x in subs),
         "_get_exposed_members: the cache is indexed by something other than cache_key")
    top = list(gm.body)
    loops = [i for i, st in enumerate(top) if isinstance(st, ast.For)]
    need(len(loops) == 1, "_get_exposed_members: expected exactly one top-level scan loop, found %d" % len(loops))

    def stores(node):
        return [n for n in ast.walk(node) if isinstance(n, (ast.Assign, ast.AugAssign, ast.AnnAssign))
                and any(isinstance(t, ast.Subscript) and isinstance(t.value, ast.Name) and t.value.id.endswith("exposed_member_cache")
                        for t in (n.targets if isinstance(n, ast.Assign) else [n.target]))] + \
               [n for n in ast.walk(node) if isinstance(n, ast.Call) and isinstance(n.func, ast.Attribute)
                and isinstance(n.func.value, ast.Name) and n.func.value.id.endswith("exposed_member_cache")
                and n.func.attr in ("setdefault", "update", "__setitem__")]
    where = [i for i, st in enumerate(top) if stores(st)]
    need(where, "_get_exposed_members: no store into the member cache found")
    return keyed_by_class, all(i > loops[0] for i in where)


def cache_facts_probed(tree):
    """observe _get_exposed_members of the tree under test: (answers are per class object, no partially filled answer is
    ever handed out after an aborted scan)"""
    sm = tree_module(tree, "Pyro5.server")
    gem, expose = sm._get_exposed_members, sm.expose

    def mk(names):
        ns = {}
        for n in names:
            def f(self):
                return None
            f.__name__ = n
            ns[n] = expose(f)
        return ns
    # two classes with the same name / qualname / module, different members, asked alternately
    A = type("GenProbe", (object,), mk(["alpha", "common"]))
    B = type("GenProbe", (object,), mk(["beta", "common"]))
    answers = [set(gem(A)["methods"]), set(gem(B)["methods"]), set(gem(A())["methods"]), set(gem(B)["methods"])]
    keyed = answers == [{"alpha", "common"}, {"beta", "common"}, {"alpha", "common"}, {"beta", "common"}]

    class Boom(object):
        armed = True

        def __get__(self, inst, owner):
            if inst is None and Boom.armed:
                Boom.armed = False
                raise RuntimeError("not now")
            return 7
    ns = mk(["alpha", "omega"])
    ns["kaboom"] = Boom()
    C = type("GenProbe", (object,), ns)
    try:
        first = set(gem(C)["methods"])
    except RuntimeError:
        first = None
    second = set(gem(C)["methods"])
    stored_after = second == {"alpha", "omega"} and first in (None, {"alpha", "omega"})
    return keyed, stored_after


# ---------------------------------------------------------------- the handler's call form
def attr_call_form(mod):
    """every call of the two property helpers anywhere in the module passes obj plus exactly one resp. two positional arguments
    and nothing else; then no part of a request can reach a trailing parameter of the helpers, whatever they are called"""
    want = {"_get_exposed_property_value": 1, "_set_exposed_property_value": 2}
    seen = {k: 0 for k in want}
    fixed = True
    for call in ast.walk(mod):
        if isinstance(call, ast.Call) and isinstance(call.func, ast.Name) and call.func.id in want:
            seen[call.func.id] += 1
            if any(isinstance(a, ast.Starred) for a in call.args) or call.keywords or len(call.args) != want[call.func.id] + 1:
                fixed = False
    need(all(seen.values()), "no call of the property helpers found in Pyro5/server.py (%s)" % seen)
    return fixed


@generator("GenServer", "Pyro5/server.py")
def gen_server(tree):
    mod, _ = parse(tree, "Pyro5/server.py")
    mode = {}
    # ---- the reserved list and is_private_attribute
    f = None
    try:
        f = find_func(mod, "is_private_attribute")
        tr = Translator(mod, f)
        expr = tr.body()
        need(RESERVED in tr.consts, "is_private_attribute does not consult %s" % RESERVED)
        need(set(tr.consts) == {RESERVED}, "is_private_attribute consults other name collections: %s" % sorted(tr.consts))
        reserved = tr.consts[RESERVED]
        if equivalent_to_canonical(expr):
            ptext, mode["is_private_attribute"] = CANON_TEXT, "ast (equivalent to the canonical formula by truth table)"
        else:
            ptext = "Definition is_private_attribute (attr_name : text) : bool :=\n  %s.\n" % to_coq(expr, "attr_name")
            mode["is_private_attribute"] = "ast (NOT equivalent to the canonical formula: emitted verbatim)"
        mode["reserved"] = "ast"
    except GenError as x:
        sm = tree_module(tree, "Pyro5.server")
        val = getattr(sm, RESERVED, None)
        need(isinstance(val, (set, frozenset, list, tuple)) and all(isinstance(v, str) for v in val),
             "%s is not a collection of strings (ast reader: %s)" % (RESERVED, x))
        reserved = sorted(val)
        bad = [n for n in probe_names(reserved) if bool(sm.is_private_attribute(n)) != canonical_private(n, set(reserved))]
        need(not bad, "is_private_attribute differs from 'reserved, or leading underscore and not __x__' on e.g. %r "
                      "(ast reader: %s)" % (bad[:5], x))
        ptext = CANON_TEXT
        mode["reserved"] = "evaluated"
        mode["is_private_attribute"] = "probed on %d names against the canonical formula (ast reader: %s)" % (len(probe_names(reserved)), x)
    need(all(isinstance(v, str) for v in reserved) and len(set(reserved)) == len(reserved), "duplicate reserved names")
    # the reserved list must not be modified anywhere else
    for n in ast.walk(mod):
        if isinstance(n, ast.Attribute) and isinstance(n.value, ast.Name) and n.value.id == RESERVED:
            raise GenError("%s is used through an attribute (.%s): not understood" % (RESERVED, n.attr))
        if isinstance(n, (ast.Assign, ast.AugAssign, ast.AnnAssign)):
            tg = n.targets if isinstance(n, ast.Assign) else [n.target]
            if any(isinstance(t, ast.Name) and t.id == RESERVED for t in tg) and n not in mod.body:
                raise GenError("%s is assigned outside module level" % RESERVED)
        if isinstance(n, ast.Global) and RESERVED in n.names:
            raise GenError("%s is declared global in a function" % RESERVED)
    # ---- the metadata cache
    try:
        keyed_by_class, stored_after_scan = cache_facts_ast(mod)
        mode["metadata_cache"] = "ast"
    except GenError as x:
        keyed_by_class, stored_after_scan = cache_facts_probed(tree)
        mode["metadata_cache"] = "probed (ast reader: %s)" % x
    # ---- the handler's call form
    fixed_arity = attr_call_form(mod)
    mode["attr_call_form"] = "ast (fixed positional arity at every call site)"

    out = HEADER % "Pyro5/server.py"
    out += "From V Require Import Model.StrFun.\n\n"
    out += "(* %s = %s *)\n" % (RESERVED, ", ".join(reserved))
    out += "Definition %s : list text := %s.\n\n" % (coq_ident(RESERVED), "[\n  " + ";\n  ".join(ctext(v) for v in reserved) + "\n]")
    out += "(* def is_private_attribute(name) — reader: %s *)\n" % mode["is_private_attribute"].split(" (ast reader")[0]
    out += ptext
    out += "\n(* _get_exposed_members stores its result in the cache only after the scan has completed *)\n"
    out += "Definition metadata_cache_stored_after_scan : bool := %s.\n" % cbool(stored_after_scan)
    out += "\n(* _get_exposed_members: the metadata cache is keyed by the class object itself (not by a name) *)\n"
    out += "Definition metadata_cache_keyed_by_class : bool := %s.\n" % cbool(keyed_by_class)
    out += "\n(* the property helpers are always called with a fixed number of positional arguments — no *vargs / **kwargs / keywords *)\n"
    out += "Definition attr_requests_index_arguments : bool := %s.\n" % cbool(fixed_arity)
    shas = {}
    for fn in ("is_private_attribute", "expose", "_get_attribute", "_get_exposed_members", "_get_exposed_property_value",
               "_set_exposed_property_value"):
        try:
            shas[fn] = ast_sha(find_func(mod, fn))
        except GenError:
            shas[fn] = None
    return out, {"reserved": reserved, "mode": mode, "ast_sha": shas}
