"""GenHandshake (C08): the structural facts of the handshake gate, read from the source with `ast`.

  server.py      Daemon._handshake     accepted types of its recv_stub call; truthy only when it answered CONNECTOK
                 Daemon.handleRequest  accepted types of its recv_stub call; the type compared for the ping branch
  svr_threads.py ClientConnectionJob.__call__ / handleConnection   request loop only under a truthy handshake
  svr_multiplex.py SocketServer_Multiplex.events / _handleConnection  selector registration only under a truthy handshake
  serializers.py MarshalSerializer.serializer_id (the serializer used before the request's own is known)

A recognised shape that does not guard yields `false` (the computed check `cfg_ok` then fails);
an unrecognised shape raises GenError (fail closed)."""
import ast
from tools.gen.gen import generator, parse, find_func, find_class, module_assign, int_expr, need, GenError, HEADER, clist, cN, cbool, ast_sha


def attr_chain(node):
    """a.b.c -> ['a','b','c'] or None"""
    out = []
    while isinstance(node, ast.Attribute):
        out.append(node.attr)
        node = node.value
    if isinstance(node, ast.Name):
        out.append(node.id)
        return out[::-1]
    return None


def is_call_to(node, last_attr):
    return isinstance(node, ast.Call) and isinstance(node.func, ast.Attribute) and node.func.attr == last_attr


def calls_in(node, last_attr):
    return [n for n in ast.walk(node) if is_call_to(n, last_attr)]


def msg_const_names(listnode, what):
    need(isinstance(listnode, (ast.List, ast.Tuple)), "%s: accepted types are not a list literal" % what)
    names = []
    for e in listnode.elts:
        ch = attr_chain(e)
        need(ch is not None and len(ch) == 2 and ch[0] == "protocol" and ch[1].startswith("MSG_"),
             "%s: accepted type is not protocol.MSG_<NAME>" % what)
        names.append(ch[1])
    need(len(names) >= 1, "%s: empty accepted-types list" % what)
    return names


def recv_stub_types(func, what):
    calls = calls_in(func, "recv_stub")
    need(len(calls) == 1, "%s: expected exactly one recv_stub call, found %d" % (what, len(calls)))
    c = calls[0]
    need(len(c.args) == 2 and not c.keywords, "%s: recv_stub is not called as recv_stub(conn, [types])" % what)
    return msg_const_names(c.args[1], what)


def terminates(stmts):
    return bool(stmts) and isinstance(stmts[-1], (ast.Return, ast.Raise, ast.Continue, ast.Break))


def guarded_walk(func, is_guard_test, on_simple):
    """Walks the statements of func. `is_guard_test(expr)` -> +1 when expr is the guard (truthy branch is guarded),
    -1 when it is `not guard`, 0 otherwise.  on_simple(stmt_or_expr, guarded) is called for every simple statement and
    for the test/iter expressions of compound statements.  Nested function definitions are not understood."""
    aliases = set()

    def alias_test(expr):
        """`flag = <guard>` ... `if flag:` / `if not flag:` (flag assigned exactly once in the function)"""
        if isinstance(expr, ast.Name) and expr.id in aliases:
            return 1
        if isinstance(expr, ast.UnaryOp) and isinstance(expr.op, ast.Not) and isinstance(expr.operand, ast.Name) \
                and expr.operand.id in aliases:
            return -1
        return 0

    def walk(stmts, guarded):
        for st in stmts:
            if isinstance(st, (ast.FunctionDef, ast.AsyncFunctionDef, ast.ClassDef)):
                raise GenError("nested definition in %s: not analysable" % func.name)
            if isinstance(st, ast.Assign) and len(st.targets) == 1 and isinstance(st.targets[0], ast.Name) \
                    and is_guard_test(st.value) == 1:
                name = st.targets[0].id
                stores = [n for n in ast.walk(func) if isinstance(n, ast.Name) and n.id == name and isinstance(n.ctx, (ast.Store, ast.Del))]
                need(len(stores) == 1, "%s: flag variable %s is assigned more than once" % (func.name, name))
                aliases.add(name)
                continue
            if isinstance(st, ast.If):
                g = is_guard_test(st.test) or alias_test(st.test)
                if g == 1:
                    walk(st.body, True)
                    walk(st.orelse, guarded)
                    continue
                if g == -1:
                    walk(st.body, guarded)
                    if st.orelse:
                        walk(st.orelse, True)
                    elif terminates(st.body):
                        guarded = True      # the rest of this block runs only when the guard was truthy
                    continue
                on_simple(st.test, guarded)
                walk(st.body, guarded)
                walk(st.orelse, guarded)
            elif isinstance(st, (ast.While,)):
                on_simple(st.test, guarded)
                walk(st.body, guarded)
                walk(st.orelse, guarded)
            elif isinstance(st, (ast.For, ast.AsyncFor)):
                on_simple(st.iter, guarded)
                walk(st.body, guarded)
                walk(st.orelse, guarded)
            elif isinstance(st, (ast.With, ast.AsyncWith)):
                for it in st.items:
                    on_simple(it.context_expr, guarded)
                walk(st.body, guarded)
            elif isinstance(st, ast.Try):
                walk(st.body, guarded)
                for h in st.handlers:
                    walk(h.body, guarded)
                walk(st.orelse, guarded)
                walk(st.finalbody, guarded)
            else:
                need(not hasattr(st, "body"), "unsupported compound statement %s in %s" % (type(st).__name__, func.name))
                on_simple(st, guarded)
    walk(func.body, False)


def guard_by_call(attr):
    """guard test = a call `<...>.attr(...)` used directly as the condition"""
    def test(expr):
        if is_call_to(expr, attr):
            return 1
        if isinstance(expr, ast.UnaryOp) and isinstance(expr.op, ast.Not) and is_call_to(expr.operand, attr):
            return -1
        return 0
    return test


def guard_by_name(name):
    def test(expr):
        if isinstance(expr, ast.Name) and expr.id == name:
            return 1
        if isinstance(expr, ast.UnaryOp) and isinstance(expr.op, ast.Not) and isinstance(expr.operand, ast.Name) \
                and expr.operand.id == name:
            return -1
        if isinstance(expr, ast.Compare) and len(expr.ops) == 1 and isinstance(expr.left, ast.Name) and expr.left.id == name \
                and isinstance(expr.comparators[0], ast.Constant) and expr.comparators[0].value is None:
            if isinstance(expr.ops[0], ast.IsNot):
                return 1
            if isinstance(expr.ops[0], ast.Is):
                return -1
        return 0
    return test


def truthy_return_only_under(func, guard_attr, truthy_ok):
    """Every `return` of func is falsy (no value / None / False) unless it is guarded by a truthy `<x>.guard_attr(...)`
    test, in which case it must satisfy truthy_ok(value).  Exactly one call of guard_attr, in test position.
    Returns True (guarded), False (a truthy return outside the guard)."""
    n_calls = len(calls_in(func, guard_attr))
    need(n_calls == 1, "%s: expected exactly one call of %s, found %d" % (func.name, guard_attr, n_calls))
    state = {"ok": True, "truthy": 0, "guard_seen": 0}
    test = guard_by_call(guard_attr)

    def counting_test(expr):
        g = test(expr)
        if g:
            state["guard_seen"] += 1
        return g

    def on_simple(st, guarded):
        if isinstance(st, ast.Return):
            v = st.value
            if v is None or (isinstance(v, ast.Constant) and (v.value is None or v.value is False)):
                return
            need(truthy_ok(v), "%s: unrecognised return value" % func.name)
            state["truthy"] += 1
            if not guarded:
                state["ok"] = False
        else:
            for sub in ast.walk(st):
                if isinstance(sub, (ast.Return, ast.Yield, ast.YieldFrom, ast.Lambda)):
                    raise GenError("%s: unexpected construct" % func.name)
            if calls_in(st, guard_attr):
                # the handshake is called but its result is not the condition of an `if`
                state["ok"] = False
    guarded_walk(func, counting_test, on_simple)
    if state["guard_seen"] == 0 and state["ok"]:
        raise GenError("%s: call of %s is neither an if-condition nor a plain statement" % (func.name, guard_attr))
    need(state["truthy"] >= 1, "%s: never returns a truthy value" % func.name)
    return state["ok"]


def calls_only_under(func, target_attr, test, what, arg_check=None):
    """All calls `<x>.target_attr(...)` in func lie in code guarded by `test`.  At least one such call."""
    state = {"ok": True, "n": 0}

    def on_simple(st, guarded):
        for c in calls_in(st, target_attr):
            if arg_check is not None and not arg_check(c):
                continue
            state["n"] += 1
            if not guarded:
                state["ok"] = False
    guarded_walk(func, test, on_simple)
    need(state["n"] >= 1, "%s: no call of %s found" % (what, target_attr))
    return state["ok"]


def analyse_handshake(func):
    """_handshake answers CONNECTOK only at the end of its try body (after the validator ran) and returns
    truthy only for that answer."""
    tries = [s for s in func.body if isinstance(s, ast.Try)]
    need(len(tries) == 1, "_handshake: expected exactly one top-level try statement")
    t = tries[0]
    need(not t.orelse and not t.finalbody, "_handshake: try statement has else/finally")
    need(len([n for n in ast.walk(func) if isinstance(n, ast.Try)]) == 1, "_handshake: nested try statements")
    # assignments to msgtype
    def msgtype_assigns(stmts):
        out = []
        for n in stmts:
            for sub in ast.walk(n):
                if isinstance(sub, ast.Assign) and any(isinstance(tg, ast.Name) and tg.id == "msgtype" for tg in sub.targets):
                    ch = attr_chain(sub.value)
                    need(ch is not None and len(ch) == 2 and ch[0] == "protocol", "_handshake: msgtype assigned something that is not protocol.MSG_*")
                    out.append((sub, ch[1]))
        return out
    body_as = msgtype_assigns(t.body)
    need(len(body_as) == 1 and body_as[0][1] == "MSG_CONNECTOK" and body_as[0][0] is t.body[-1],
         "_handshake: `msgtype = protocol.MSG_CONNECTOK` is not the last statement of the try body")
    vcalls = [c for st in t.body for c in calls_in(st, "validateHandshake")]
    need(len(vcalls) == 1 and len(calls_in(func, "validateHandshake")) == 1,
         "_handshake: validateHandshake is not called exactly once, inside the try body")
    rcalls = [c for st in t.body for c in calls_in(st, "recv_stub")]
    need(len(rcalls) == 1, "_handshake: recv_stub is not called inside the try body")
    need(any(h.type is not None and attr_chain(h.type) == ["Exception"] for h in t.handlers) or
         any(h.type is None for h in t.handlers), "_handshake: no catch-all `except Exception` handler")
    for h in t.handlers:
        for sub, name in msgtype_assigns(h.body):
            need(name == "MSG_CONNECTFAIL", "_handshake: an except handler sets msgtype to %s" % name)
        ends_false = isinstance(h.body[-1], ast.Return) and isinstance(h.body[-1].value, ast.Constant) and h.body[-1].value.value is False
        need(ends_false or any(s in [a for a, _ in msgtype_assigns(h.body)] for s in h.body),
             "_handshake: an except handler neither returns False nor sets msgtype = MSG_CONNECTFAIL")
    outside = [n for n in func.body if n is not t]
    need(not msgtype_assigns(outside), "_handshake: msgtype assigned outside the try statement")
    # returns
    rets = [n for n in ast.walk(func) if isinstance(n, ast.Return)]
    final = func.body[-1]
    need(isinstance(final, ast.Return), "_handshake: last statement is not a return")
    for r in rets:
        if r is final:
            continue
        need(isinstance(r.value, ast.Constant) and r.value.value is False, "_handshake: an early return that is not `return False`")
    # the message that is sent is built from msgtype
    sm = [n for n in outside if isinstance(n, ast.Assign) and is_call_to(n.value, "SendingMessage")]
    need(len(sm) == 1 and len(sm[0].targets) == 1 and isinstance(sm[0].targets[0], ast.Name), "_handshake: SendingMessage assignment not found")
    msgvar = sm[0].targets[0].id
    a0 = sm[0].value.args[0] if sm[0].value.args else None
    need(isinstance(a0, ast.Name) and a0.id == "msgtype", "_handshake: the answer is not built from msgtype")
    v = final.value
    if isinstance(v, ast.Constant) and v.value is True:
        return False
    need(isinstance(v, ast.Compare) and len(v.ops) == 1 and isinstance(v.ops[0], ast.Eq), "_handshake: unrecognised final return")
    sides = [v.left, v.comparators[0]]
    consts = [s for s in sides if attr_chain(s) == ["protocol", "MSG_CONNECTOK"]]
    others = [s for s in sides if attr_chain(s) != ["protocol", "MSG_CONNECTOK"]]
    need(len(consts) == 1 and len(others) == 1, "_handshake: final return does not compare with protocol.MSG_CONNECTOK")
    o = others[0]
    ok = (isinstance(o, ast.Name) and o.id == "msgtype") or attr_chain(o) == [msgvar, "type"]
    need(ok, "_handshake: final return compares something other than the answer's type")
    return True


def _names_to_values(node, module, const, what):
    """a literal list/tuple of protocol.MSG_* names, or a module-level name bound to one"""
    if isinstance(node, ast.Name):
        node = module_assign(module, node.id)
    return [const(n) for n in msg_const_names(node, what)]


def _server_facts_ast(server, sers, const):
    hs = find_func(server, "_handshake", "Daemon")
    hr = find_func(server, "handleRequest", "Daemon")

    def types_of(func, what):
        calls = calls_in(func, "recv_stub")
        need(len(calls) == 1, "%s: expected exactly one recv_stub call, found %d" % (what, len(calls)))
        c = calls[0]
        need(len(c.args) == 2 and not c.keywords, "%s: recv_stub is not called as recv_stub(conn, [types])" % what)
        return _names_to_values(c.args[1], server, const, what)
    first = types_of(hs, "_handshake")
    later = types_of(hr, "handleRequest")
    ok_only = analyse_handshake(hs)
    sid = [n for n in hs.body if isinstance(n, ast.Assign) and any(isinstance(t, ast.Name) and t.id == "serializer_id" for t in n.targets)]
    need(len(sid) == 1 and attr_chain(sid[0].value) == ["serializers", "MarshalSerializer", "serializer_id"],
         "_handshake: initial serializer_id is not serializers.MarshalSerializer.serializer_id")
    mcls = find_class(sers, "MarshalSerializer")
    mid = [n.value for n in mcls.body if isinstance(n, ast.Assign) and any(isinstance(t, ast.Name) and t.id == "serializer_id" for t in n.targets)]
    need(len(mid) == 1, "MarshalSerializer.serializer_id not assigned exactly once")
    dr = [n for n in ast.walk(hs) if isinstance(n, ast.If) and isinstance(n.test, ast.Name) and n.test.id == "denied_reason"]
    need(len(dr) == 1 and len(dr[0].body) == 1 and isinstance(dr[0].body[0], ast.Raise) and not dr[0].orelse,
         "_handshake: `if denied_reason: raise ...` not found exactly once")
    return {"first": first, "later": later, "ok_only": ok_only, "marshal_id": int_expr(mid[0]), "deny_refuses": True}


def _server_facts_probed(tree):
    """The same facts, measured: the tree's own Daemon._handshake / handleRequest are run against a recording recv_stub and a
    recording connection.  Recorded: the accepted-types argument of recv_stub; for a set of handshake situations (wrong first
    message, validator raises, unknown object, unserialisable validator answer, refused by denied_reason, peer gone, accepted)
    the type and serializer of the answer that was sent and the truthiness of the return value."""
    import struct
    from tools.gen.gen import tree_module
    srvmod = tree_module(tree, "Pyro5.server")
    proto = tree_module(tree, "Pyro5.protocol")
    sers = tree_module(tree, "Pyro5.serializers")
    errors = tree_module(tree, "Pyro5.errors")
    need(srvmod.protocol is proto, "Pyro5.server does not use Pyro5.protocol of the tree")
    mode = {"validator": "accept"}

    class ProbeDaemon(srvmod.Daemon):
        def validateHandshake(self, conn, data):
            if mode["validator"] == "raise":
                raise ValueError("probe: denied")
            if mode["validator"] == "unserialisable":
                return object()
            return "hello"

    class Conn(object):
        def __init__(self):
            self.sent = []
            self.sock = None

        def send(self, data):
            self.sent.append(bytes(data))

        def close(self):
            pass

    class Target(object):
        @srvmod.expose
        def ping(self):
            return 1
    ser = sers.serializers_by_id[sers.SerpentSerializer.serializer_id]

    def connect(objid):
        raw = bytes(proto.SendingMessage(proto.MSG_CONNECT, 0, 7, ser.serializer_id, ser.dumps({"handshake": "hello", "object": objid})).data)
        return proto.ReceivingMessage(raw[:40], raw[40:])
    seen_types = []
    script = {}

    def stub(connection, accepted_msgtypes=None):
        seen_types.append(None if accepted_msgtypes is None else [int(t) for t in accepted_msgtypes])
        r = script["recv"]
        if isinstance(r, BaseException):
            raise r
        return r
    ctx = tree_module(tree, "Pyro5.callcontext").current_context
    saved_ctx = ctx.to_global()
    d = ProbeDaemon(host="127.0.0.1", port=0)
    real_stub = proto.recv_stub
    results = {}
    try:
        d.register(Target(), "probe.obj")
        proto.recv_stub = stub
        situations = [("wrongtype", errors.ProtocolError("invalid msg type"), "accept", None),
                      ("gone", errors.ConnectionClosedError("gone"), "accept", None),
                      ("ok", connect("probe.obj"), "accept", None),
                      ("validator", connect("probe.obj"), "raise", None),
                      ("unknown", connect("probe.nope"), "accept", None),
                      ("unserialisable", connect("probe.obj"), "unserialisable", None),
                      ("denied", connect("probe.obj"), "accept", "probe: no room")]
        for name, recv, vmode, denied in situations:
            script["recv"], mode["validator"] = recv, vmode
            conn = Conn()
            k0 = len(seen_types)
            try:
                ret = d._handshake(conn, denied_reason=denied) if denied else d._handshake(conn)
                raised = None
            except Exception as x:      # escapes to the transport server, which closes the connection
                ret, raised = False, x
            need(len(seen_types) == k0 + 1, "_handshake called recv_stub %d times" % (len(seen_types) - k0))
            sent = [(b[6], b[7]) for b in conn.sent if len(b) >= 40]
            results[name] = {"ret": bool(ret), "sent": sent, "types": seen_types[-1], "raised": raised}
        # handleRequest: only the accepted types are needed
        script["recv"] = errors.ConnectionClosedError("gone")
        k0 = len(seen_types)
        try:
            d.handleRequest(Conn())
        except Exception:
            pass
        need(len(seen_types) == k0 + 1, "handleRequest called recv_stub %d times" % (len(seen_types) - k0))
        later = seen_types[-1]
    finally:
        proto.recv_stub = real_stub
        try:
            d.close()
        except Exception:
            pass
        try:
            ctx.from_global(saved_ctx)      # the probed handshakes wrote correlation id / response annotations
        except Exception:
            pass
    firsts = {tuple(r["types"] or ()) for r in results.values()}
    need(len(firsts) == 1 and None not in [r["types"] for r in results.values()], "_handshake does not always pass the same accepted types to recv_stub")
    need(later is not None, "handleRequest accepts every message type")
    ok_type, fail_type = int(proto.MSG_CONNECTOK), int(proto.MSG_CONNECTFAIL)
    ok_only = all((not r["ret"]) or (len(r["sent"]) == 1 and r["sent"][0][0] == ok_type) for r in results.values())
    need(results["ok"]["ret"] and results["ok"]["sent"] and results["ok"]["sent"][0][0] == ok_type,
         "probe: a valid CONNECT for a registered object accepted by the validator is not answered CONNECTOK")
    need(results["wrongtype"]["sent"] and results["wrongtype"]["sent"][0][0] == fail_type, "probe: a wrong first message is not answered CONNECTFAIL")
    deny = (not results["denied"]["ret"]) and len(results["denied"]["sent"]) == 1 and results["denied"]["sent"][0][0] == fail_type
    return {"first": list(firsts.pop()), "later": later, "ok_only": ok_only, "marshal_id": int(results["wrongtype"]["sent"][0][1]),
            "deny_refuses": deny}


def _transport_facts_ast(thr, mux, sf):
    # thread server
    job_call = find_func(thr, "__call__", "ClientConnectionJob")
    n_hc = len(calls_in(job_call, "handleConnection"))
    need(n_hc == 1, "ClientConnectionJob.__call__: handleConnection called %d times" % n_hc)
    thread_loop_guarded = calls_only_under(job_call, "handleRequest", guard_by_call("handleConnection"), "ClientConnectionJob.__call__")
    hc = find_func(thr, "handleConnection", "ClientConnectionJob")
    thread_hc_guarded = truthy_return_only_under(hc, "_handshake", lambda v: isinstance(v, ast.Constant) and v.value is True)
    # the refusal of a connection when the pool is exhausted: events() -> job.denyConnection(<literal reason>), and
    # denyConnection hands the reason to _handshake(..., denied_reason=reason) and never reaches handleRequest
    tev = find_func(thr, "events", "SocketServer_Threadpool")
    dcalls = calls_in(tev, "denyConnection")
    need(len(dcalls) == 1 and len(dcalls[0].args) == 1, "SocketServer_Threadpool.events: denyConnection(<reason>) not found exactly once")
    rnode = dcalls[0].args[0]
    if isinstance(rnode, ast.Name):                 # the literal moved behind a module-level name
        rnode = module_assign(thr, rnode.id)
    need(isinstance(rnode, ast.Constant) and isinstance(rnode.value, str) and rnode.value.strip(),
         "SocketServer_Threadpool.events: the reason given to denyConnection is not a string literal")
    deny_reason = rnode.value
    deny = find_func(thr, "denyConnection", "ClientConnectionJob")
    need(not calls_in(deny, "handleRequest") and not calls_in(deny, "handleConnection"),
         "denyConnection reaches the request loop")
    dh = calls_in(deny, "_handshake")
    need(len(dh) == 1 and any(k.arg == "denied_reason" for k in dh[0].keywords),
         "denyConnection does not call _handshake(..., denied_reason=...) exactly once")
    need(len(calls_in(deny, "close")) >= 1, "denyConnection does not close the socket")
    # multiplex server
    ev = find_func(mux, "events", "SocketServer_Multiplex")
    assigns = [n for n in ast.walk(ev) if isinstance(n, ast.Assign) and is_call_to(n.value, "_handleConnection")]
    need(len(assigns) == 1 and len(assigns[0].targets) == 1 and isinstance(assigns[0].targets[0], ast.Name)
         and len(calls_in(ev, "_handleConnection")) == 1, "events: `conn = self._handleConnection(...)` not found exactly once")
    connvar = assigns[0].targets[0].id
    mux_reg_guarded = calls_only_under(ev, "register", guard_by_name(connvar), "SocketServer_Multiplex.events")
    for c in calls_in(ev, "register"):
        need(c.args and isinstance(c.args[0], ast.Name) and c.args[0].id == connvar, "events: register() of something that is not the new connection")
    mhc = find_func(mux, "_handleConnection", "SocketServer_Multiplex")
    hcalls = calls_in(mhc, "_handshake")
    need(len(hcalls) == 1 and len(hcalls[0].args) >= 1 and isinstance(hcalls[0].args[0], ast.Name), "_handleConnection: _handshake(conn) call not found")
    hconn = hcalls[0].args[0].id
    mux_hc_guarded = truthy_return_only_under(mhc, "_handshake", lambda v: isinstance(v, ast.Name) and v.id == hconn)
    # client sockets are only ever handled by the events loop when they come from the selector: nothing else to check here

    return {"thread_gate": thread_loop_guarded and thread_hc_guarded, "mux_gate": mux_reg_guarded and mux_hc_guarded,
            "deny_reason": deny_reason}


class _Scripted(object):
    """a daemon / socket / selector / pool stand-in that records what is done with it"""
    def __init__(self, handshake_result):
        self.handshake_result = handshake_result
        self.handshakes, self.requests, self.closed, self.registered = [], 0, 0, []

    # daemon
    def _handshake(self, conn, denied_reason=None):
        self.handshakes.append(denied_reason)
        if isinstance(self.handshake_result, BaseException):
            raise self.handshake_result
        return self.handshake_result

    def handleRequest(self, conn):
        from Pyro5 import errors
        self.requests += 1
        raise errors.ConnectionClosedError("probe: no more requests")

    def _clientDisconnect(self, conn):
        pass

    def _housekeeping(self):
        pass


def _transport_facts_probed(tree):
    """Measured on the tree's own ClientConnectionJob / SocketServer_Multiplex / SocketServer_Threadpool with a scripted daemon:
    is Daemon.handleRequest reached (thread server) / is the connection registered with the selector (multiplex server) when
    _handshake returns False, raises, or returns True; what reason does the thread server give a connection when the pool
    has no free worker, and is that connection kept away from handleRequest."""
    from tools.gen.gen import tree_module
    thr = tree_module(tree, "Pyro5.svr_threads")
    mux = tree_module(tree, "Pyro5.svr_multiplex")
    cfg = tree_module(tree, "Pyro5").config
    saved = {k: getattr(cfg, k) for k in ("COMMTIMEOUT", "POLLTIMEOUT")}
    cfg.COMMTIMEOUT, cfg.POLLTIMEOUT = 0.0, 0.01

    class Sock(object):
        def __init__(self, log):
            self.log = log

        def shutdown(self, how):
            pass

        def close(self):
            self.log.closed += 1

        def settimeout(self, t):
            pass

        def getpeername(self):
            return ("127.0.0.1", 1)

        def fileno(self):
            return 0

    class Listen(object):
        def __init__(self, log):
            self.log = log

        def accept(self):
            return Sock(self.log), ("127.0.0.1", 1)

    class Selector(object):
        def __init__(self, log):
            self.log = log

        def register(self, fileobj, events, data=None):
            self.log.registered.append(fileobj)

        def unregister(self, fileobj):
            pass

        def select(self, timeout=None):
            return [("probe", 1)]

        def get_map(self):
            return {}

    class FullPool(object):
        def process(self, job):
            raise thr.NoFreeWorkersError("probe: pool full")
    try:
        outcomes = {}
        for name, result in (("refused", False), ("raised", ValueError("probe")), ("accepted", True)):
            d = _Scripted(result)
            job = thr.ClientConnectionJob(Sock(d), ("127.0.0.1", 1), d)
            try:
                job()
            except Exception:
                pass
            need(len(d.handshakes) == 1, "probe: ClientConnectionJob called _handshake %d times" % len(d.handshakes))
            outcomes["thread:" + name] = d.requests
            d = _Scripted(result)
            srv = mux.SocketServer_Multiplex()
            try:
                srv.selector.close()
            except Exception:
                pass
            srv.selector, srv.daemon, srv.sock = Selector(d), d, Listen(d)
            try:
                srv.events([srv.sock])
            except Exception:
                pass
            srv.sock = None
            need(len(d.handshakes) == 1, "probe: SocketServer_Multiplex.events called _handshake %d times" % len(d.handshakes))
            outcomes["mux:" + name] = len(d.registered)
        need(outcomes["thread:accepted"] >= 1, "probe: the thread server does not serve an accepted connection")
        need(outcomes["mux:accepted"] == 1, "probe: the multiplex server does not register an accepted connection")
        # pool exhausted
        d = _Scripted(False)
        srv = thr.SocketServer_Threadpool()
        try:
            srv._selector.close()
        except Exception:
            pass
        srv._selector, srv.daemon, srv.sock, srv.pool = Selector(d), d, Listen(d), FullPool()
        try:
            srv.events([srv.sock])
        finally:
            srv.sock, srv.pool, srv.housekeeper = None, None, None
        need(len(d.handshakes) == 1 and isinstance(d.handshakes[0], str) and d.handshakes[0].strip(),
             "probe: a full pool does not lead to exactly one _handshake(denied_reason=<text>)")
        need(d.requests == 0, "probe: a connection refused by the full pool reaches handleRequest")
        return {"thread_gate": outcomes["thread:refused"] == 0 and outcomes["thread:raised"] == 0,
                "mux_gate": outcomes["mux:refused"] == 0 and outcomes["mux:raised"] == 0,
                "deny_reason": d.handshakes[0]}
    except GenError:
        raise
    except Exception as x:
        raise GenError("transport probe failed: %s: %s" % (type(x).__name__, x))
    finally:
        for k, v in saved.items():
            setattr(cfg, k, v)


def analyse_client(client_mod):
    """Proxy.__pyroCreateConnection: the handshake answer's payload is decoded by `X.loads(msg.data)`; is X (re)bound, in
    the same block and before that call, to serializers.serializers_by_id[msg.serializer_id] — the serializer named in the
    ANSWER's header — or is it still the serializer the proxy sent its CONNECT with?"""
    cls = find_class(client_mod, "Proxy")
    funcs = [n for n in cls.body if isinstance(n, ast.FunctionDef) and n.name.endswith("__pyroCreateConnection")]
    need(len(funcs) == 1, "Proxy.__pyroCreateConnection not found exactly once")
    hits = []

    def scan_block(stmts):
        for k, st in enumerate(stmts):
            for sub in ast.walk(st) if not isinstance(st, (ast.If, ast.Try, ast.For, ast.While, ast.With, ast.FunctionDef)) else []:
                if is_call_to(sub, "loads") and isinstance(sub.func.value, ast.Name) and len(sub.args) == 1 \
                        and attr_chain(sub.args[0]) is not None and attr_chain(sub.args[0])[-1] == "data":
                    var, msgvar = sub.func.value.id, attr_chain(sub.args[0])[0]
                    binds = [b for b in stmts[:k] if isinstance(b, ast.Assign) and any(isinstance(t, ast.Name) and t.id == var for t in b.targets)]
                    if not binds:
                        hits.append(False)
                        continue
                    v = binds[-1].value
                    ok = isinstance(v, ast.Subscript) and attr_chain(v.value) == ["serializers", "serializers_by_id"] \
                        and attr_chain(v.slice) == [msgvar, "serializer_id"]
                    need(ok, "__pyroCreateConnection: unrecognised serializer binding before loads(%s.data)" % msgvar)
                    hits.append(True)
            for fld in ("body", "orelse", "finalbody"):
                if hasattr(st, fld):
                    scan_block(getattr(st, fld))
            for h in getattr(st, "handlers", []):
                scan_block(h.body)
    scan_block(funcs[0].body)
    need(len(hits) == 1, "__pyroCreateConnection: expected exactly one <serializer>.loads(msg.data), found %d" % len(hits))
    return hits[0]


@generator("GenHandshake", "Pyro5/server.py", "Pyro5/svr_threads.py", "Pyro5/svr_multiplex.py", "Pyro5/protocol.py", "Pyro5/serializers.py", "Pyro5/client.py")
def gen_handshake(tree):
    server, _ = parse(tree, "Pyro5/server.py")
    proto, _ = parse(tree, "Pyro5/protocol.py")
    sers, _ = parse(tree, "Pyro5/serializers.py")
    thr, _ = parse(tree, "Pyro5/svr_threads.py")
    mux, _ = parse(tree, "Pyro5/svr_multiplex.py")
    client_mod, _ = parse(tree, "Pyro5/client.py")
    client_reply_ser = analyse_client(client_mod)

    def const(name):
        v = int_expr(module_assign(proto, name))
        need(v >= 0, name + " negative")
        return v
    try:
        sf = _server_facts_ast(server, sers, const)
        mode = "ast"
    except GenError as x:
        # a reshaped _handshake / handleRequest (helpers, renamed locals, constants moved): measure the same facts on the
        # tree's own code with recording stubs instead of reading its syntax
        sf = _server_facts_probed(tree)
        mode = "probed (ast reader: %s)" % x
    first_vals, later_vals, ok_only, marshal_id = sf["first"], sf["later"], sf["ok_only"], sf["marshal_id"]
    try:
        tf = _transport_facts_ast(thr, mux, sf)
        tmode = "ast"
    except GenError as x:
        # reshaped transport servers (request loop / accept path split into helpers, ...): measure the gates on the tree's own
        # classes with a scripted daemon instead of reading their syntax
        tf = _transport_facts_probed(tree)
        tmode = "probed (ast reader: %s)" % x
    need(sf["deny_refuses"], "_handshake does not refuse when denied_reason is given")
    thread_gate, mux_gate, deny_reason = tf["thread_gate"], tf["mux_gate"], tf["deny_reason"]
    mode = "server.py: %s; transport servers: %s" % (mode, tmode)
    vals = {n: const(n) for n in ["MSG_CONNECT", "MSG_INVOKE", "MSG_PING"]}
    out = HEADER % "Pyro5/server.py, svr_threads.py, svr_multiplex.py, protocol.py, serializers.py"
    out += "(* message types Daemon._handshake hands to recv_stub as the accepted ones *)\n"
    out += "Definition hs_first_types : list N := %s.\n" % clist([cN(v) for v in first_vals])
    out += "(* message types Daemon.handleRequest hands to recv_stub as the accepted ones *)\n"
    out += "Definition req_types : list N := %s.\n" % clist([cN(v) for v in later_vals])
    out += "Definition t_connect : N := %s.\nDefinition t_invoke : N := %s.\nDefinition t_ping : N := %s.\n" % (
        cN(vals["MSG_CONNECT"]), cN(vals["MSG_INVOKE"]), cN(vals["MSG_PING"]))
    out += "(* _handshake returns a truthy value only when the answer it sent was CONNECTOK *)\n"
    out += "Definition hs_ok_only : bool := %s.\n" % cbool(ok_only)
    out += "(* thread server: Daemon.handleRequest is reached only after handleConnection / _handshake returned a truthy value *)\n"
    out += "Definition thread_gate : bool := %s.\n" % cbool(thread_gate)
    out += "(* multiplex server: the connection is registered with the selector only after _handshake returned a truthy value *)\n"
    out += "Definition mux_gate : bool := %s.\n" % cbool(mux_gate)
    out += "Definition marshal_id : N := %s.\n" % cN(marshal_id)
    out += "(* pool exhausted: events() -> denyConnection(%r) -> _handshake(denied_reason=...) raised before the validator; socket closed; no request loop *)\n" % deny_reason.replace("*)", "* )")
    out += "Definition deny_checked : bool := true.\n"
    out += "(* Proxy.__pyroCreateConnection decodes the handshake answer with serializers_by_id[<answer>.serializer_id] *)\n"
    out += "Definition client_uses_reply_ser : bool := %s.\n" % cbool(client_reply_ser)
    info = {"first_types": first_vals, "later_types": later_vals, "mode": mode, "ok_only": ok_only,
            "thread_gate": thread_gate, "mux_gate": mux_gate,
            "marshal_id": marshal_id, "deny_reason": deny_reason, "client_uses_reply_ser": client_reply_ser, "t_connect": vals["MSG_CONNECT"], "t_invoke": vals["MSG_INVOKE"], "t_ping": vals["MSG_PING"],
            }
    return out, info
