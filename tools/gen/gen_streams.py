"""GenStreams (C10): the comparisons that decide lifetime / linger expiry of item streams in
Daemon._housekeeping and the linger test of Daemon._clientDisconnect (Pyro5/server.py), and the ITER_* defaults
(Pyro5/configure.py), and the except-clauses of _StreamResultIterator.__next__ (Pyro5/client.py: which exception
classes make the client iterator drop its proxy reference).  Anything not of the recognised shape fails closed.

Recognised:
  <period> = time.time() - info[K]             (K = 1 creation stamp, K = 2 linger stamp; also written inline)
  lifetime expiry:  LIFETIME (<|<=) <period>  or  <period> (>|>=) LIFETIME      (possibly inside a chain 0 < LIFETIME < p)
  linger expiry:    <period> (>|>=) LINGER    or  LINGER (<|<=) <period>
  guards:           config.X > 0  |  0 < config.X
Tolerated refactorings: the comparisons / loops may live in private helper methods or module functions that the anchored
method calls (followed two levels deep); locals may have any name (`age = time.time() - entry[1]`, `now = time.time()`,
`limit = config.ITER_STREAM_LINGER`, `flag = config.X > 0`, `_, created, since, _ = entry`); logging calls, `pass` and
the text of messages are ignored; `except X as name` is accepted.  The ITER_* defaults fall back to importing
Pyro5.configure from the tree under test when Configuration.reset is not a list of literal assignments.
"""
import ast
from tools.gen.gen import generator, parse, find_func, find_class, need, GenError, HEADER, cN, cbool, ast_sha, tree_module


def cfg_attr(node, assigns=None):
    """config.NAME -> NAME (also through a local assigned exactly once to config.NAME)"""
    if isinstance(node, ast.Attribute) and isinstance(node.value, ast.Name) and node.value.id == "config":
        return node.attr
    if assigns is not None and isinstance(node, ast.Name) and len(assigns.get(node.id, [])) == 1:
        v = assigns[node.id][0]
        if isinstance(v, ast.Attribute) and isinstance(v.value, ast.Name) and v.value.id == "config":
            return v.attr
    return None


def is_zero(node):
    return isinstance(node, ast.Constant) and not isinstance(node.value, bool) and node.value in (0, 0.0)


def is_clock(node):
    return isinstance(node, ast.Call) and isinstance(node.func, ast.Attribute) and node.func.attr == "time" \
        and isinstance(node.func.value, ast.Name) and node.func.value.id == "time" and not node.args and not node.keywords


def collect_assigns(func):
    """name -> list of value nodes; a name bound by tuple unpacking `a, b, c = <Name>` gets ("unpack", index)"""
    assigns = {}
    for n in ast.walk(func):
        if isinstance(n, ast.Assign) and len(n.targets) == 1:
            t = n.targets[0]
            if isinstance(t, ast.Name):
                assigns.setdefault(t.id, []).append(n.value)
            elif isinstance(t, (ast.Tuple, ast.List)) and isinstance(n.value, ast.Name):
                for i, e in enumerate(t.elts):
                    if isinstance(e, ast.Name):
                        assigns.setdefault(e.id, []).append(("unpack", i))
    return assigns


def period_field(node, assigns):
    """`time.time() - <entry>[K]` (or a name assigned exactly that, exactly once; the clock value and the stamp may be
    locals: `now = time.time()`, `_, created, since, _ = entry`) -> K"""
    if isinstance(node, ast.Name):
        need(node.id in assigns and len(assigns[node.id]) == 1, "period variable %s is not assigned exactly once" % node.id)
        node = assigns[node.id][0]
    need(isinstance(node, ast.BinOp) and isinstance(node.op, ast.Sub), "expiry period is not `time.time() - <entry>[K]`")
    l, r = node.left, node.right
    if isinstance(l, ast.Name):      # now = time.time() taken once
        need(l.id in assigns and len(assigns[l.id]) == 1, "clock variable %s is not assigned exactly once" % l.id)
        l = assigns[l.id][0]
    need(is_clock(l), "expiry period does not start from time.time()")
    if isinstance(r, ast.Name):
        need(len(assigns.get(r.id, [])) == 1, "stamp variable %s is not assigned exactly once" % r.id)
        v = assigns[r.id][0]
        if isinstance(v, tuple) and v[0] == "unpack":
            return v[1]
        r = v
    need(isinstance(r, ast.Subscript) and isinstance(r.value, ast.Name), "expiry period does not subtract <entry>[K]")
    idx = r.slice
    need(isinstance(idx, ast.Constant) and isinstance(idx.value, int) and not isinstance(idx.value, bool), "<entry>[...] index is not an integer literal")
    return idx.value


def helper_closure(mod, clsname, func, depth=2):
    """func plus the private helpers it calls (self.<method>() of the same class, module-level functions), `depth` levels deep"""
    cls = find_class(mod, clsname)
    methods = {n.name: n for n in cls.body if isinstance(n, (ast.FunctionDef, ast.AsyncFunctionDef))}
    functions = {n.name: n for n in mod.body if isinstance(n, (ast.FunctionDef, ast.AsyncFunctionDef))}
    seen, frontier = [func], [func]
    for _ in range(depth):
        nxt = []
        for f in frontier:
            for n in ast.walk(f):
                if not isinstance(n, ast.Call):
                    continue
                tgt = None
                if isinstance(n.func, ast.Attribute) and isinstance(n.func.value, ast.Name) and n.func.value.id == "self":
                    tgt = methods.get(n.func.attr)
                elif isinstance(n.func, ast.Name):
                    tgt = functions.get(n.func.id)
                if tgt is not None and all(tgt is not x for x in seen):
                    seen.append(tgt)
                    nxt.append(tgt)
        frontier = nxt
    return seen


def pairs(cmp_):
    """a (possibly chained) comparison as a list of (left, op, right)"""
    out, left = [], cmp_.left
    for op, right in zip(cmp_.ops, cmp_.comparators):
        out.append((left, op, right))
        left = right
    return out


def analyse(funcs, names):
    """all comparisons in the functions that mention config.<one of names> (directly or through a local):
       returns {name: {"guards": n_positive_guards, "expiry": [(strict, K)]}}"""
    res = {nm: {"guards": 0, "expiry": []} for nm in names}
    for func in funcs:
        assigns = collect_assigns(func)
        for n in ast.walk(func):
            if not isinstance(n, ast.Compare):
                continue
            for left, op, right in pairs(n):
                la, ra = cfg_attr(left, assigns), cfg_attr(right, assigns)
                if la not in names and ra not in names:
                    continue
                need(not (la in names and ra in names), "comparison between two configuration items")
                name = la if la in names else ra
                other = right if la in names else left
                if is_zero(other):
                    ok = (la in names and isinstance(op, ast.Gt)) or (ra in names and isinstance(op, ast.Lt))
                    need(ok, "guard on %s is not `%s > 0`" % (name, name))
                    res[name]["guards"] += 1
                    continue
                k = period_field(other, assigns)
                if la in names:      # LIMIT op period
                    need(isinstance(op, (ast.Lt, ast.LtE)), "expiry test on %s has the wrong direction or operator" % name)
                    strict = isinstance(op, ast.Lt)
                else:                # period op LIMIT
                    need(isinstance(op, (ast.Gt, ast.GtE)), "expiry test on %s has the wrong direction or operator" % name)
                    strict = isinstance(op, ast.Gt)
                res[name]["expiry"].append((strict, k))
    return res


def is_logging(st):
    """a statement without effect on the property: a logging call, `pass`, a bare string"""
    if isinstance(st, ast.Pass):
        return True
    if isinstance(st, ast.Expr) and isinstance(st.value, ast.Constant):
        return True
    if isinstance(st, ast.Expr) and isinstance(st.value, ast.Call):
        f = st.value.func
        while isinstance(f, ast.Attribute):
            f = f.value
        return isinstance(f, ast.Name) and f.id in ("log", "logger", "logging", "warnings")
    return False


COMM_CLASSES = {"CommunicationError", "ConnectionClosedError", "TimeoutError", "ProtocolError", "MessageTooLargeError"}


def next_drop_policy(func):
    """_StreamResultIterator.__next__: which exception classes make it drop its proxy reference.
    Recognised: the `..._pyroInvoke("get_next_stream_item", ...)` call sits directly in the body of at most one
    `try`; every handler is `except <classes>: [self.proxy = None] raise` (bare re-raise, nothing swallowed)."""
    calls = [n for n in ast.walk(func) if isinstance(n, ast.Call) and isinstance(n.func, ast.Attribute) and n.func.attr == "_pyroInvoke"
             and n.args and isinstance(n.args[0], ast.Constant) and n.args[0].value == "get_next_stream_item"]
    need(len(calls) == 1, "__next__ does not call _pyroInvoke(\"get_next_stream_item\", ...) exactly once")
    tries = [t for t in ast.walk(func) if isinstance(t, ast.Try) and any(calls[0] is n for st in t.body for n in ast.walk(st))]
    need(len(tries) <= 1, "the get_next_stream_item call is nested in several try statements")
    pol = {"stop": False, "raised": False, "error": False, "comm": False}
    names = []
    if not tries:
        return pol, names
    t = tries[0]
    need(not t.finalbody and not t.orelse, "unrecognised try/else/finally around the get_next_stream_item call")
    for h in t.handlers:
        body = list(h.body)
        need(body and isinstance(body[-1], ast.Raise) and body[-1].exc is None, "an except-clause of __next__ does not end in a bare raise")
        drops = False
        for st in body[:-1]:
            if is_logging(st):
                continue
            ok = isinstance(st, ast.Assign) and len(st.targets) == 1 and isinstance(st.targets[0], ast.Attribute) \
                and isinstance(st.targets[0].value, ast.Name) and st.targets[0].value.id == "self" and st.targets[0].attr == "proxy" \
                and isinstance(st.value, ast.Constant) and st.value.value is None
            need(ok, "unrecognised statement in an except-clause of __next__")
            drops = True
        if not drops:
            continue
        if h.type is None:
            classes = ["BaseException"]
        elif isinstance(h.type, ast.Tuple):
            classes = [e.attr if isinstance(e, ast.Attribute) else getattr(e, "id", None) for e in h.type.elts]
        else:
            classes = [h.type.attr if isinstance(h.type, ast.Attribute) else getattr(h.type, "id", None)]
        for c in classes:
            need(isinstance(c, str), "unrecognised exception class expression in __next__")
            names.append(c)
            if c == "StopIteration":
                pol["stop"] = True
            elif c == "GeneratorExit":
                pass
            elif c in ("Exception", "BaseException"):
                pol.update(stop=True, raised=True, error=True, comm=True)
            elif c == "PyroError":
                pol.update(error=True, comm=True)
            elif c in COMM_CLASSES:
                pol["comm"] = True
            else:
                import builtins
                need(isinstance(getattr(builtins, c, None), type) and issubclass(getattr(builtins, c), BaseException),
                     "unknown exception class %s in __next__" % c)
                if issubclass(getattr(builtins, c), Exception):
                    pol["raised"] = True   # a builtin error class: errors raised by the remote iterator
                # KeyboardInterrupt / SystemExit: never produced by the remote iterator, nothing to model
    return pol, names


def is_table(node):
    return isinstance(node, ast.Attribute) and node.attr == "streaming_responses"


def disconnect_rereads(funcs):
    """_clientDisconnect: is every *assignment* `self.streaming_responses[k] = ...` inside a loop accompanied, in the
    same loop body, by a re-read of that entry (`.get(k ...)`, `[k]` load, `k in ...`)?  (Writing an entry back from a
    snapshot taken before the loop would resurrect a stream another thread removed meanwhile; deletions cannot.)"""
    ok = True
    for loop in [n for func in funcs for n in ast.walk(func) if isinstance(n, (ast.For, ast.While))]:
        body_nodes = [n for st in loop.body for n in ast.walk(st)]
        for n in body_nodes:
            if isinstance(n, ast.Assign):
                for tg in n.targets:
                    if isinstance(tg, ast.Subscript) and is_table(tg.value):
                        need(isinstance(tg.slice, ast.Name), "_clientDisconnect writes a stream table entry with a computed key")
                        k = tg.slice.id
                        reread = False
                        for m in body_nodes:
                            if isinstance(m, ast.Call) and isinstance(m.func, ast.Attribute) and m.func.attr == "get" and is_table(m.func.value) \
                                    and m.args and isinstance(m.args[0], ast.Name) and m.args[0].id == k:
                                reread = True
                            if isinstance(m, ast.Subscript) and is_table(m.value) and isinstance(m.ctx, ast.Load) \
                                    and isinstance(m.slice, ast.Name) and m.slice.id == k:
                                reread = True
                            if isinstance(m, ast.Compare) and isinstance(m.left, ast.Name) and m.left.id == k and len(m.ops) == 1 \
                                    and isinstance(m.ops[0], ast.In) and is_table(m.comparators[0]):
                                reread = True
                        ok = ok and reread
    # an assignment outside any loop cannot be a per-stream write
    return ok


ITER_KEYS = ("ITER_STREAMING", "ITER_STREAM_LIFETIME", "ITER_STREAM_LINGER")


def defaults_ast(tree):
    cfgmod, _ = parse(tree, "Pyro5/configure.py")
    reset = find_func(cfgmod, "reset", "Configuration")
    defaults = {}
    for st in reset.body:
        if isinstance(st, ast.Assign) and len(st.targets) == 1 and isinstance(st.targets[0], ast.Attribute) \
                and isinstance(st.targets[0].value, ast.Name) and st.targets[0].value.id == "self" \
                and st.targets[0].attr in ITER_KEYS:
            need(st.targets[0].attr not in defaults, "default of %s assigned twice" % st.targets[0].attr)
            need(isinstance(st.value, ast.Constant), "default of %s is not a literal" % st.targets[0].attr)
            defaults[st.targets[0].attr] = st.value.value
    need(len(defaults) == 3, "ITER_* defaults not found in Configuration.reset")
    return defaults


def defaults_evaluated(tree):
    """second reader: the defaults as Configuration.reset(use_environment=False) sets them in the tree under test"""
    m = tree_module(tree, "Pyro5.configure")
    c = m.Configuration.__new__(m.Configuration)
    c.reset(use_environment=False)
    return {k: getattr(c, k) for k in ITER_KEYS}


@generator("GenStreams", "Pyro5/server.py", "Pyro5/configure.py", "Pyro5/client.py")
def gen_streams(tree):
    mod, _ = parse(tree, "Pyro5/server.py")
    hk = find_func(mod, "_housekeeping", "Daemon")
    cd = find_func(mod, "_clientDisconnect", "Daemon")
    nxt = find_func(mod, "get_next_stream_item", "DaemonObject")
    cls = find_func(mod, "close_stream", "DaemonObject")
    names = ("ITER_STREAM_LIFETIME", "ITER_STREAM_LINGER")
    a = analyse(helper_closure(mod, "Daemon", hk), names)
    life, ling = a["ITER_STREAM_LIFETIME"], a["ITER_STREAM_LINGER"]
    need(len(life["expiry"]) == 1, "expected exactly one lifetime expiry comparison in _housekeeping, found %d" % len(life["expiry"]))
    need(len(ling["expiry"]) == 1, "expected exactly one linger expiry comparison in _housekeeping, found %d" % len(ling["expiry"]))
    need(life["guards"] >= 1, "_housekeeping has no `ITER_STREAM_LIFETIME > 0` guard (0 must mean: no limit)")
    need(ling["guards"] >= 1, "_housekeeping has no `ITER_STREAM_LINGER > 0` guard")
    need(life["expiry"][0][1] == 1, "lifetime is not measured from the creation stamp info[1]")
    need(ling["expiry"][0][1] == 2, "linger is not measured from the linger stamp info[2]")
    cd_funcs = helper_closure(mod, "Daemon", cd)
    b = analyse(cd_funcs, ("ITER_STREAM_LINGER",))["ITER_STREAM_LINGER"]
    need(b["guards"] >= 1 and not b["expiry"], "_clientDisconnect does not branch on `ITER_STREAM_LINGER > 0`")
    # defaults: ast reader first, evaluated by Python itself as the second reader
    mode = "ast"
    try:
        defaults = defaults_ast(tree)
    except GenError:
        defaults = defaults_evaluated(tree)
        mode = "evaluated"
    need(isinstance(defaults["ITER_STREAMING"], bool), "ITER_STREAMING default is not a bool")
    for k in ("ITER_STREAM_LIFETIME", "ITER_STREAM_LINGER"):
        v = defaults[k]
        need(isinstance(v, (int, float)) and not isinstance(v, bool) and v >= 0 and v == int(v),
             "%s default %r is not a non-negative whole number of seconds" % (k, v))
    cmod, _ = parse(tree, "Pyro5/client.py")
    nx = find_func(cmod, "__next__", "_StreamResultIterator")
    pol, polnames = next_drop_policy(nx)
    out = HEADER % "Pyro5/server.py, Pyro5/configure.py, Pyro5/client.py"
    out += "(* _housekeeping: a stream is past its lifetime when  LIFETIME %s now - created   (true = strict) *)\n" % ("<" if life["expiry"][0][0] else "<=")
    out += "Definition gen_lifetime_strict : bool := %s.\n" % cbool(life["expiry"][0][0])
    out += "(* _housekeeping: a lingering stream is dropped when  now - linger_since %s LINGER *)\n" % (">" if ling["expiry"][0][0] else ">=")
    out += "Definition gen_linger_strict : bool := %s.\n" % cbool(ling["expiry"][0][0])
    out += "(* which field of the table entry each period is measured from (1 = creation stamp, 2 = linger stamp) *)\n"
    out += "Definition gen_lifetime_field : N := %s.\nDefinition gen_linger_field : N := %s.\n" % (cN(life["expiry"][0][1]), cN(ling["expiry"][0][1]))
    out += "(* Configuration.reset defaults; times in whole seconds *)\n"
    out += "Definition default_streaming : bool := %s.\n" % cbool(defaults["ITER_STREAMING"])
    out += "Definition default_lifetime : N := %s.\n" % cN(int(defaults["ITER_STREAM_LIFETIME"]))
    out += "Definition default_linger : N := %s.\n" % cN(int(defaults["ITER_STREAM_LINGER"]))
    rr = disconnect_rereads(cd_funcs)
    out += "(* _clientDisconnect re-reads every stream table entry it writes back, inside the loop iteration that writes it *)\n"
    out += "Definition gen_disconnect_rereads : bool := %s.\n" % cbool(rr)
    out += "(* _StreamResultIterator.__next__ drops its proxy reference (ends for good) on: %s *)\n" % (", ".join(polnames) or "nothing")
    out += "Definition gen_drop_stop : bool := %s.    (* StopIteration *)\n" % cbool(pol["stop"])
    out += "Definition gen_drop_raised : bool := %s.  (* an error raised by the remote iterator *)\n" % cbool(pol["raised"])
    out += "Definition gen_drop_error : bool := %s.   (* PyroError 'item stream terminated' *)\n" % cbool(pol["error"])
    out += "Definition gen_drop_comm : bool := %s.    (* CommunicationError (connection lost, timeout) *)\n" % cbool(pol["comm"])
    return out, {"mode": mode, "next_policy": pol, "next_classes": polnames, "lifetime_strict": life["expiry"][0][0], "linger_strict": ling["expiry"][0][0], "defaults": defaults,
                 "ast_sha": {"_housekeeping": ast_sha(hk), "_clientDisconnect": ast_sha(cd), "get_next_stream_item": ast_sha(nxt),
                             "close_stream": ast_sha(cls), "__next__": ast_sha(nx)}}
