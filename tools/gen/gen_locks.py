"""GenLocks: which shared accesses of NameServer / Pool / Daemon._getInstance lie inside which lock region."""
import ast
from tools.gen.gen import generator, parse, find_class, find_func, module_assign, need, GenError, HEADER, clist, cN, ctext, cbool, ast_sha


def is_self_attr(node, attr):
    return isinstance(node, ast.Attribute) and isinstance(node.value, ast.Name) and node.value.id == "self" and node.attr == attr


def lock_facts(func, lock_attr, shared_attrs, sibling_methods, helpers=None):
    """Walk a method body. Returns dict(accesses=[(what, inside)], regions=n, unknown_with=[...]).
    Calls of other methods of the class (`helpers`: name -> FunctionDef, the public operations excluded) are followed:
    the helper's body is analysed as if it stood at the call.  A nested function or lambda is accepted when its body
    touches neither the shared attributes, the lock nor another method (a predicate, a key function)."""
    accesses, regions = [], [0]
    helpers = helpers or {}

    def pure(node):
        for sub in ast.walk(node):
            if isinstance(sub, ast.Attribute) and isinstance(sub.value, ast.Name) and sub.value.id == "self" \
                    and (sub.attr in shared_attrs or sub.attr == lock_attr or sub.attr in helpers or sub.attr in sibling_methods):
                return False
        return True

    def walk(node, depth, stack):
        if isinstance(node, (ast.FunctionDef, ast.AsyncFunctionDef, ast.Lambda)) and node is not func:
            if not pure(node):
                raise GenError("nested function in %s touches shared state: lock coverage not analysable" % func.name)
            return
        if isinstance(node, ast.With):
            locks = [it for it in node.items if is_self_attr(it.context_expr, lock_attr)]
            if locks:
                need(len(node.items) == 1 and node.items[0].optional_vars is None, "unrecognised with-statement on the lock")
                if depth == 0:
                    regions[0] += 1
                for st in node.body:
                    walk(st, depth + 1, stack)
                return
        if isinstance(node, ast.Attribute) and isinstance(node.value, ast.Name) and node.value.id == "self":
            if node.attr in shared_attrs:
                accesses.append((node.attr, depth > 0, node.lineno))
            elif node.attr == lock_attr:
                raise GenError("use of self.%s outside a with-statement in %s" % (lock_attr, func.name))
            elif node.attr in helpers and not isinstance(getattr(node, "_called", None), bool):
                # a bound helper method passed around as a value: where it runs is not known
                raise GenError("helper method self.%s used as a value in %s" % (node.attr, func.name))
        if isinstance(node, ast.Call) and isinstance(node.func, ast.Attribute) and isinstance(node.func.value, ast.Name) \
                and node.func.value.id == "self":
            if node.func.attr in sibling_methods:
                accesses.append(("call:" + node.func.attr, depth > 0, node.lineno))
            elif node.func.attr in helpers:
                need(node.func.attr not in stack and len(stack) < 4, "recursive or too deeply nested helper calls in %s" % func.name)
                node.func._called = True
                before = regions[0]
                for st in helpers[node.func.attr].body:
                    walk(st, depth, stack + [node.func.attr])
                if depth > 0:
                    regions[0] = before      # a (re-entrant) region opened by a helper that runs inside a region is not a new one
        for ch in ast.iter_child_nodes(node):
            walk(ch, depth, stack)
    for st in func.body:
        walk(st, 0, [])
    fully = all(inside for _, inside, _ in accesses) and regions[0] <= 1
    return {"accesses": accesses, "regions": regions[0], "fully_locked": fully}


NS_METHODS = ["count", "lookup", "register", "set_metadata", "remove", "list", "yplookup"]


@generator("GenLocks", "Pyro5/nameserver.py", "Pyro5/core.py")
def gen_locks(tree):
    mod, _ = parse(tree, "Pyro5/nameserver.py")
    cls = find_class(mod, "NameServer")
    # the lock must be a re-entrant lock created in __init__
    init = find_func(mod, "__init__", "NameServer")
    rl = [n for n in ast.walk(init) if isinstance(n, ast.Assign) and len(n.targets) == 1 and is_self_attr(n.targets[0], "lock")]
    need(len(rl) == 1 and isinstance(rl[0].value, ast.Call) and isinstance(rl[0].value.func, ast.Attribute)
         and rl[0].value.func.attr == "RLock", "NameServer.lock is not created as threading.RLock() in __init__")
    facts = {}
    for m in NS_METHODS:
        f = find_func(mod, m, "NameServer")
        helpers = {n.name: n for n in cls.body if isinstance(n, (ast.FunctionDef, ast.AsyncFunctionDef))
                   and n.name not in NS_METHODS and n.name != "__init__"}
        facts[m] = lock_facts(f, "lock", {"storage"}, set(NS_METHODS), helpers)
    core, _ = parse(tree, "Pyro5/core.py")
    nsname = module_assign(core, "NAMESERVER_NAME")
    need(isinstance(nsname, ast.Constant) and isinstance(nsname.value, str), "NAMESERVER_NAME is not a string literal")
    out = HEADER % "Pyro5/nameserver.py, Pyro5/core.py"
    out += "Definition ns_name : list N := %s.   (* %s *)\n" % (ctext(nsname.value), nsname.value)
    out += "(* per NameServer method: does every access of self.storage (and every call of a sibling method) lie inside\n"
    out += "   one single outermost `with self.lock:` region? *)\n"
    for m in NS_METHODS:
        fa = facts[m]
        out += "(* %s: regions=%d accesses=%s *)\n" % (m, fa["regions"], ["%s@%d:%s" % (w, ln, "in" if i else "OUT") for w, i, ln in fa["accesses"]])
        out += "Definition ns_%s_fully_locked : bool := %s.\n" % (m, cbool(fa["fully_locked"]))
    out += "Definition ns_all_locked : bool := %s.\n" % " && ".join("ns_%s_fully_locked" % m for m in NS_METHODS)
    return out, {"ns": {m: {"fully_locked": facts[m]["fully_locked"], "regions": facts[m]["regions"],
                            "accesses": [(w, i) for w, i, _ in facts[m]["accesses"]]} for m in NS_METHODS},
                 "ns_name": nsname.value,
                 "ast_sha": {m: ast_sha(find_func(mod, m, "NameServer")) for m in NS_METHODS}}
