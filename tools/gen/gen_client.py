"""GenClient (C03): the facts about Pyro5/client.py that the ClientProto proofs rely on.

  * the sequence mask in `self._pyroSeq = (self._pyroSeq + 1) & <mask>` (in _pyroInvoke)
  * the try-statement around send / recv_stub in _pyroInvoke has a handler for errors.CommunicationError
    whose body calls self._pyroRelease() and re-raises                       -> release_on_comm_error
  * self.__pyroCheckSequence(msg.seq) is called after recv_stub and before the reply data is used or
    anything is returned, and __pyroCheckSequence raises a ProtocolError when seq != self._pyroSeq
                                                                             -> seqcheck_before_use
  * oneway: `if flags & protocol.FLAGS_ONEWAY: return None` sits before the recv_stub call
  * _RemoteMethod.__call__: `for attempt in range(self.__max_retries + 1)`, one handler, the caught
    exception classes, `if attempt >= self.__max_retries: raise`
A shape that is not recognised fails closed (GenError); a recognised shape with a defence missing is
reported as `false`, which breaks the computed lemmas in Proofs/ClientProto.v.
"""
import ast
from tools.gen.gen import generator, parse, find_func, need, GenError, HEADER, cN, cbool, ast_sha, int_expr


def _is_self_attr(node, attr):
    return isinstance(node, ast.Attribute) and isinstance(node.value, ast.Name) and node.value.id == "self" and node.attr == attr


def _calls(node, pred):
    return [n for n in ast.walk(node) if isinstance(n, ast.Call) and pred(n)]


def _is_call_attr(n, attr):
    return isinstance(n.func, ast.Attribute) and n.func.attr == attr


def _exc_names(t):
    """exception class names in an except clause type (errors.X / X / tuple of those)"""
    if t is None:
        return ["BaseException"]
    elts = t.elts if isinstance(t, ast.Tuple) else [t]
    out = []
    for e in elts:
        if isinstance(e, ast.Attribute):
            out.append(e.attr)
        elif isinstance(e, ast.Name):
            out.append(e.id)
        else:
            raise GenError("unrecognised exception class expression in except clause")
    return out


def _ends_with_bare_raise(body):
    return bool(body) and isinstance(body[-1], ast.Raise) and body[-1].exc is None


@generator("GenClient", "Pyro5/client.py")
def gen_client(tree):
    mod, _ = parse(tree, "Pyro5/client.py")
    inv = find_func(mod, "_pyroInvoke", "Proxy")
    # ---- sequence increment and mask
    incs = []
    for n in ast.walk(inv):
        if isinstance(n, (ast.Assign, ast.AugAssign)):
            tg = n.targets if isinstance(n, ast.Assign) else [n.target]
            if any(_is_self_attr(t, "_pyroSeq") for t in tg):
                incs.append(n)
    need(len(incs) == 1 and isinstance(incs[0], ast.Assign), "expected exactly one assignment to self._pyroSeq in _pyroInvoke")
    v = incs[0].value
    need(isinstance(v, ast.BinOp) and isinstance(v.op, ast.BitAnd), "self._pyroSeq is not assigned `(self._pyroSeq + 1) & <mask>`")
    l = v.left
    need(isinstance(l, ast.BinOp) and isinstance(l.op, ast.Add) and _is_self_attr(l.left, "_pyroSeq")
         and isinstance(l.right, ast.Constant) and l.right.value == 1, "sequence increment is not `self._pyroSeq + 1`")
    mask = int_expr(v.right)
    need(mask > 0, "sequence mask not positive")
    # the message is built with self._pyroSeq after the increment
    sm = _calls(inv, lambda c: _is_call_attr(c, "SendingMessage"))
    need(len(sm) == 1 and len(sm[0].args) >= 3 and _is_self_attr(sm[0].args[2], "_pyroSeq"),
         "SendingMessage in _pyroInvoke does not carry self._pyroSeq")
    need(sm[0].lineno > incs[0].lineno, "request message built before the sequence increment")
    # ---- the try statement around send / recv_stub
    tries = [n for n in ast.walk(inv) if isinstance(n, ast.Try) and _calls(ast.Module(body=n.body, type_ignores=[]), lambda c: _is_call_attr(c, "recv_stub"))]
    need(len(tries) == 1, "expected exactly one try-statement around recv_stub in _pyroInvoke")
    tr = tries[0]
    body = ast.Module(body=tr.body, type_ignores=[])
    sends = _calls(body, lambda c: _is_call_attr(c, "send"))
    need(len(sends) == 1, "expected exactly one send call inside the try-statement of _pyroInvoke")
    need(not tr.finalbody and not tr.orelse, "unexpected finally/else on the try-statement of _pyroInvoke")
    release = False
    comm_handlers = 0
    for h in tr.handlers:
        names = _exc_names(h.type)
        if "CommunicationError" in names or "PyroError" in names or "Exception" in names or "BaseException" in names:
            comm_handlers += 1
            hb = ast.Module(body=h.body, type_ignores=[])
            rel = _calls(hb, lambda c: isinstance(c.func, ast.Attribute) and _is_self_attr(c.func, "_pyroRelease"))
            if rel:
                need(_ends_with_bare_raise(h.body), "the CommunicationError handler of _pyroInvoke releases but does not re-raise")
                # the release must not be conditional
                need(any(isinstance(st, ast.Expr) and st.value in rel for st in h.body), "self._pyroRelease() in the handler is conditional")
                release = True
            else:
                need(_ends_with_bare_raise(h.body), "the CommunicationError handler of _pyroInvoke swallows the error")
            break   # first matching handler wins
        else:
            # an earlier handler for a subclass would shadow the release for that class
            need(not any(nm.endswith("Error") for nm in names), "a handler for %s precedes the CommunicationError handler in _pyroInvoke" % names)
    # _pyroRelease really drops the connection
    relf = find_func(mod, "_pyroRelease", "Proxy")
    closes = _calls(relf, lambda c: _is_call_attr(c, "close"))
    sets_none = []
    for n in ast.walk(relf):
        if isinstance(n, ast.Assign):
            for t in n.targets:
                pairs = [(t, n.value)]
                if isinstance(t, ast.Tuple) and isinstance(n.value, ast.Tuple) and len(t.elts) == len(n.value.elts):
                    pairs = list(zip(t.elts, n.value.elts))
                for tt, vv in pairs:
                    if _is_self_attr(tt, "_pyroConnection"):
                        need(isinstance(vv, ast.Constant) and vv.value is None, "_pyroRelease assigns something other than None to self._pyroConnection")
                        sets_none.append(n)
    need(len(closes) == 1 and len(sets_none) == 1, "_pyroRelease does not close the connection and set it to None")
    need(not [n for n in ast.walk(relf) if isinstance(n, (ast.Return, ast.Raise, ast.Try))], "_pyroRelease has an early exit")
    # ---- sequence check between recv_stub and any use of the reply
    recv = _calls(body, lambda c: _is_call_attr(c, "recv_stub"))[0]
    chk = _calls(body, lambda c: isinstance(c.func, ast.Attribute) and _is_self_attr(c.func, "__pyroCheckSequence"))
    seqcheck = False
    if chk:
        need(len(chk) == 1, "more than one __pyroCheckSequence call")
        c = chk[0]
        need(len(c.args) == 1 and isinstance(c.args[0], ast.Attribute) and c.args[0].attr == "seq"
             and isinstance(c.args[0].value, ast.Name) and c.args[0].value.id == "msg", "__pyroCheckSequence is not called with msg.seq")
        # position: after recv_stub, before every `return`, `raise` of data, and serializer.loads in the non-oneway branch
        later = [n for n in ast.walk(body) if isinstance(n, (ast.Return, ast.Raise)) and n.lineno > recv.lineno]
        loads = [n for n in _calls(body, lambda x: _is_call_attr(x, "loads"))]
        uses = [n.lineno for n in later] + [n.lineno for n in loads]
        need(uses, "no use of the reply found after recv_stub")
        seqcheck = recv.lineno < c.lineno < min(uses)
        # not nested under a condition: its statement is a direct sibling of the recv_stub assignment
        def parent_list(root, target):
            for n in ast.walk(root):
                for f in ("body", "orelse"):
                    lst = getattr(n, f, None)
                    if isinstance(lst, list) and any(isinstance(st, ast.Expr) and st.value is target for st in lst):
                        return lst
            return None
        pl = parent_list(body, c)
        need(pl is not None, "__pyroCheckSequence call is not a plain statement")
        seqcheck = seqcheck and any(isinstance(st, ast.Assign) and st.value is recv for st in pl)
    cs = find_func(mod, "__pyroCheckSequence", "Proxy")
    # shape: if seq != self._pyroSeq: ... raise errors.ProtocolError(...)
    ifs = [st for st in cs.body if isinstance(st, ast.If)]
    need(len(ifs) == 1 and len(cs.body) == 1, "__pyroCheckSequence body is not a single if-statement")
    t = ifs[0].test
    ok_cmp = (isinstance(t, ast.Compare) and len(t.ops) == 1 and isinstance(t.ops[0], ast.NotEq)
              and isinstance(t.left, ast.Name) and t.left.id == cs.args.args[1].arg and _is_self_attr(t.comparators[0], "_pyroSeq"))
    raises = [st for st in ifs[0].body if isinstance(st, ast.Raise)]
    ok_raise = (len(raises) == 1 and isinstance(raises[0].exc, ast.Call) and isinstance(raises[0].exc.func, ast.Attribute)
                and raises[0].exc.func.attr in ("ProtocolError", "CommunicationError", "ConnectionClosedError") and not ifs[0].orelse)
    if not (ok_cmp and ok_raise):
        if not ok_cmp:
            raise GenError("__pyroCheckSequence does not compare `seq != self._pyroSeq`")
        raise GenError("__pyroCheckSequence does not raise a communication error on mismatch")
    # ---- oneway returns before reading
    ow = [n for n in ast.walk(body) if isinstance(n, ast.If) and isinstance(n.test, ast.BinOp) and isinstance(n.test.op, ast.BitAnd)
          and isinstance(n.test.right, ast.Attribute) and n.test.right.attr == "FLAGS_ONEWAY"]
    need(len(ow) == 1, "oneway test `flags & protocol.FLAGS_ONEWAY` not found exactly once inside the try-statement")
    owr = ow[0].body
    need(len(owr) == 1 and isinstance(owr[0], ast.Return) and (owr[0].value is None or (isinstance(owr[0].value, ast.Constant) and owr[0].value.value is None)),
         "oneway branch does not `return None`")
    need(sends[0].lineno < ow[0].lineno < recv.lineno, "oneway return is not between send and recv_stub")
    need(any(n is recv for n in ast.walk(ast.Module(body=ow[0].orelse, type_ignores=[]))), "recv_stub is not in the else-branch of the oneway test")
    # ---- retry loop
    call = find_func(mod, "__call__", "_RemoteMethod")
    loops = [n for n in call.body if isinstance(n, ast.For)]
    need(len(loops) == 1 and len(call.body) == 1, "_RemoteMethod.__call__ is not a single for-loop")
    lp = loops[0]
    it = lp.iter
    need(isinstance(it, ast.Call) and isinstance(it.func, ast.Name) and it.func.id == "range" and len(it.args) == 1
         and isinstance(it.args[0], ast.BinOp) and isinstance(it.args[0].op, ast.Add)
         and _is_self_attr(it.args[0].left, "__max_retries") and isinstance(it.args[0].right, ast.Constant) and it.args[0].right.value == 1,
         "retry loop is not `for attempt in range(self.__max_retries + 1)`")
    need(len(lp.body) == 1 and isinstance(lp.body[0], ast.Try) and not lp.orelse, "retry loop body is not a single try-statement")
    rt = lp.body[0]
    need(len(rt.body) == 1 and isinstance(rt.body[0], ast.Return) and isinstance(rt.body[0].value, ast.Call)
         and isinstance(rt.body[0].value.func, ast.Attribute) and _is_self_attr(rt.body[0].value.func, "__send"),
         "retry loop does not `return self.__send(...)`")
    need(len(rt.handlers) == 1 and not rt.finalbody and not rt.orelse, "retry loop has not exactly one handler")
    rnames = _exc_names(rt.handlers[0].type)
    known = {"ConnectionClosedError", "TimeoutError", "ProtocolError", "CommunicationError"}
    need(set(rnames) <= known, "retry loop catches an unexpected class: %s" % sorted(set(rnames) - known))
    hb = rt.handlers[0].body
    need(len(hb) == 1 and isinstance(hb[0], ast.If) and not hb[0].orelse and len(hb[0].body) == 1 and _ends_with_bare_raise(hb[0].body),
         "retry handler is not `if attempt >= self.__max_retries: raise`")
    tt = hb[0].test
    need(isinstance(tt, ast.Compare) and len(tt.ops) == 1 and isinstance(tt.ops[0], (ast.GtE, ast.Eq)) and isinstance(tt.left, ast.Name)
         and tt.left.id == lp.target.id and _is_self_attr(tt.comparators[0], "__max_retries"), "retry handler test is not `attempt >= self.__max_retries`")
    allc = "CommunicationError" in rnames
    r_closed = allc or "ConnectionClosedError" in rnames
    r_timeout = allc or "TimeoutError" in rnames
    r_proto = allc or "ProtocolError" in rnames
    # ---- BatchProxy: the collected calls are dropped after every invocation (oneway or not) that returns
    def clears_calls(st):
        return (isinstance(st, ast.Assign) and len(st.targets) == 1 and _is_self_attr(st.targets[0], "__calls")
                and isinstance(st.value, (ast.List, ast.Tuple)) and not st.value.elts)

    def has_call(node, attr):
        return bool(_calls(node, lambda c: _is_call_attr(c, attr)))

    def block_cleared(stmts, fname, depth):
        """True iff on every path through `stmts` that invokes the batch, self.__calls is emptied before the block is left"""
        ok = True
        for i, st in enumerate(stmts):
            if isinstance(st, (ast.If, ast.With, ast.For, ast.While, ast.Try)):
                for fld in ("body", "orelse", "finalbody"):
                    sub = getattr(st, fld, None)
                    if sub:
                        ok = block_cleared(sub, fname, depth) and ok
                for h in getattr(st, "handlers", []):
                    ok = block_cleared(h.body, fname, depth) and ok
                continue
            if has_call(st, "_pyroInvokeBatch"):
                if isinstance(st, ast.Return):
                    ok = False          # returns straight from the invocation: nothing is cleared
                    continue
                cleared = False
                for later in stmts[i + 1:]:
                    if clears_calls(later):
                        cleared = True
                        break
                    if isinstance(later, (ast.Return, ast.Raise)) or has_call(later, "_pyroInvokeBatch"):
                        break
                    need(not isinstance(later, (ast.If, ast.With, ast.For, ast.While, ast.Try)) or not any(
                        isinstance(n, (ast.Return, ast.Raise)) for n in ast.walk(later)),
                        "BatchProxy.%s: cannot follow the control flow between the batch invocation and the clearing of the call list" % fname)
                ok = ok and cleared
            elif fname != "_pyroInvoke" and _calls(st, lambda c: isinstance(c.func, ast.Attribute) and _is_self_attr(c.func, "_pyroInvoke")):
                need(depth == 0, "BatchProxy delegation too deep")
                ok = ok and block_cleared(find_func(mod, "_pyroInvoke", "BatchProxy").body, "_pyroInvoke", depth + 1)
        return ok
    bp_facts = {}
    for fname in ("__call__", "_pyroInvoke"):
        bf = find_func(mod, fname, "BatchProxy")
        need(has_call(bf, "_pyroInvokeBatch") or _calls(bf, lambda c: isinstance(c.func, ast.Attribute) and _is_self_attr(c.func, "_pyroInvoke")),
             "BatchProxy.%s neither invokes the batch nor delegates" % fname)
        bp_facts[fname] = block_cleared(bf.body, fname, 0)
    batch_cleared = all(bp_facts.values())
    out = HEADER % "Pyro5/client.py"
    out += "(* self._pyroSeq = (self._pyroSeq + 1) & 0x%x *)\n" % mask
    out += "Definition seq_mask : N := %s.\n" % cN(mask)
    out += "(* `except (%s): self._pyroRelease(); raise` around send/recv_stub in _pyroInvoke *)\n" % ", ".join(_exc_names(tr.handlers[0].type)) if tr.handlers else ""
    out += "Definition release_on_comm_error : bool := %s.\n" % cbool(release)
    out += "(* self.__pyroCheckSequence(msg.seq) directly after recv_stub, before the reply is used *)\n"
    out += "Definition seqcheck_before_use : bool := %s.\n" % cbool(seqcheck)
    out += "(* _RemoteMethod.__call__ retries on: %s *)\n" % ", ".join(rnames)
    out += "Definition retry_on_closed : bool := %s.\n" % cbool(r_closed)
    out += "Definition retry_on_timeout : bool := %s.\n" % cbool(r_timeout)
    out += "Definition retry_on_protocol : bool := %s.\n" % cbool(r_proto)
    out += "(* BatchProxy.__call__ / BatchProxy._pyroInvoke: `self.__calls = []` follows every batch invocation (oneway or not) *)\n"
    out += "Definition batch_calls_cleared : bool := %s.\n" % cbool(batch_cleared)
    return out, {"batch_cleared": bp_facts, "mask": mask, "release": release, "seqcheck": seqcheck, "retry_classes": rnames,
                 "ast_sha": {"_pyroInvoke": ast_sha(inv), "_RemoteMethod.__call__": ast_sha(call), "__pyroCheckSequence": ast_sha(cs)}}
