"""GenClient (C03): the facts about Pyro5/client.py that the ClientProto proofs rely on.

  seq_mask                 the mask in the increment of Proxy._pyroSeq
  release_on_comm_error    _pyroInvoke drops the connection when send / receive / reply validation raises a CommunicationError
  seqcheck_before_use      the reply's sequence number is compared with Proxy._pyroSeq before the reply is used
  retry_on_*               exception classes _RemoteMethod.__call__ retries on (and: N retries = N+1 attempts, last error re-raised)
  batch_calls_cleared      BatchProxy drops its collected calls after every batch invocation, oneway or not

Two readers.  `_client_ast` reads the facts off the syntax tree of the original code shape (and fails with GenError on any
other shape).  `_client_probed` observes the same facts on the client module of the tree under test, driven with recording
stubs (fake connection, fake send function, fake proxy; no network): increment/mask around the wrap, oneway returns without
reading, release after closed/timeout/protocol errors on receive and on send, refusal + release for out-of-sequence result,
exception and stream replies (8 offsets x 4 sequence positions), attempts made by the retry loop per error class for
max_retries 0..3, BatchProxy call list after oneway / normal / adapter invocations.  The probe is used when the syntax reader
does not recognise the code (refactoring into helpers, renamed locals, extra logging, hardening wrappers) or reads a defence
as missing; it is insensitive to message texts, log calls and code layout.  A defence that is really gone reads false in both.
If neither reader succeeds the extractor fails closed.  The generated text does not depend on which reader was used.
"""
import ast
from tools.gen.gen import generator, parse, find_func, need, GenError, HEADER, cN, cbool, ast_sha, int_expr


def _is_self_attr(node, attr):
    return isinstance(node, ast.Attribute) and isinstance(node.value, ast.Name) and node.value.id == "self" and node.attr == attr


def _calls(node, pred):
    return [n for n in ast.walk(node) if isinstance(n, ast.Call) and pred(n)]


def _is_call_attr(n, attr):
    return isinstance(n.func, ast.Attribute) and n.func.attr == attr


def _exc_names(t):
    """exception class names in an except clause type (errors.X / X / tuple of those)"""
    if t is None:
        return ["BaseException"]
    elts = t.elts if isinstance(t, ast.Tuple) else [t]
    out = []
    for e in elts:
        if isinstance(e, ast.Attribute):
            out.append(e.attr)
        elif isinstance(e, ast.Name):
            out.append(e.id)
        else:
            raise GenError("unrecognised exception class expression in except clause")
    return out


def _ends_with_bare_raise(body):
    return bool(body) and isinstance(body[-1], ast.Raise) and body[-1].exc is None


def _client_ast(tree):
    """first reader: the facts as they can be read off the syntax tree of the original code shape"""
    mod, _ = parse(tree, "Pyro5/client.py")
    inv = find_func(mod, "_pyroInvoke", "Proxy")
    # ---- sequence increment and mask
    incs = []
    for n in ast.walk(inv):
        if isinstance(n, (ast.Assign, ast.AugAssign)):
            tg = n.targets if isinstance(n, ast.Assign) else [n.target]
            if any(_is_self_attr(t, "_pyroSeq") for t in tg):
                incs.append(n)
    need(len(incs) == 1 and isinstance(incs[0], ast.Assign), "expected exactly one assignment to self._pyroSeq in _pyroInvoke")
    v = incs[0].value
    need(isinstance(v, ast.BinOp) and isinstance(v.op, ast.BitAnd), "self._pyroSeq is not assigned `(self._pyroSeq + 1) & <mask>`")
    l = v.left
    need(isinstance(l, ast.BinOp) and isinstance(l.op, ast.Add) and _is_self_attr(l.left, "_pyroSeq")
         and isinstance(l.right, ast.Constant) and l.right.value == 1, "sequence increment is not `self._pyroSeq + 1`")
    mask = int_expr(v.right)
    need(mask > 0, "sequence mask not positive")
    # the message is built with self._pyroSeq after the increment
    sm = _calls(inv, lambda c: _is_call_attr(c, "SendingMessage"))
    need(len(sm) == 1 and len(sm[0].args) >= 3 and _is_self_attr(sm[0].args[2], "_pyroSeq"),
         "SendingMessage in _pyroInvoke does not carry self._pyroSeq")
    need(sm[0].lineno > incs[0].lineno, "request message built before the sequence increment")
    # ---- the try statement around send / recv_stub
    tries = [n for n in ast.walk(inv) if isinstance(n, ast.Try) and _calls(ast.Module(body=n.body, type_ignores=[]), lambda c: _is_call_attr(c, "recv_stub"))]
    need(len(tries) == 1, "expected exactly one try-statement around recv_stub in _pyroInvoke")
    tr = tries[0]
    body = ast.Module(body=tr.body, type_ignores=[])
    sends = _calls(body, lambda c: _is_call_attr(c, "send"))
    need(len(sends) == 1, "expected exactly one send call inside the try-statement of _pyroInvoke")
    need(not tr.finalbody and not tr.orelse, "unexpected finally/else on the try-statement of _pyroInvoke")
    release = False
    comm_handlers = 0
    for h in tr.handlers:
        names = _exc_names(h.type)
        if "CommunicationError" in names or "PyroError" in names or "Exception" in names or "BaseException" in names:
            comm_handlers += 1
            hb = ast.Module(body=h.body, type_ignores=[])
            rel = _calls(hb, lambda c: isinstance(c.func, ast.Attribute) and _is_self_attr(c.func, "_pyroRelease"))
            if rel:
                need(_ends_with_bare_raise(h.body), "the CommunicationError handler of _pyroInvoke releases but does not re-raise")
                # the release must not be conditional
                need(any(isinstance(st, ast.Expr) and st.value in rel for st in h.body), "self._pyroRelease() in the handler is conditional")
                release = True
            else:
                need(_ends_with_bare_raise(h.body), "the CommunicationError handler of _pyroInvoke swallows the error")
            break   # first matching handler wins
        else:
            # an earlier handler for a subclass would shadow the release for that class
            need(not any(nm.endswith("Error") for nm in names), "a handler for %s precedes the CommunicationError handler in _pyroInvoke" % names)
    # _pyroRelease really drops the connection
    relf = find_func(mod, "_pyroRelease", "Proxy")
    closes = _calls(relf, lambda c: _is_call_attr(c, "close"))
    sets_none = []
    for n in ast.walk(relf):
        if isinstance(n, ast.Assign):
            for t in n.targets:
                pairs = [(t, n.value)]
                if isinstance(t, ast.Tuple) and isinstance(n.value, ast.Tuple) and len(t.elts) == len(n.value.elts):
                    pairs = list(zip(t.elts, n.value.elts))
                for tt, vv in pairs:
                    if _is_self_attr(tt, "_pyroConnection"):
                        need(isinstance(vv, ast.Constant) and vv.value is None, "_pyroRelease assigns something other than None to self._pyroConnection")
                        sets_none.append(n)
    need(len(closes) == 1 and len(sets_none) == 1, "_pyroRelease does not close the connection and set it to None")
    need(not [n for n in ast.walk(relf) if isinstance(n, (ast.Return, ast.Raise, ast.Try))], "_pyroRelease has an early exit")
    # ---- sequence check between recv_stub and any use of the reply
    recv = _calls(body, lambda c: _is_call_attr(c, "recv_stub"))[0]
    chk = _calls(body, lambda c: isinstance(c.func, ast.Attribute) and _is_self_attr(c.func, "__pyroCheckSequence"))
    seqcheck = False
    if chk:
        need(len(chk) == 1, "more than one __pyroCheckSequence call")
        c = chk[0]
        need(len(c.args) == 1 and isinstance(c.args[0], ast.Attribute) and c.args[0].attr == "seq"
             and isinstance(c.args[0].value, ast.Name) and c.args[0].value.id == "msg", "__pyroCheckSequence is not called with msg.seq")
        # position: after recv_stub, before every `return`, `raise` of data, and serializer.loads in the non-oneway branch
        later = [n for n in ast.walk(body) if isinstance(n, (ast.Return, ast.Raise)) and n.lineno > recv.lineno]
        loads = [n for n in _calls(body, lambda x: _is_call_attr(x, "loads"))]
        uses = [n.lineno for n in later] + [n.lineno for n in loads]
        need(uses, "no use of the reply found after recv_stub")
        seqcheck = recv.lineno < c.lineno < min(uses)
        # not nested under a condition: its statement is a direct sibling of the recv_stub assignment
        def parent_list(root, target):
            for n in ast.walk(root):
                for f in ("body", "orelse"):
                    lst = getattr(n, f, None)
                    if isinstance(lst, list) and any(isinstance(st, ast.Expr) and st.value is target for st in lst):
                        return lst
            return None
        pl = parent_list(body, c)
        need(pl is not None, "__pyroCheckSequence call is not a plain statement")
        seqcheck = seqcheck and any(isinstance(st, ast.Assign) and st.value is recv for st in pl)
    cs = find_func(mod, "__pyroCheckSequence", "Proxy")
    # shape: if seq != self._pyroSeq: ... raise errors.ProtocolError(...)
    ifs = [st for st in cs.body if isinstance(st, ast.If)]
    need(len(ifs) == 1 and len(cs.body) == 1, "__pyroCheckSequence body is not a single if-statement")
    t = ifs[0].test
    ok_cmp = (isinstance(t, ast.Compare) and len(t.ops) == 1 and isinstance(t.ops[0], ast.NotEq)
              and isinstance(t.left, ast.Name) and t.left.id == cs.args.args[1].arg and _is_self_attr(t.comparators[0], "_pyroSeq"))
    raises = [st for st in ifs[0].body if isinstance(st, ast.Raise)]
    ok_raise = (len(raises) == 1 and isinstance(raises[0].exc, ast.Call) and isinstance(raises[0].exc.func, ast.Attribute)
                and raises[0].exc.func.attr in ("ProtocolError", "CommunicationError", "ConnectionClosedError") and not ifs[0].orelse)
    if not (ok_cmp and ok_raise):
        if not ok_cmp:
            raise GenError("__pyroCheckSequence does not compare `seq != self._pyroSeq`")
        raise GenError("__pyroCheckSequence does not raise a communication error on mismatch")
    # ---- oneway returns before reading
    ow = [n for n in ast.walk(body) if isinstance(n, ast.If) and isinstance(n.test, ast.BinOp) and isinstance(n.test.op, ast.BitAnd)
          and isinstance(n.test.right, ast.Attribute) and n.test.right.attr == "FLAGS_ONEWAY"]
    need(len(ow) == 1, "oneway test `flags & protocol.FLAGS_ONEWAY` not found exactly once inside the try-statement")
    owr = ow[0].body
    need(len(owr) == 1 and isinstance(owr[0], ast.Return) and (owr[0].value is None or (isinstance(owr[0].value, ast.Constant) and owr[0].value.value is None)),
         "oneway branch does not `return None`")
    need(sends[0].lineno < ow[0].lineno < recv.lineno, "oneway return is not between send and recv_stub")
    need(any(n is recv for n in ast.walk(ast.Module(body=ow[0].orelse, type_ignores=[]))), "recv_stub is not in the else-branch of the oneway test")
    # ---- retry loop
    call = find_func(mod, "__call__", "_RemoteMethod")
    loops = [n for n in call.body if isinstance(n, ast.For)]
    need(len(loops) == 1 and len(call.body) == 1, "_RemoteMethod.__call__ is not a single for-loop")
    lp = loops[0]
    it = lp.iter
    need(isinstance(it, ast.Call) and isinstance(it.func, ast.Name) and it.func.id == "range" and len(it.args) == 1
         and isinstance(it.args[0], ast.BinOp) and isinstance(it.args[0].op, ast.Add)
         and _is_self_attr(it.args[0].left, "__max_retries") and isinstance(it.args[0].right, ast.Constant) and it.args[0].right.value == 1,
         "retry loop is not `for attempt in range(self.__max_retries + 1)`")
    need(len(lp.body) == 1 and isinstance(lp.body[0], ast.Try) and not lp.orelse, "retry loop body is not a single try-statement")
    rt = lp.body[0]
    need(len(rt.body) == 1 and isinstance(rt.body[0], ast.Return) and isinstance(rt.body[0].value, ast.Call)
         and isinstance(rt.body[0].value.func, ast.Attribute) and _is_self_attr(rt.body[0].value.func, "__send"),
         "retry loop does not `return self.__send(...)`")
    need(len(rt.handlers) == 1 and not rt.finalbody and not rt.orelse, "retry loop has not exactly one handler")
    rnames = _exc_names(rt.handlers[0].type)
    known = {"ConnectionClosedError", "TimeoutError", "ProtocolError", "CommunicationError"}
    need(set(rnames) <= known, "retry loop catches an unexpected class: %s" % sorted(set(rnames) - known))
    hb = rt.handlers[0].body
    need(len(hb) == 1 and isinstance(hb[0], ast.If) and not hb[0].orelse and len(hb[0].body) == 1 and _ends_with_bare_raise(hb[0].body),
         "retry handler is not `if attempt >= self.__max_retries: raise`")
    tt = hb[0].test
    need(isinstance(tt, ast.Compare) and len(tt.ops) == 1 and isinstance(tt.ops[0], (ast.GtE, ast.Eq)) and isinstance(tt.left, ast.Name)
         and tt.left.id == lp.target.id and _is_self_attr(tt.comparators[0], "__max_retries"), "retry handler test is not `attempt >= self.__max_retries`")
    allc = "CommunicationError" in rnames
    r_closed = allc or "ConnectionClosedError" in rnames
    r_timeout = allc or "TimeoutError" in rnames
    r_proto = allc or "ProtocolError" in rnames
    # ---- BatchProxy: the collected calls are dropped after every invocation (oneway or not) that returns
    def clears_calls(st):
        return (isinstance(st, ast.Assign) and len(st.targets) == 1 and _is_self_attr(st.targets[0], "__calls")
                and isinstance(st.value, (ast.List, ast.Tuple)) and not st.value.elts)

    def has_call(node, attr):
        return bool(_calls(node, lambda c: _is_call_attr(c, attr)))

    def block_cleared(stmts, fname, depth):
        """True iff on every path through `stmts` that invokes the batch, self.__calls is emptied before the block is left"""
        ok = True
        for i, st in enumerate(stmts):
            if isinstance(st, (ast.If, ast.With, ast.For, ast.While, ast.Try)):
                for fld in ("body", "orelse", "finalbody"):
                    sub = getattr(st, fld, None)
                    if sub:
                        ok = block_cleared(sub, fname, depth) and ok
                for h in getattr(st, "handlers", []):
                    ok = block_cleared(h.body, fname, depth) and ok
                continue
            if has_call(st, "_pyroInvokeBatch"):
                if isinstance(st, ast.Return):
                    ok = False          # returns straight from the invocation: nothing is cleared
                    continue
                cleared = False
                for later in stmts[i + 1:]:
                    if clears_calls(later):
                        cleared = True
                        break
                    if isinstance(later, (ast.Return, ast.Raise)) or has_call(later, "_pyroInvokeBatch"):
                        break
                    need(not isinstance(later, (ast.If, ast.With, ast.For, ast.While, ast.Try)) or not any(
                        isinstance(n, (ast.Return, ast.Raise)) for n in ast.walk(later)),
                        "BatchProxy.%s: cannot follow the control flow between the batch invocation and the clearing of the call list" % fname)
                ok = ok and cleared
            elif fname != "_pyroInvoke" and _calls(st, lambda c: isinstance(c.func, ast.Attribute) and _is_self_attr(c.func, "_pyroInvoke")):
                need(depth == 0, "BatchProxy delegation too deep")
                ok = ok and block_cleared(find_func(mod, "_pyroInvoke", "BatchProxy").body, "_pyroInvoke", depth + 1)
        return ok
    bp_facts = {}
    for fname in ("__call__", "_pyroInvoke"):
        bf = find_func(mod, fname, "BatchProxy")
        need(has_call(bf, "_pyroInvokeBatch") or _calls(bf, lambda c: isinstance(c.func, ast.Attribute) and _is_self_attr(c.func, "_pyroInvoke")),
             "BatchProxy.%s neither invokes the batch nor delegates" % fname)
        bp_facts[fname] = block_cleared(bf.body, fname, 0)
    batch_cleared = all(bp_facts.values())
    return {"mask": mask, "release": release, "seqcheck": seqcheck, "retry_closed": r_closed, "retry_timeout": r_timeout,
            "retry_protocol": r_proto, "batch_cleared": batch_cleared}


# ---------------------------------------------------------------------------------------------------------------
# second reader: the same facts observed on the client module of the tree under test, driven with recording stubs
# (no network, no daemon).  Used when the syntax reader does not recognise the shape of the code (refactorings,
# helper methods, renamed locals, extra logging, hardening wrappers) or reads a defence as missing.
def _client_probed(tree):
    from tools.gen.gen import tree_module
    client = tree_module(tree, "Pyro5.client")
    protocol = tree_module(tree, "Pyro5.protocol")
    errors = tree_module(tree, "Pyro5.errors")
    serializers = tree_module(tree, "Pyro5.serializers")
    config = tree_module(tree, "Pyro5").config
    import logging
    ser = serializers.serializers[config.SERIALIZER]

    class Sock(object):
        def getsockname(self):
            return ("127.0.0.1", 1)

    class Conn(object):
        """recording stand-in for socketutil.SocketConnection"""
        def __init__(self, reply=None, recv_exc=None, send_exc=None):
            self.sent, self.closed, self.rx, self.recv_calls = [], False, bytearray(), 0
            self.reply, self.recv_exc, self.send_exc = reply, recv_exc, send_exc
            self.objectId, self.sock, self.timeout = "obj", Sock(), None

        def send(self, data):
            if self.send_exc is not None:
                raise self.send_exc
            data = bytes(data)
            self.sent.append(data)
            if self.reply is not None:
                seq = int.from_bytes(data[10:12], "big")
                delta, flags, value, anns = self.reply
                m = protocol.SendingMessage(protocol.MSG_RESULT, flags, (seq + delta) & 0xffff, ser.serializer_id, ser.dumps(value), annotations=anns)
                self.rx += m.data

        def recv(self, size):
            self.recv_calls += 1
            if self.recv_exc is not None:
                raise self.recv_exc
            if len(self.rx) < size:
                raise errors.ConnectionClosedError("probe: nothing more to read")
            out = bytes(self.rx[:size])
            del self.rx[:size]
            return out

        def close(self):
            self.closed = True

        def family(self):
            return "IPv4"

    def proxy(conn, seq):
        p = client.Proxy("PYRO:obj@localhost:1")
        p._pyroMethods, p._pyroOneway, p._pyroAttrs = {"m", "ow"}, {"ow"}, set()
        p._pyroConnection, p._pyroSeq = conn, seq
        return p

    def quiet(fn):
        prev = logging.root.manager.disable
        logging.disable(logging.CRITICAL)
        try:
            return fn()
        finally:
            logging.disable(prev)

    def probe():
        facts = {}
        # -- mask and increment; the request carries the incremented number; oneway returns without reading
        c = Conn()
        p = proxy(c, (1 << 40) - 2)
        try:
            p._pyroInvoke("ow", (1,), {})
        except Exception:
            pass
        mask = p._pyroSeq
        need(isinstance(mask, int) and 0 < mask < (1 << 40) - 1, "probe: sequence number is not masked (%r)" % (mask,))
        p._pyroConnection = None
        for s0 in (5, mask - 1, mask):
            c = Conn()
            p = proxy(c, s0)
            r = p._pyroInvoke("ow", (1,), {})
            need(p._pyroSeq == (s0 + 1) & mask, "probe: sequence %d -> %r is not increment-and-mask" % (s0, p._pyroSeq))
            need(r is None and c.recv_calls == 0 and len(c.sent) == 1, "probe: a oneway call does not return None right after sending")
            need(int.from_bytes(c.sent[0][10:12], "big") == p._pyroSeq & 0xffff, "probe: the request does not carry the proxy's sequence number")
            need(p._pyroConnection is c, "probe: a oneway call dropped its connection")
            p._pyroConnection = None
        facts["mask"] = mask
        # -- a well-formed own reply is returned / raised
        for s0 in (5, mask):
            c = Conn(reply=(0, 0, ["v", 7], None))
            p = proxy(c, s0)
            need(list(p._pyroInvoke("m", (1,), {})) == ["v", 7] and p._pyroConnection is c, "probe: an in-sequence reply is not returned")
            p._pyroConnection = None
        # -- release on communication errors (receive side: closed, timeout, protocol; send side: closed)
        release = True
        for cls, kw in ((errors.ConnectionClosedError, "recv_exc"), (errors.TimeoutError, "recv_exc"), (errors.ProtocolError, "recv_exc"),
                        (errors.ConnectionClosedError, "send_exc")):
            c = Conn(**{kw: cls("probe")})
            p = proxy(c, 5)
            try:
                p._pyroInvoke("m", (1,), {})
                raise GenError("probe: a failing transport did not make _pyroInvoke raise")
            except errors.CommunicationError:
                pass
            release = release and p._pyroConnection is None and c.closed
            p._pyroConnection = None
        facts["release"] = release
        # -- sequence check before the reply is used: result, exception and stream replies, around the wrap
        seqcheck = True
        replies = [(0, ["v", 7], None), (protocol.FLAGS_EXCEPTION, ValueError("probe"), None),
                   (protocol.FLAGS_ITEMSTREAMRESULT | protocol.FLAGS_EXCEPTION, errors.ProtocolError("probe"), {"STRM": b"abc"})]
        for s0 in (5, mask, mask - 1, 300):
            for delta in (1, -1, 2, -2, 255, 256, -256, 32768):
                for flags, value, anns in replies:
                    c = Conn(reply=(delta, flags, value, anns))
                    p = proxy(c, s0)
                    try:
                        r = p._pyroInvoke("m", (1,), {})
                        seqcheck = False
                        if hasattr(r, "proxy"):
                            r.proxy = None
                    except errors.CommunicationError:
                        if p._pyroConnection is not None:
                            seqcheck = False       # refused, but the out-of-step connection is kept
                    except Exception:
                        seqcheck = False           # the foreign reply's exception reached the caller
                    p._pyroConnection = None
        facts["seqcheck"] = seqcheck
        # -- retry loop
        def attempts(cls, n):
            calls = []

            def send(name, args, kwargs):
                calls.append(name)
                raise cls("probe")
            try:
                client._RemoteMethod(send, "m", n)(1)
            except cls:
                return len(calls)
            raise GenError("probe: _RemoteMethod returned although every attempt failed")
        for key, cls in (("retry_closed", errors.ConnectionClosedError), ("retry_timeout", errors.TimeoutError),
                         ("retry_protocol", errors.ProtocolError)):
            counts = [attempts(cls, n) for n in (0, 1, 2, 3)]
            if counts == [1, 2, 3, 4]:
                facts[key] = True
            elif counts == [1, 1, 1, 1]:
                facts[key] = False
            else:
                raise GenError("probe: retry loop makes %r attempts for max_retries 0..3 on %s" % (counts, cls.__name__))
        seen = []

        def flaky(name, args, kwargs):
            seen.append(1)
            if len(seen) < 2:
                raise errors.TimeoutError("probe")
            return "ok"
        if facts["retry_timeout"]:
            need(client._RemoteMethod(flaky, "m", 1)() == "ok" and len(seen) == 2, "probe: a successful retry is not returned")
        # -- BatchProxy drops its collected calls after every kind of invocation
        class P(object):
            def __init__(self):
                self.batches = []

            def _pyroClaimOwnership(self):
                pass

            def _pyroInvokeBatch(self, calls, oneway=False):
                self.batches.append(len(calls))
                return [None] * len(calls)
        cleared = True
        for how in ("oneway", "normal", "adapter"):
            px = P()
            b = client.BatchProxy(px)
            b.foo(1)
            b.bar(2)
            r = b(oneway=True) if how == "oneway" else (b() if how == "normal" else b._pyroInvoke("x", None, None))
            if r is not None:
                list(r)
            b.baz(3)
            r = b()
            if r is not None:
                list(r)
            cleared = cleared and px.batches == [2, 1] and len(getattr(b, "_BatchProxy__calls", [0])) == 0
        facts["batch_cleared"] = cleared
        return facts
    try:
        return quiet(probe)
    except GenError:
        raise
    except Exception as x:
        raise GenError("probe of Pyro5.client failed: %s: %s" % (type(x).__name__, x))


DEFENCES = ("release", "seqcheck", "batch_cleared")


@generator("GenClient", "Pyro5/client.py")
def gen_client(tree):
    ast_facts = ast_err = probe_facts = probe_err = None
    try:
        ast_facts = _client_ast(tree)
    except GenError as x:
        ast_err = str(x)
    if ast_facts is None or not all(ast_facts[k] for k in DEFENCES):
        # unrecognised shape, or a defence that cannot be seen where it used to be: ask the code itself
        try:
            probe_facts = _client_probed(tree)
        except GenError as x:
            probe_err = str(x)
    if probe_facts is not None:
        need(ast_facts is None or ast_facts["mask"] == probe_facts["mask"], "syntax reader and probe disagree on the sequence mask")
        facts, mode = probe_facts, "probed"
    elif ast_facts is not None:
        facts, mode = ast_facts, "ast"
    else:
        raise GenError("%s; %s" % (ast_err, probe_err))
    out = HEADER % "Pyro5/client.py"
    out += "(* the mask in the increment of Proxy._pyroSeq *)\n"
    out += "Definition seq_mask : N := %s.\n" % cN(facts["mask"])
    out += "(* _pyroInvoke drops the connection when send / receive / reply validation raises a CommunicationError *)\n"
    out += "Definition release_on_comm_error : bool := %s.\n" % cbool(facts["release"])
    out += "(* the reply's sequence number is compared with Proxy._pyroSeq before the reply is used *)\n"
    out += "Definition seqcheck_before_use : bool := %s.\n" % cbool(facts["seqcheck"])
    out += "(* exception classes _RemoteMethod.__call__ retries on *)\n"
    out += "Definition retry_on_closed : bool := %s.\n" % cbool(facts["retry_closed"])
    out += "Definition retry_on_timeout : bool := %s.\n" % cbool(facts["retry_timeout"])
    out += "Definition retry_on_protocol : bool := %s.\n" % cbool(facts["retry_protocol"])
    out += "(* BatchProxy drops its collected calls after every batch invocation (oneway or not) *)\n"
    out += "Definition batch_calls_cleared : bool := %s.\n" % cbool(facts["batch_cleared"])
    return out, {"mode": mode, "ast_error": ast_err, "probe_error": probe_err, "ast_facts": ast_facts, "mask": facts["mask"],
                 "release": facts["release"], "seqcheck": facts["seqcheck"], "batch_cleared": facts["batch_cleared"],
                 "retry": [facts["retry_closed"], facts["retry_timeout"], facts["retry_protocol"]]}
