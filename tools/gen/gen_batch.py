"""GenBatch: the structural facts about batched calls that Model/Batch.v relies on (C11).

server.py  Daemon.handleRequest, branch `if request_flags & protocol.FLAGS_BATCH:`
  - one `for method, vargs, kwargs in vargs:` loop
  - the exposure gate `_get_attribute(obj, method)` is called inside the loop, before the call, and
    outside the try (a refusal leaves the loop and the request: exception response)
  - the method call sits in a `try`; the handler catching `Exception` appends
    `core._ExceptionWrapper(xv)` to the data list and then executes `break`   -> loop_breaks
  - the else-branch appends the plain result
  - after the dispatch: `if request_flags & protocol.FLAGS_ONEWAY: return` precedes the reply, and
    in the outer handler `_sendExceptionResponse` is guarded by `not request_flags & FLAGS_ONEWAY`
core.py    _ExceptionWrapper.raiseIt raises the wrapped exception itself
client.py  BatchProxy.__resultsgenerator: wrapper -> raiseIt(), otherwise yield;
           BatchProxy.__call__: generator returned only `if not oneway`;
           Proxy._pyroInvokeBatch sets FLAGS_BATCH (and FLAGS_ONEWAY when oneway);
           Proxy._pyroInvoke returns None right after sending when FLAGS_ONEWAY is set.
A missing `break` (or wrapper) is reported as `false`, not as an extractor failure, so that the
theorem that needs it stops checking and the search looks for a concrete input; a shape that is
not recognised at all fails closed."""
import ast
from tools.gen.gen import generator, parse, find_func, find_class, need, GenError, HEADER, cbool, ast_sha, tree_module


def _is_flag_test(node, flag, negated=False):
    """`request_flags & protocol.FLAG` / `flags & protocol.FLAG` (optionally under `not`)"""
    if negated:
        if not (isinstance(node, ast.UnaryOp) and isinstance(node.op, ast.Not)):
            return False
        node = node.operand
    return (isinstance(node, ast.BinOp) and isinstance(node.op, ast.BitAnd)
            and isinstance(node.left, ast.Name) and node.left.id in ("request_flags", "flags")
            and isinstance(node.right, ast.Attribute) and node.right.attr == flag)


def _calls_named(node, name):
    out = []
    for sub in ast.walk(node):
        if isinstance(sub, ast.Call):
            f = sub.func
            if (isinstance(f, ast.Name) and f.id == name) or (isinstance(f, ast.Attribute) and f.attr == name):
                out.append(sub)
    return out


def _is_method_call(sub):
    """method(*vargs, **kwargs)"""
    return (isinstance(sub, ast.Call) and isinstance(sub.func, ast.Name) and sub.func.id == "method"
            and any(isinstance(a, ast.Starred) for a in sub.args))


def _is_data_append(st, pred):
    return (isinstance(st, ast.Expr) and isinstance(st.value, ast.Call) and isinstance(st.value.func, ast.Attribute)
            and st.value.func.attr == "append" and isinstance(st.value.func.value, ast.Name)
            and st.value.func.value.id == "data" and len(st.value.args) == 1 and pred(st.value.args[0]))


def _is_wrapper_ctor(node):
    return (isinstance(node, ast.Call) and ((isinstance(node.func, ast.Attribute) and node.func.attr == "_ExceptionWrapper")
                                             or (isinstance(node.func, ast.Name) and node.func.id == "_ExceptionWrapper")))


def server_facts(tree):
    mod, _ = parse(tree, "Pyro5/server.py")
    hr = find_func(mod, "handleRequest", "Daemon")
    branches = [n for n in ast.walk(hr) if isinstance(n, ast.If) and _is_flag_test(n.test, "FLAGS_BATCH")
                and any(isinstance(s, ast.For) for s in n.body)]
    need(len(branches) == 1, "handleRequest: batch branch (`if request_flags & protocol.FLAGS_BATCH:` with a for-loop) not found exactly once")
    br = branches[0]
    loops = [s for s in br.body if isinstance(s, ast.For)]
    need(len(loops) == 1, "batch branch: expected exactly one for-loop")
    loop = loops[0]
    tgt = loop.target
    if isinstance(tgt, ast.Tuple) and len(tgt.elts) == 2 and isinstance(tgt.elts[1], ast.Tuple) and isinstance(loop.iter, ast.Call) \
            and isinstance(loop.iter.func, ast.Name) and loop.iter.func.id == "enumerate":
        tgt = tgt.elts[1]       # for index, (method, vargs, kwargs) in enumerate(...)
    need(isinstance(tgt, ast.Tuple) and len(tgt.elts) == 3 and not loop.orelse,
         "batch loop: target is not a (method, vargs, kwargs) triple or the loop has an else")
    # nested loops / while inside would change the meaning of `break`
    for sub in ast.walk(loop):
        need(sub is loop or not isinstance(sub, (ast.For, ast.While, ast.FunctionDef, ast.Lambda)),
             "batch loop: nested loop or function — `break` not analysable")
    tries = [(i, s) for i, s in enumerate(loop.body) if isinstance(s, ast.Try) and any(_is_method_call(x) for b in s.body for x in ast.walk(b))]
    need(len(tries) == 1, "batch loop: the method call is not inside exactly one top-level try")
    ti, tr = tries[0]
    need(not tr.finalbody, "batch loop: try has a finally clause")
    # no other invocation of the method in the loop
    need(sum(1 for x in ast.walk(loop) if _is_method_call(x)) == 1, "batch loop: method called more than once")
    # gate: a top-level statement of the loop body before the try, `method = _get_attribute(obj, method)`
    gate_before = False
    for st in loop.body[:ti]:
        if isinstance(st, ast.Assign) and _calls_named(st, "_get_attribute"):
            need(len(st.targets) == 1 and isinstance(st.targets[0], ast.Name) and st.targets[0].id == "method",
                 "batch loop: result of _get_attribute is not bound to `method`")
            gate_before = True
    gate_in_try = bool(_calls_named(tr, "_get_attribute"))
    gate_per_member = gate_before and not gate_in_try
    # handler catching Exception
    hs = [h for h in tr.handlers if h.type is None or (isinstance(h.type, ast.Name) and h.type.id in ("Exception", "BaseException"))]
    need(len(hs) == 1 and len(tr.handlers) == 1, "batch loop: expected exactly one `except Exception` handler")
    h = hs[0]
    wrapper_names = {st.targets[0].id for st in h.body if isinstance(st, ast.Assign) and len(st.targets) == 1
                     and isinstance(st.targets[0], ast.Name) and _is_wrapper_ctor(st.value)}
    wrap_at = [i for i, st in enumerate(h.body)
               if _is_data_append(st, lambda a: _is_wrapper_ctor(a) or (isinstance(a, ast.Name) and a.id in wrapper_names))]
    wraps = len(wrap_at) == 1
    breaks = False
    if wraps:
        rest = h.body[wrap_at[0] + 1:]
        breaks = any(isinstance(st, ast.Break) for st in rest) and not any(isinstance(st, (ast.Continue, ast.Return, ast.Raise)) for st in rest)
    else:
        breaks = any(isinstance(st, ast.Break) for st in h.body)
    for st in h.body:
        need(not isinstance(st, (ast.Raise, ast.Return, ast.Continue)), "batch loop: handler re-raises / returns / continues")
    # the plain result is appended on the success path: try-else, end of the try body, or right after the try
    # (reached only on success, since the handler leaves the loop iteration with `break`)
    plain = lambda a: isinstance(a, ast.Name) and a.id == "result"
    appends_result = any(_is_data_append(st, plain) for st in tr.orelse) or \
        any(_is_data_append(st, plain) for st in tr.body) or \
        (breaks and any(_is_data_append(st, plain) for st in loop.body[ti + 1:]))
    # oneway: in the big try body, `if request_flags & FLAGS_ONEWAY: return` precedes the reply (conn.send)
    outer = [s for s in hr.body if isinstance(s, ast.Try) and br in list(ast.walk(s))]
    need(len(outer) == 1, "handleRequest: outer try around the dispatch not found")
    outer = outer[0]
    ow_idx = None
    for i, st in enumerate(outer.body):
        if isinstance(st, ast.If) and _is_flag_test(st.test, "FLAGS_ONEWAY") and st.body and isinstance(st.body[0], ast.Return):
            ow_idx = i
            break
    oneway_no_reply = False
    if ow_idx is not None:
        # the batch branch itself must not send
        bb = ast.Module(body=br.body, type_ignores=[])
        sends_in_batch = bool(_calls_named(bb, "send")) or bool(_calls_named(bb, "_sendExceptionResponse"))
        oneway_no_reply = not sends_in_batch and not _sends_on_batch_path(outer.body[:ow_idx], br)
    # error path: every _sendExceptionResponse in the outer handler is under `if not request_flags & FLAGS_ONEWAY`
    need(len(outer.handlers) == 1, "handleRequest: expected one outer exception handler")
    oh = outer.handlers[0]
    guarded_all = True
    found = [0]

    def walk(node, guarded):
        nonlocal guarded_all
        if isinstance(node, ast.If):
            g = guarded or _is_flag_test(node.test, "FLAGS_ONEWAY", negated=True)
            for st in node.body:
                walk(st, g)
            for st in node.orelse:
                walk(st, guarded)
            return
        if isinstance(node, ast.Call) and isinstance(node.func, ast.Attribute) and node.func.attr == "_sendExceptionResponse":
            found[0] += 1
            if not guarded:
                guarded_all = False
        for ch in ast.iter_child_nodes(node):
            walk(ch, guarded)
    for st in oh.body:
        walk(st, False)
    need(found[0] >= 1, "handleRequest: outer handler never sends an exception response")
    return {"gate_per_member": gate_per_member, "wraps_exception": wraps, "loop_breaks": breaks,
            "appends_result": appends_result, "oneway_no_reply": oneway_no_reply, "oneway_no_error_reply": guarded_all,
            "sha": ast_sha(br)}


def _is_batch_container(st, br):
    return any(x is br for x in ast.walk(st))


def _sends_on_batch_path(stmts, br):
    """does any statement that the batch path executes before the oneway test send something?
    Statements containing the batch branch are followed only along the path to the branch."""
    for st in stmts:
        if _is_batch_container(st, br):
            if _path_sends(st, br):
                return True
        elif _calls_named(st, "send") and not isinstance(st, ast.If):
            return True
        elif isinstance(st, ast.If) and _calls_named(st, "send"):
            # e.g. the MSG_PING early answer: acceptable only if that branch returns
            if not any(isinstance(x, ast.Return) for x in st.body):
                return True
    return False


def _path_sends(node, br):
    if node is br:
        return False
    if isinstance(node, ast.If):
        for part in (node.body, node.orelse):
            if any(_is_batch_container(s, br) for s in part):
                return _sends_on_batch_path(part, br)
    return False


def client_facts(tree):
    cmod, _ = parse(tree, "Pyro5/client.py")
    gen = find_func(cmod, "__resultsgenerator", "BatchProxy")
    loops = [s for s in gen.body if isinstance(s, ast.For)]
    need(len(loops) == 1 and len(loops[0].body) == 1 and isinstance(loops[0].body[0], ast.If), "__resultsgenerator: unrecognised shape")
    iff = loops[0].body[0]
    t = iff.test
    need(isinstance(t, ast.Call) and isinstance(t.func, ast.Name) and t.func.id == "isinstance" and len(t.args) == 2
         and ((isinstance(t.args[1], ast.Attribute) and t.args[1].attr == "_ExceptionWrapper") or
              (isinstance(t.args[1], ast.Name) and t.args[1].id == "_ExceptionWrapper")),
         "__resultsgenerator: test is not isinstance(result, _ExceptionWrapper)")
    raises = bool(_calls_named(ast.Module(body=iff.body, type_ignores=[]), "raiseIt")) or any(isinstance(s, ast.Raise) for s in iff.body)
    yields_else = any(isinstance(x, ast.Yield) for s in iff.orelse for x in ast.walk(s)) and \
        not any(isinstance(x, ast.Yield) for s in iff.body for x in ast.walk(s))
    call = find_func(cmod, "__call__", "BatchProxy")
    ret_guarded = False
    for st in call.body:
        if isinstance(st, ast.If) and isinstance(st.test, ast.UnaryOp) and isinstance(st.test.op, ast.Not) \
                and isinstance(st.test.operand, ast.Name) and st.test.operand.id == "oneway":
            if any(isinstance(x, ast.Return) and x.value is not None for x in st.body):
                ret_guarded = True
        elif isinstance(st, ast.Return) and st.value is not None:
            ret_guarded = False
            break
    need(len(_calls_named(call, "_pyroInvokeBatch")) == 1, "BatchProxy.__call__: _pyroInvokeBatch not called exactly once")
    ib = find_func(cmod, "_pyroInvokeBatch", "Proxy")
    sets_batch = any(isinstance(x, ast.Attribute) and x.attr == "FLAGS_BATCH" for x in ast.walk(ib))
    sets_oneway = any(isinstance(st, ast.If) and isinstance(st.test, ast.Name) and st.test.id == "oneway"
                      and any(isinstance(x, ast.Attribute) and x.attr == "FLAGS_ONEWAY" for x in ast.walk(st)) for st in ib.body)
    inv = find_func(cmod, "_pyroInvoke", "Proxy")
    ow_ret = False
    for sub in ast.walk(inv):
        if isinstance(sub, ast.If) and _is_flag_test(sub.test, "FLAGS_ONEWAY") and sub.body and isinstance(sub.body[0], ast.Return):
            v = sub.body[0].value
            if v is None or (isinstance(v, ast.Constant) and v.value is None):
                # the receive must be in the else part
                if _calls_named(ast.Module(body=sub.orelse, type_ignores=[]), "recv_stub") and not _calls_named(ast.Module(body=sub.body, type_ignores=[]), "recv_stub"):
                    ow_ret = True
    core, _ = parse(tree, "Pyro5/core.py")
    ri = find_func(core, "raiseIt", "_ExceptionWrapper")
    body = [s for s in ri.body if not (isinstance(s, ast.Expr) and isinstance(s.value, ast.Constant))]
    raise_same = (len(body) == 1 and isinstance(body[0], ast.Raise) and isinstance(body[0].exc, ast.Attribute)
                  and isinstance(body[0].exc.value, ast.Name) and body[0].exc.value.id == "self" and body[0].exc.attr == "exception")
    init = find_func(core, "__init__", "_ExceptionWrapper")
    stores = any(isinstance(s, ast.Assign) and len(s.targets) == 1 and isinstance(s.targets[0], ast.Attribute)
                 and s.targets[0].attr == "exception" and isinstance(s.value, ast.Name) for s in init.body)
    # the queue of a re-used BatchProxy: `self.__calls = []` unconditionally in __call__ and _pyroInvoke
    # (after the submission, or swapped out before it), never inside the lazily run generator
    def is_calls_attr(n):
        return isinstance(n, ast.Attribute) and n.attr == "__calls" and isinstance(n.value, ast.Name) and n.value.id == "self"

    def clears(st):
        if isinstance(st, ast.Assign) and len(st.targets) == 1:
            t, v = st.targets[0], st.value
            if is_calls_attr(t) and isinstance(v, ast.List) and not v.elts:
                return True
            if isinstance(t, ast.Tuple) and isinstance(v, ast.Tuple) and len(t.elts) == len(v.elts):
                return any(is_calls_attr(a) and isinstance(b, ast.List) and not b.elts for a, b in zip(t.elts, v.elts))
        return False

    def submit_clears(fn):
        """(cleared on the normal path, cleared also when the submission raises)"""
        idx = [i for i, st in enumerate(fn.body) if _calls_named(st, "_pyroInvokeBatch")]
        need(len(idx) == 1, "BatchProxy.%s: _pyroInvokeBatch not called in exactly one top-level statement" % fn.name)
        i = idx[0]
        st = fn.body[i]
        before = any(clears(x) for x in fn.body[:i])
        if isinstance(st, ast.Try):
            fin = any(clears(x) for x in st.finalbody)
            if fin:
                return True, True
        if isinstance(st, ast.Return):
            return before, before
        after = False
        for x in fn.body[i + 1:]:
            if clears(x):
                after = True
                break
            if isinstance(x, (ast.Return, ast.If, ast.Try, ast.For, ast.While, ast.With)):
                break
        return (before or after), before
    c1, f1 = submit_clears(call)
    adapter = find_func(cmod, "_pyroInvoke", "BatchProxy")
    c2, f2 = submit_clears(adapter)
    gen_touches_queue = any(is_calls_attr(x) for x in ast.walk(gen))
    return {"generator_raises_wrapper": raises and yields_else, "oneway_returns_nothing": ret_guarded,
            "queue_cleared_at_submit": c1 and c2, "queue_cleared_on_failed_submit": f1 and f2,
            "generator_leaves_queue_alone": not gen_touches_queue,
            "batch_flags": sets_batch and sets_oneway, "client_oneway_no_wait": ow_ret,
            "raiseit_same_exception": raise_same and stores,
            "sha": ast_sha(gen) + ast_sha(call)}



SERVER_KEYS = ["loop_breaks", "wraps_exception", "gate_per_member", "appends_result", "oneway_no_reply", "oneway_no_error_reply"]
CLIENT_KEYS = ["generator_raises_wrapper", "raiseit_same_exception", "oneway_returns_nothing", "batch_flags",
               "client_oneway_no_wait", "queue_cleared_at_submit", "generator_leaves_queue_alone"]


def probed_facts(tree):
    """Second reader (used only for facts the ast reader could not establish, e.g. after the loop moved into a helper):
    the same facts observed on the code of the tree under test, driven through the in-process loopback with a tiny
    recording object.  Each fact is the behaviour the ast shape stands for, on one fixed probe batch."""
    import struct
    for m in ("Pyro5", "Pyro5.server", "Pyro5.client", "Pyro5.core", "Pyro5.protocol"):
        tree_module(tree, m)
    api = tree_module(tree, "Pyro5.api")
    protocol = tree_module(tree, "Pyro5.protocol")
    from tools.lib import loopback

    class Probe(object):
        def __init__(self):
            self.log = []

        @api.expose
        def add(self, k):
            self.log.append(("add", k))
            return k * 2

        @api.expose
        def boom(self, k):
            self.log.append(("boom", k))
            raise KeyError("probe", k)

        def hidden(self, k):
            self.log.append(("hidden", k))

    f = {}
    o = Probe()
    d = loopback.make_daemon()
    try:
        uri = d.register(o, "GenBatch.probe")
        seen = []      # (msgtype, flags) of every client message
        with loopback.Loopback(d) as net:
            net.on_request = lambda c, msg: seen.append(struct.unpack(protocol._header_format, bytes(msg[:protocol._header_size]))[2:5:2])
            p = api.Proxy(uri)
            p._pyroTimeout = 2
            try:
                def batch(calls, **kw):
                    b = api.BatchProxy(p)
                    for n, a in calls:
                        getattr(b, n)(a)
                    return b, b(**kw)

                def pull(g):
                    out = []
                    try:
                        for v in g:
                            out.append(("ok", v))
                    except Exception as x:
                        out.append(("exc", type(x).__name__, tuple(x.args)))
                    return out
                # a raising member in the middle, normal mode
                o.log = []
                _, g = batch([("add", 1), ("boom", 2), ("add", 3)])
                outs = pull(g)
                n_normal = list(o.log)
                # ... and oneway
                o.log = []
                del seen[:]
                _, r = batch([("add", 1), ("boom", 2), ("add", 3)], oneway=True)
                n_oneway = list(o.log)
                flags_oneway = [fl for t, fl in seen if t == protocol.MSG_INVOKE]
                f["loop_breaks"] = n_normal == [("add", 1), ("boom", 2)] and n_oneway == [("add", 1), ("boom", 2)]
                f["appends_result"] = outs[:1] == [("ok", 2)]
                f["wraps_exception"] = outs[1:] == [("exc", "KeyError", ("probe", 2))]
                f["generator_raises_wrapper"] = f["wraps_exception"] and len(outs) == 2
                f["raiseit_same_exception"] = f["wraps_exception"]
                f["oneway_returns_nothing"] = r is None
                f["client_oneway_no_wait"] = r is None
                # the connection is still in step after the oneway batch: no reply was sent for it (a reply would be read
                # as the answer of the next request and fail the sequence check)
                try:
                    in_step = p.add(5) == 10
                except Exception:
                    in_step = False
                f["oneway_no_reply"] = in_step
                # a refused member: earlier ones ran, later ones did not, refusal comes at submission; oneway: silence, in step
                o.log = []
                try:
                    batch([("add", 1), ("hidden", 2), ("add", 3)])
                    refused_at_submit = False
                except AttributeError:
                    refused_at_submit = True
                f["gate_per_member"] = refused_at_submit and o.log == [("add", 1)]
                o.log = []
                try:
                    _, r2 = batch([("add", 1), ("hidden", 2), ("add", 3)], oneway=True)
                    quiet = r2 is None and o.log == [("add", 1)] and p.add(6) == 12
                except Exception:
                    quiet = False
                f["oneway_no_error_reply"] = quiet
                # flags on the wire
                del seen[:]
                batch([("add", 1)])
                fl_normal = [fl for t, fl in seen if t == protocol.MSG_INVOKE]
                f["batch_flags"] = (len(fl_normal) == 1 and bool(fl_normal[0] & protocol.FLAGS_BATCH) and not fl_normal[0] & protocol.FLAGS_ONEWAY
                                    and len(flags_oneway) == 1 and bool(flags_oneway[0] & protocol.FLAGS_BATCH) and bool(flags_oneway[0] & protocol.FLAGS_ONEWAY))
                # re-use: the queue is empty after a submission (results never pulled), and pulling late leaves new calls alone
                o.log = []
                b = api.BatchProxy(p)
                b.add(1)
                g1 = b()
                b.add(2)
                b.add(3)
                late = pull(g1)
                g2 = b()
                pull(g2)
                f["queue_cleared_at_submit"] = o.log == [("add", 1), ("add", 2), ("add", 3)]
                f["generator_leaves_queue_alone"] = f["queue_cleared_at_submit"] and late == [("ok", 2)]
                o.log = []
                b = api.BatchProxy(p)
                b.add(1)
                b(oneway=True)
                b.add(2)
                pull(b._pyroInvoke("x", (), {}))
                b.add(3)
                pull(b())
                f["queue_cleared_at_submit"] = f["queue_cleared_at_submit"] and o.log == [("add", 1), ("add", 2), ("add", 3)]
            finally:
                p._pyroRelease()
    finally:
        d.close()
    return f

@generator("GenBatch", "Pyro5/server.py", "Pyro5/client.py", "Pyro5/core.py")
def gen_batch(tree):
    # first reader: the ast shape.  A fact it cannot establish (unrecognised shape, or a shape that reads as `false`)
    # is then taken from the second reader, the behaviour of the tree's own code on a fixed probe batch.
    notes = []
    try:
        s = server_facts(tree)
    except GenError as x:
        s = {"sha": None}
        notes.append("server ast reader: %s" % x)
    try:
        c = client_facts(tree)
    except GenError as x:
        c = {"sha": None, "queue_cleared_on_failed_submit": False}
        notes.append("client ast reader: %s" % x)
    missing = [k for k in SERVER_KEYS if s.get(k) is not True] + [k for k in CLIENT_KEYS if c.get(k) is not True]
    probed = []
    if missing:
        try:
            f = probed_facts(tree)
        except GenError:
            raise
        except Exception as x:
            raise GenError("behavioural probe of the batch path failed: %s: %s (ast reader: %s)" % (type(x).__name__, x, "; ".join(notes) or "facts read as false: %s" % missing))
        for k in missing:
            (s if k in SERVER_KEYS else c)[k] = bool(f.get(k, False))
            probed.append("%s=%s" % (k, bool(f.get(k, False))))
    mode = "ast" if not probed else "probed: " + ", ".join(probed) + ("; " + "; ".join(notes) if notes else "")
    out = HEADER % "Pyro5/server.py (handleRequest, batch branch), Pyro5/client.py (BatchProxy), Pyro5/core.py (_ExceptionWrapper)"
    if probed:
        out += "(* reader: ast, except for the facts observed on the tree's own code by the behavioural probe: %s *)\n" % ", ".join(probed).replace("*)", "* )")
    out += "(* the `except Exception` handler of the batch loop ends in `break` after appending the wrapper *)\n"
    out += "Definition loop_breaks : bool := %s.\n" % cbool(s["loop_breaks"])
    out += "(* a failing member's exception is appended to the data list as core._ExceptionWrapper *)\n"
    out += "Definition wraps_exception : bool := %s.\n" % cbool(s["wraps_exception"])
    out += "(* `method = _get_attribute(obj, method)` inside the loop, before and outside the try *)\n"
    out += "Definition gate_per_member : bool := %s.\n" % cbool(s["gate_per_member"])
    out += "Definition appends_result : bool := %s.\n" % cbool(s["appends_result"])
    out += "(* oneway: `if request_flags & FLAGS_ONEWAY: return` before any reply; error replies guarded by `not ... FLAGS_ONEWAY` *)\n"
    out += "Definition oneway_no_reply : bool := %s.\n" % cbool(s["oneway_no_reply"])
    out += "Definition oneway_no_error_reply : bool := %s.\n" % cbool(s["oneway_no_error_reply"])
    out += "(* client: __resultsgenerator re-raises a wrapper and yields anything else; raiseIt raises the wrapped exception *)\n"
    out += "Definition generator_raises_wrapper : bool := %s.\n" % cbool(c["generator_raises_wrapper"])
    out += "Definition raiseit_same_exception : bool := %s.\n" % cbool(c["raiseit_same_exception"])
    out += "(* BatchProxy.__call__ returns the generator only `if not oneway`; _pyroInvokeBatch sets the flags; _pyroInvoke does not wait for a reply when oneway *)\n"
    out += "Definition oneway_returns_nothing : bool := %s.\n" % cbool(c["oneway_returns_nothing"])
    out += "Definition batch_flags_set : bool := %s.\n" % cbool(c["batch_flags"])
    out += "Definition client_oneway_no_wait : bool := %s.\n" % cbool(c["client_oneway_no_wait"])
    out += "(* re-use: BatchProxy.__call__ and ._pyroInvoke empty the queue unconditionally at submission; the lazily run generator never touches it *)\n"
    out += "Definition queue_cleared_at_submit : bool := %s.\n" % cbool(c["queue_cleared_at_submit"])
    out += "Definition generator_leaves_queue_alone : bool := %s.\n" % cbool(c["generator_leaves_queue_alone"])
    out += "(* informational (the harness probes the behaviour): is the queue emptied even when the submitting call raises? *)\n"
    out += "Definition queue_cleared_on_failed_submit : bool := %s.\n" % cbool(c["queue_cleared_on_failed_submit"])
    out += ("Definition batch_structure : list bool := [wraps_exception; gate_per_member; appends_result; oneway_no_reply; "
            "oneway_no_error_reply; generator_raises_wrapper; raiseit_same_exception; oneway_returns_nothing; batch_flags_set; client_oneway_no_wait; "
            "queue_cleared_at_submit; generator_leaves_queue_alone].\n")
    info = dict(s)
    info.update(c)
    info.pop("sha", None)
    info["mode"] = mode
    info["ast_sha"] = {"server_batch_branch": s["sha"], "client_batch": c["sha"]}
    return out, info
