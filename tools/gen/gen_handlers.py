"""GenHandlers (C05): the exception-handling skeleton of the daemon's request path.

For every try statement and every `with contextlib.suppress(...)` block ("site") in the functions below: the
ordered handler table (caught class tuple -> action), finally presence and the enclosing site; for every anchored
call that can raise on behalf of a peer the innermost site whose protected body contains it; the class tests of
Daemon.handleRequest's catch-all; the exception class hierarchy (Pyro5/errors.py, svr_threads.py, builtins).
Also exported (info, for the harness tracer): for each function the map line -> innermost protecting site.
Fail closed: any shape that is not recognised raises GenError."""
import ast, builtins
from tools.gen.gen import generator, parse, find_func, find_class, need, GenError, ast_sha

FUNCS = [  # (file, class, function, Coq constructor)
    ("Pyro5/server.py", "Daemon", "_handshake", "FHandshake"),
    ("Pyro5/server.py", "Daemon", "handleRequest", "FHandleRequest"),
    ("Pyro5/server.py", "Daemon", "_sendExceptionResponse", "FSendExc"),
    ("Pyro5/svr_threads.py", "ClientConnectionJob", "__call__", "FJobCall"),
    ("Pyro5/svr_threads.py", "ClientConnectionJob", "handleConnection", "FJobHandleConn"),
    ("Pyro5/svr_threads.py", "ClientConnectionJob", "denyConnection", "FJobDeny"),
    ("Pyro5/svr_threads.py", "Worker", "run", "FWorkerRun"),
    ("Pyro5/svr_threads.py", "SocketServer_Threadpool", "events", "FThrEvents"),
    ("Pyro5/svr_threads.py", "SocketServer_Threadpool", "loop", "FThrLoop"),
    ("Pyro5/svr_multiplex.py", "SocketServer_Multiplex", "events", "FMuxEvents"),
    ("Pyro5/svr_multiplex.py", "SocketServer_Multiplex", "_handleConnection", "FMuxHandleConn"),
    ("Pyro5/svr_multiplex.py", "SocketServer_Multiplex", "handleRequest", "FMuxHandleReq"),
    ("Pyro5/svr_multiplex.py", "SocketServer_Multiplex", "loop", "FMuxLoop"),
]

# call kinds: attribute name -> kind (calls `x.<attr>(...)`), see call_kind()
ATTR_KINDS = {"recv_stub": "KRecvStub", "loads": "KLoads", "loadsCall": "KLoadsCall", "dumps": "KDumps",
              "validateHandshake": "KValidate", "_handshake": "KHandshake", "handleRequest": "KHandleRequest",
              "_clientDisconnect": "KClientDisconnect", "denyConnection": "KDenyConnection", "job": "KJob",
              "events": "KEvents", "_handleConnection": "KHandleConnection", "handleConnection": "KHandleConnection",
              "_sendExceptionResponse": "KSendExc", "_housekeeping": "KHousekeeping"}

# calls the hand-written skeleton (Model/Containment.v) refers to: they must exist exactly this often
REQUIRED = {("FHandshake", "KRecvStub"): 1, ("FHandshake", "KSend"): 1, ("FHandshake", "KValidate"): 1,
            ("FHandshake", "KLoads"): 1,
            ("FHandleRequest", "KRecvStub"): 1, ("FHandleRequest", "KLoadsCall"): 1,
            ("FSendExc", "KSend"): 1,
            ("FJobCall", "KHandleConnection"): 1, ("FJobCall", "KHandleRequest"): 1, ("FJobCall", "KClientDisconnect"): 1,
            ("FJobHandleConn", "KHandshake"): 1, ("FJobDeny", "KHandshake"): 1, ("FWorkerRun", "KJob"): 1,
            ("FThrEvents", "KDenyConnection"): 1, ("FThrLoop", "KEvents"): 1,
            ("FMuxEvents", "KHandleConnection"): 1, ("FMuxEvents", "KHandleRequest"): 1,
            ("FMuxEvents", "KClientDisconnect"): 1, ("FMuxHandleConn", "KHandshake"): 1,
            ("FMuxHandleReq", "KHandleRequest"): 1, ("FMuxLoop", "KEvents"): 1,
            # housekeeping runs inside the multiplex request loop: where, and under which handler (none today), is recorded
            ("FMuxEvents", "KHousekeeping"): 1, ("FMuxLoop", "KHousekeeping"): 1}
AT_LEAST = {("FHandshake", "KDumps"): 2, ("FHandleRequest", "KSend"): 2, ("FHandleRequest", "KMethod"): 2,
            ("FHandleRequest", "KDumps"): 1, ("FHandleRequest", "KSendExc"): 1, ("FSendExc", "KDumps"): 2}


def class_name(node):
    """canonical name of a class expression in an except clause / isinstance test"""
    if isinstance(node, ast.Attribute) and isinstance(node.value, ast.Name):
        mod, name = node.value.id, node.attr
        if mod == "errors":
            return "errors." + name
        if mod == "socket" and name == "error":
            return "OSError"
        if mod == "socket" and name == "timeout":
            import socket
            return socket.timeout.__name__ if socket.timeout.__module__ == "builtins" else "socket.timeout"
        raise GenError("unrecognised exception class %s.%s" % (mod, name))
    if isinstance(node, ast.Name):
        if node.id in ("NoFreeWorkersError", "PoolError"):
            return "svr_threads." + node.id
        obj = getattr(builtins, node.id, None)
        need(isinstance(obj, type) and issubclass(obj, BaseException), "unrecognised exception class name %s" % node.id)
        return obj.__name__
    raise GenError("unrecognised exception class expression: " + ast.dump(node))


def class_tuple(node):
    if node is None:
        return ["BaseException"]
    if isinstance(node, ast.Tuple):
        return [class_name(e) for e in node.elts]
    return [class_name(node)]


def is_suppress(item):
    c = item.context_expr
    return isinstance(c, ast.Call) and isinstance(c.func, ast.Attribute) and c.func.attr == "suppress" \
        and isinstance(c.func.value, ast.Name) and c.func.value.id == "contextlib"


def contains(node, types):
    return any(isinstance(n, types) for n in ast.walk(node))


def is_bound_reraise(st, bound):
    return isinstance(st, ast.Raise) and (st.exc is None or (isinstance(st.exc, ast.Name) and st.exc.id == bound and st.cause is None))


def guarded_head(h):
    """`if <var> is None and isinstance(<bound>, C): <no raise/loop control>; return False|None` at the head of an except
    clause: returns (var, classes, action) or None"""
    if not h.body or not isinstance(h.body[0], ast.If) or h.name is None:
        return None
    st = h.body[0]
    t = st.test
    if not (isinstance(t, ast.BoolOp) and isinstance(t.op, ast.And) and len(t.values) == 2) or st.orelse:
        return None
    var = classes = None
    for v in t.values:
        if isinstance(v, ast.Compare) and isinstance(v.left, ast.Name) and len(v.ops) == 1 and isinstance(v.ops[0], ast.Is) \
                and isinstance(v.comparators[0], ast.Constant) and v.comparators[0].value is None:
            var = v.left.id
        elif isinstance(v, ast.Call) and isinstance(v.func, ast.Name) and v.func.id == "isinstance" and len(v.args) == 2 \
                and isinstance(v.args[0], ast.Name) and v.args[0].id == h.name:
            classes = class_tuple(v.args[1])
    if var is None or classes is None:
        return None
    last = st.body[-1]
    if not isinstance(last, ast.Return):
        return None
    for x in st.body[:-1]:
        if contains(x, (ast.Raise, ast.Return, ast.Break, ast.Continue)):
            return None
    v = last.value
    if v is None or (isinstance(v, ast.Constant) and v.value is None):
        act = "ARetNone"
    elif isinstance(v, ast.Constant) and isinstance(v.value, bool):
        act = "ARetTrue" if v.value else "ARetFalse"
    else:
        return None
    return var, classes, act


def handler_action(h, fname, skip_head=False):
    """classify what an except clause does with the caught exception"""
    body = h.body[1:] if skip_head else h.body
    if not body:
        return "ASwallow"
    calls_reply = any(isinstance(n, ast.Call) and isinstance(n.func, ast.Attribute) and n.func.attr == "_sendExceptionResponse"
                      for st in body for n in ast.walk(st))
    if calls_reply:
        return "AReply"
    for st in body:
        need(not contains(st, (ast.FunctionDef, ast.Lambda, ast.AsyncFunctionDef)), "nested function in an except clause of " + fname)
    last = body[-1]
    raises = [n for st in body for n in ast.walk(st) if isinstance(n, ast.Raise)]
    if raises:
        if all(is_bound_reraise(r, h.name) for r in raises):
            return "AReraise"
        return "ARaiseNew"
    if isinstance(last, ast.Break):
        return "ABreak"
    if isinstance(last, ast.Continue):
        return "AContinue"
    if isinstance(last, ast.Return):
        v = last.value
        if v is None or (isinstance(v, ast.Constant) and v.value is None):
            return "ARetNone"
        if not (isinstance(v, ast.Constant) and isinstance(v.value, bool)):
            return "ARetOther"      # accepted only where the return value goes back into a caller that just carries on
        return "ARetTrue" if v.value else "ARetFalse"
    # nested break / continue / return under a condition: the exception is contained either way, but the model
    # would not know which way control goes
    for st in body:
        need(not contains(st, (ast.Break, ast.Continue, ast.Return)), "conditional break/continue/return in an except clause of " + fname)
    return "ASwallow"


def check_recv_var(func, trynode, var):
    """`var is None` inside a handler of trynode means 'the exception surfaced at the recv_stub call' only if var is set
    to None before the try and assigned in the try body by the recv_stub call statement alone"""
    assigns = [n for n in ast.walk(func) if isinstance(n, (ast.Assign, ast.AugAssign, ast.AnnAssign, ast.NamedExpr, ast.For, ast.With, ast.Delete))
               and any(isinstance(t, ast.Name) and t.id == var and isinstance(t.ctx, (ast.Store, ast.Del)) for t in ast.walk(n) if isinstance(t, ast.Name))]
    pre = [a for a in assigns if a.lineno < trynode.lineno]
    need(len(pre) == 1 and isinstance(pre[0], ast.Assign) and isinstance(pre[0].value, ast.Constant) and pre[0].value.value is None,
         "%s: guard variable %s is not initialised to None before the try" % (func.name, var))
    body_lines = (trynode.body[0].lineno, trynode.body[-1].end_lineno)
    inbody = [a for a in assigns if body_lines[0] <= a.lineno <= body_lines[1]]
    need(len(inbody) == 1 and isinstance(inbody[0], ast.Assign) and call_kind(inbody[0].value) == "KRecvStub"
         and inbody[0] is trynode.body[0],
         "%s: guard variable %s is not assigned by the recv_stub call at the head of the try only" % (func.name, var))
    hl = (trynode.handlers[0].lineno, trynode.handlers[-1].end_lineno)
    need(not [a for a in assigns if hl[0] <= a.lineno <= hl[1]], "%s: guard variable %s assigned inside a handler" % (func.name, var))


ALIASES = {}      # local name -> call kind, for the function being analysed: `current_job = self.job` ... `current_job()`


def find_aliases(func):
    out = {}
    for n in ast.walk(func):
        if isinstance(n, ast.Assign) and len(n.targets) == 1 and isinstance(n.targets[0], ast.Name) \
                and isinstance(n.value, ast.Attribute) and isinstance(n.value.value, ast.Name) and n.value.value.id == "self" \
                and n.value.attr in ATTR_KINDS:
            out[n.targets[0].id] = ATTR_KINDS[n.value.attr]
    # a name that is also bound to something else is no alias
    for n in ast.walk(func):
        if isinstance(n, ast.Name) and isinstance(n.ctx, ast.Store) and n.id in out:
            binds = [a for a in ast.walk(func) if isinstance(a, ast.Assign) and any(isinstance(t, ast.Name) and t.id == n.id for t in a.targets)]
            if any(not (isinstance(a.value, ast.Attribute) and isinstance(a.value.value, ast.Name) and a.value.value.id == "self"
                        and ATTR_KINDS.get(a.value.attr) == out[n.id]) for a in binds):
                out.pop(n.id, None)
    return out


def call_kind(node):
    if not isinstance(node, ast.Call):
        return None
    f = node.func
    if isinstance(f, ast.Name) and f.id in ALIASES:
        return ALIASES[f.id]
    if isinstance(f, ast.Name) and (f.id == "method" or (any(isinstance(a, ast.Starred) for a in node.args)
                                                        and any(k.arg is None for k in node.keywords))):
        return "KMethod"      # <callable>(*vargs, **kwargs): the call of the user's method, whatever the local is called
    if isinstance(f, ast.Attribute):
        if f.attr == "send":
            if isinstance(f.value, ast.Name) and f.value.id in ("conn", "connection"):
                return "KSend"
            return None
        return ATTR_KINDS.get(f.attr)
    return None


RET_ACTIONS = ("ARetFalse", "ARetTrue", "ARetNone")


def return_action(st):
    """`return <constant>` -> the action a handler has that falls through to it"""
    if not isinstance(st, ast.Return):
        return None
    v = st.value
    if v is None or (isinstance(v, ast.Constant) and v.value is None):
        return "ARetNone"
    if isinstance(v, ast.Constant) and isinstance(v.value, bool):
        return "ARetTrue" if v.value else "ARetFalse"
    return None


def analyse(func, cname, clsnode=None, skeleton=()):
    """sites, anchors and the line -> site map of one function.

    Tolerant of property-preserving reshaping:
      * a call `self._helper(...)` of a private method of the same class that is not itself part of the skeleton is read as
        if the helper's body stood at the call (two levels deep); its try statements are numbered with the caller's, and what
        its except clauses do is translated to the caller: `while self._helper(): pass` — returning a false constant is the
        loop's `break`, a true one its `continue`; anywhere else returning just goes on in the caller;
      * an except clause that falls through to a `return <constant>` right behind its try statement (or to the end of the
        function) is the same as one that returns that constant itself."""
    sites, anchors, counts = [], [], {}
    lines = {}
    helper_lines = []
    ALIASES.clear()
    ALIASES.update(find_aliases(func))
    cur_lines = [lines]
    helpers = {}
    if clsnode is not None:
        for n in clsnode.body:
            if isinstance(n, (ast.FunctionDef,)) and n.name.startswith("_") and not n.name.endswith("__") \
                    and n.name not in skeleton and n.name not in ATTR_KINDS and n is not func \
                    and not any(isinstance(x, (ast.FunctionDef, ast.AsyncFunctionDef, ast.ClassDef)) for x in ast.walk(n) if x is not n):
                helpers[n.name] = n      # (a helper with nested definitions stays an opaque call, as any other call)
    inlining = []

    def mark(node, cur):
        if hasattr(node, "lineno"):
            for ln in range(node.lineno, (getattr(node, "end_lineno", None) or node.lineno) + 1):
                cur_lines[-1][ln] = cur

    hstack = []      # (site ordinal, names holding the caught exception) of the enclosing except clauses
    params = {a.arg for a in func.args.args if "exc" in a.arg}

    def formats_exception(node, names):
        """does the statement format one of `names` eagerly (an exception whose __str__/__repr__ raises makes it raise)?
        Arguments handed to a logging call for lazy %-formatting do not count: logging contains formatting errors."""
        def has(n):
            return any(isinstance(x, ast.Name) and x.id in names for x in ast.walk(n))
        for n in ast.walk(node):
            if isinstance(n, ast.BinOp) and isinstance(n.op, ast.Mod) and has(n.right):
                return True
            if isinstance(n, ast.Call) and isinstance(n.func, ast.Name) and n.func.id in ("str", "repr", "format", "ascii") and n.args and has(n.args[0]):
                return True
            if isinstance(n, ast.Call) and isinstance(n.func, ast.Attribute) and n.func.attr == "format" and isinstance(n.func.value, ast.Constant) \
                    and any(has(a) for a in n.args):
                return True
            if isinstance(n, ast.JoinedStr) and any(isinstance(v, ast.FormattedValue) and has(v.value) for v in n.values):
                return True
        return False

    def helper_of(n):
        if isinstance(n, ast.Call) and isinstance(n.func, ast.Attribute) and isinstance(n.func.value, ast.Name) \
                and n.func.value.id == "self" and n.func.attr in helpers and n.func.attr not in inlining and len(inlining) < 2:
            return helpers[n.func.attr]
        return None

    def inline(h, cur, mode):
        need(not h.decorator_list or all(isinstance(d, ast.Name) and d.id in ("staticmethod", "classmethod") for d in h.decorator_list),
             "helper %s is decorated" % h.name)
        first = min([h.lineno] + [d.lineno for d in h.decorator_list])
        hl = {}
        helper_lines.append({"name": h.name, "firstlineno": first, "lines": hl})
        cur_lines.append(hl)
        inlining.append(h.name)
        try:
            stmts(h.body, cur, top=True, retmap=mode)
        finally:
            inlining.pop()
            cur_lines.pop()

    def expr(node, cur, mode="stmt"):
        """anchored calls inside an expression / simple statement, in source order"""
        if hstack and isinstance(node, ast.stmt):
            names = set(params)
            for _, nm in hstack:
                names |= nm
            if formats_exception(node, names):
                idx = counts.get("KFormatExc", 0)
                counts["KFormatExc"] = idx + 1
                anchors.append({"fn": cname, "kind": "KFormatExc", "idx": idx, "site": cur, "line": node.lineno, "handler": hstack[-1][0]})
        found = []
        for n in ast.walk(node):
            k = call_kind(n)
            if k:
                found.append((n.lineno, n.col_offset, k, n))
            elif helper_of(n) is not None:
                found.append((n.lineno, n.col_offset, None, n))
        for ln, col, k, n in sorted(found, key=lambda t: (t[0], t[1])):
            if k is None:
                inline(helper_of(n), cur, mode)
                continue
            idx = counts.get(k, 0)
            counts[k] = idx + 1
            anchors.append({"fn": cname, "kind": k, "idx": idx, "site": cur, "line": ln, "handler": hstack[-1][0] if hstack else None})

    def translate(act, fall, retmap):
        if act == "ASwallow" and fall:
            act = fall
        if act == "ARetOther":
            need(retmap == "stmt", "except clause of %s returns a non-constant" % func.name)
            return "ASwallow"
        if retmap == "while" and act in RET_ACTIONS:
            return "AContinue" if act == "ARetTrue" else "ABreak"
        if retmap == "stmt" and act in RET_ACTIONS:
            return "ASwallow"
        return act

    def stmts(body, cur, top=False, retmap=None):
        for i, st in enumerate(body):
            fall = None
            if top and isinstance(st, ast.Try):
                fall = "ARetNone" if i == len(body) - 1 else return_action(body[i + 1])
            stmt(st, cur, fall, retmap)

    def stmt(st, cur, fall=None, retmap=None):
        mark(st, cur)
        if isinstance(st, (ast.FunctionDef, ast.AsyncFunctionDef, ast.ClassDef)):
            need(not any(call_kind(n) for n in ast.walk(st)) and not contains(st, (ast.Try, ast.With)),
                 "nested definition with exception handling / anchored calls in " + func.name)
            return
        if isinstance(st, ast.Try):
            need(type(st).__name__ == "Try", "try* is not supported")
            ordn = len(sites)
            site = {"fn": cname, "ord": ordn, "handlers": [], "finally": bool(st.finalbody), "outer": cur,
                    "kind": "try", "line": st.lineno}
            sites.append(site)
            stmts(st.body, ordn, retmap=retmap)
            for h in st.handlers:
                mark(h, cur)
                gh = guarded_head(h)
                if gh is not None:
                    var, classes, act = gh
                    check_recv_var(func, st, var)
                    site["handlers"].append((classes, "GAtRecv", translate(act, None, retmap)))
                    site["handlers"].append((class_tuple(h.type), "GAlways", translate(handler_action(h, func.name, skip_head=True), fall, retmap)))
                else:
                    site["handlers"].append((class_tuple(h.type), "GAlways", translate(handler_action(h, func.name), fall, retmap)))
                names = {h.name} if h.name else set()
                for x in ast.walk(h):      # ex_t, ex_v, ex_tb = sys.exc_info()  /  xt, xv, tb = sys.exc_info()
                    if isinstance(x, ast.Assign) and isinstance(x.value, ast.Call) and isinstance(x.value.func, ast.Attribute) \
                            and x.value.func.attr == "exc_info" and isinstance(x.targets[0], ast.Tuple) and len(x.targets[0].elts) == 3 \
                            and isinstance(x.targets[0].elts[1], ast.Name):
                        names.add(x.targets[0].elts[1].id)
                hstack.append((ordn, names))
                stmts(h.body, cur, retmap=retmap)
                hstack.pop()
            stmts(st.orelse, cur, retmap=retmap)
            stmts(st.finalbody, cur, retmap=retmap)
            return
        if isinstance(st, (ast.With, ast.AsyncWith)):
            sup = [it for it in st.items if is_suppress(it)]
            if sup:
                need(len(st.items) == 1, "contextlib.suppress combined with other context managers")
                args = sup[0].context_expr.args
                need(args and not sup[0].context_expr.keywords, "contextlib.suppress without classes")
                ordn = len(sites)
                sites.append({"fn": cname, "ord": ordn, "handlers": [([class_name(a) for a in args], "GAlways", "ASwallow")],
                              "finally": False, "outer": cur, "kind": "suppress", "line": st.lineno})
                stmts(st.body, ordn, retmap=retmap)
                return
            for it in st.items:
                expr(it.context_expr, cur)
            stmts(st.body, cur, retmap=retmap)
            return
        if isinstance(st, ast.While):
            # `while self._helper(): pass` — the helper's result decides about leaving the loop
            t = st.test
            if helper_of(t) is not None and all(isinstance(b, ast.Pass) for b in st.body) and not st.orelse:
                expr(t, cur, mode="while")
                return
            expr(st.test, cur)
            stmts(st.body, cur, retmap=retmap)
            stmts(st.orelse, cur, retmap=retmap)
            return
        if isinstance(st, ast.If):
            expr(st.test, cur)
            stmts(st.body, cur, retmap=retmap)
            stmts(st.orelse, cur, retmap=retmap)
            return
        if isinstance(st, (ast.For, ast.AsyncFor)):
            expr(st.iter, cur)
            stmts(st.body, cur, retmap=retmap)
            stmts(st.orelse, cur, retmap=retmap)
            return
        if type(st).__name__ in ("Match", "TryStar"):
            raise GenError("unsupported statement %s in %s" % (type(st).__name__, func.name))
        expr(st, cur)

    stmts(func.body, None, top=True)
    return sites, anchors, lines, helper_lines


def reply_rule(func):
    """the class tests of the catch-all in Daemon.handleRequest (the handler that calls _sendExceptionResponse)"""
    hs = [h for n in ast.walk(func) if isinstance(n, ast.Try) for h in n.handlers if handler_action(h, func.name) == "AReply"]
    need(len(hs) == 1, "expected exactly one except clause calling _sendExceptionResponse in handleRequest")
    h = hs[0]
    need(h.name is not None, "reply handler does not bind the exception")
    xv = h.name

    def isinst(node):
        need(isinstance(node, ast.Call) and isinstance(node.func, ast.Name) and node.func.id == "isinstance"
             and len(node.args) == 2 and isinstance(node.args[0], ast.Name) and node.args[0].id == xv,
             "unrecognised test in the reply handler: " + ast.dump(node)[:120])
        return class_tuple(node.args[1])

    def is_not(node):
        return isinstance(node, ast.UnaryOp) and isinstance(node.op, ast.Not)

    def is_oneway(node):
        return isinstance(node, ast.BinOp) and isinstance(node.op, ast.BitAnd) and isinstance(node.left, ast.Name) \
            and node.left.id == "request_flags" and isinstance(node.right, ast.Attribute) and node.right.attr == "FLAGS_ONEWAY"

    hbody = h.body
    if len(hbody) == 1 and isinstance(hbody[0], ast.Try) and not hbody[0].handlers and not hbody[0].orelse and hbody[0].finalbody:
        # try: <the handler> finally: <cleanup>  — the cleanup must not decide anything about the exception
        for st in hbody[0].finalbody:
            need(not contains(st, (ast.Raise, ast.Return, ast.Break, ast.Continue)) and not any(call_kind(n) for n in ast.walk(st)),
                 "reply handler: the finally clause does more than clean up")
        hbody = hbody[0].body
    ifs = [st for st in hbody if isinstance(st, ast.If)]
    need(len(ifs) == 3 and isinstance(hbody[0], ast.Assign) and len(hbody) == 4, "reply handler: unexpected statement sequence")
    pm, outer, rer = ifs
    # if msg: request_seq = ...; request_serializer_id = ...   (no raise / call of interest)
    need(not contains(pm, (ast.Raise, ast.Return, ast.Call)), "reply handler: unexpected statements in the pyroMsg branch")
    # if not isinstance(xv, NEVER): if not oneway: if isinstance(xv, ALWAYS) or not isinstance(xv, UNLESS): reply
    need(is_not(outer.test) and not outer.orelse and len(outer.body) == 1 and isinstance(outer.body[0], ast.If), "reply handler: outer test")
    never = isinst(outer.test.operand)
    mid = outer.body[0]
    need(is_not(mid.test) and is_oneway(mid.test.operand) and not mid.orelse and len(mid.body) == 1 and isinstance(mid.body[0], ast.If),
         "reply handler: oneway test")
    inner = mid.body[0]
    t = inner.test
    need(isinstance(t, ast.BoolOp) and isinstance(t.op, ast.Or) and len(t.values) == 2 and is_not(t.values[1]) and not inner.orelse,
         "reply handler: inner test")
    always, unless = isinst(t.values[0]), isinst(t.values[1].operand)
    sends = [n for st in inner.body for n in ast.walk(st) if call_kind(n) == "KSendExc"]
    need(len(sends) == 1 and not contains(inner, (ast.Raise, ast.Return)), "reply handler: reply branch")
    # if isCallback or isinstance(xv, RERAISE): raise
    t = rer.test
    need(isinstance(t, ast.BoolOp) and isinstance(t.op, ast.Or) and len(t.values) == 2 and isinstance(t.values[0], ast.Name)
         and t.values[0].id == "isCallback" and len(rer.body) == 1 and is_bound_reraise(rer.body[0], xv) and not rer.orelse,
         "reply handler: re-raise test")
    return {"never": never, "always": always, "unless": unless, "reraise": isinst(t.values[1])}


def hierarchy(tree):
    """name -> base for Pyro5/errors.py, the pool errors of svr_threads.py, and the interpreter's builtin exceptions"""
    out = []
    mod, _ = parse(tree, "Pyro5/errors.py")
    local = set()
    for n in mod.body:
        if isinstance(n, ast.ClassDef):
            need(len(n.bases) == 1 and isinstance(n.bases[0], ast.Name) and not n.keywords, "errors.%s: unrecognised bases" % n.name)
            b = n.bases[0].id
            if b in local:
                base = "errors." + b
            else:
                obj = getattr(builtins, b, None)
                need(isinstance(obj, type) and issubclass(obj, BaseException), "errors.%s: unknown base %s" % (n.name, b))
                base = obj.__name__
            local.add(n.name)
            out.append(("errors." + n.name, base))
    need({"PyroError", "CommunicationError", "ConnectionClosedError", "TimeoutError", "ProtocolError", "SecurityError",
          "SerializeError"} <= local, "errors.py lacks an expected class")
    tmod, _ = parse(tree, "Pyro5/svr_threads.py")
    tl = set()
    for n in tmod.body:
        if isinstance(n, ast.ClassDef) and n.name in ("PoolError", "NoFreeWorkersError"):
            need(len(n.bases) == 1 and isinstance(n.bases[0], ast.Name), "svr_threads.%s: unrecognised bases" % n.name)
            b = n.bases[0].id
            base = "svr_threads." + b if b in tl else class_name(n.bases[0])
            tl.add(n.name)
            out.append(("svr_threads." + n.name, base))
    seen = set()
    for name in sorted(dir(builtins)):
        obj = getattr(builtins, name)
        if isinstance(obj, type) and issubclass(obj, BaseException) and obj.__name__ == name and obj is not BaseException:
            if len(obj.__bases__) != 1:
                continue      # ExceptionGroup (two bases): not representable as a chain, left out
            if name not in seen:
                seen.add(name)
                out.append((name, obj.__bases__[0].__name__))
    return out


def cstr(s):
    need(all(32 <= ord(ch) < 127 and ch != '"' for ch in s), "string not plain ascii: %r" % s)
    return '"%s"' % s


def clist(items):
    return "[" + "; ".join(items) + "]"


def copt(x):
    return "None" if x is None else "(Some %d)" % x


@generator("GenHandlers", "Pyro5/server.py", "Pyro5/svr_threads.py", "Pyro5/svr_multiplex.py", "Pyro5/errors.py")
def gen_handlers(tree):
    mods = {}
    all_sites, all_anchors, info_funcs, shas = [], [], {}, {}
    rule = None
    for rel, cls, fname, cname in FUNCS:
        if rel not in mods:
            mods[rel] = parse(tree, rel)[0]
        func = find_func(mods[rel], fname, cls)
        need(not func.decorator_list, "%s.%s is decorated" % (cls, fname))
        clsnode = find_class(mods[rel], cls)
        sites, anchors, lines, helper_lines = analyse(func, cname, clsnode, {f[2] for f in FUNCS if f[1] == cls})
        counts = {}
        for a in anchors:
            counts[a["kind"]] = counts.get(a["kind"], 0) + 1
        for (f, k), n in REQUIRED.items():
            if f == cname:
                need(counts.get(k, 0) == n, "%s.%s: expected exactly %d call(s) of kind %s, found %d" % (cls, fname, n, k, counts.get(k, 0)))
        for (f, k), n in AT_LEAST.items():
            if f == cname:
                need(counts.get(k, 0) >= n, "%s.%s: expected at least %d call(s) of kind %s, found %d" % (cls, fname, n, k, counts.get(k, 0)))
        all_sites += sites
        all_anchors += anchors
        info_funcs[cname] = {"file": rel.split("/")[-1], "name": fname, "firstlineno": func.lineno,
                             "lines": {str(k): v for k, v in sorted(lines.items())},
                             "helpers": [{"name": h["name"], "firstlineno": h["firstlineno"],
                                          "lines": {str(k): v for k, v in sorted(h["lines"].items())}} for h in helper_lines],
                             "sites": [{"ord": s["ord"], "kind": s["kind"], "line": s["line"], "outer": s["outer"], "finally": s["finally"],
                                        "handlers": [[c, a, g] for c, g, a in s["handlers"]]} for s in sites],
                             "anchors": [{"kind": a["kind"], "idx": a["idx"], "site": a["site"], "line": a["line"], "handler": a["handler"]} for a in anchors]}
        shas[cname] = ast_sha(func)
        if cname == "FHandleRequest":
            rule = reply_rule(func)
    hier = hierarchy(tree)
    out = "(* GENERATED by tools/gen/gen_handlers.py from Pyro5/server.py, svr_threads.py, svr_multiplex.py, errors.py — do not edit. *)\n"
    out += "From Coq Require Import List String Bool.\nImport ListNotations.\nFrom V Require Import Model.ContainmentDefs.\nLocal Open Scope string_scope.\n\n"
    out += "Definition gen_sites : list site :=\n  [\n"
    rows = []
    for s in all_sites:
        hs = clist(["(%s, %s, %s)" % (clist([cstr(c) for c in cl]), g, act) for cl, g, act in s["handlers"]])
        rows.append("   (* %s site %d: %s at line %d *)\n   {| s_fn := %s; s_ord := %d; s_handlers := %s; s_finally := %s; s_outer := %s |}" % (
            s["fn"], s["ord"], s["kind"], s["line"], s["fn"], s["ord"], hs, "true" if s["finally"] else "false", copt(s["outer"])))
    out += ";\n".join(rows) + "\n  ].\n\n"
    out += "Definition gen_anchors : list anchor :=\n  [\n"
    out += ";\n".join("   (* line %d *) {| a_fn := %s; a_kind := %s; a_idx := %d; a_site := %s; a_handler := %s |}" % (
        a["line"], a["fn"], a["kind"], a["idx"], copt(a["site"]), copt(a["handler"])) for a in all_anchors)
    out += "\n  ].\n\n"
    out += "Definition gen_hier : list (cls * cls) :=\n  [" + ";\n   ".join("(%s, %s)" % (cstr(a), cstr(b)) for a, b in hier) + "].\n\n"
    out += "Definition gen_reply : reply_rule :=\n  {| rr_never := %s; rr_always := %s; rr_unless := %s; rr_reraise := %s |}.\n\n" % (
        clist([cstr(c) for c in rule["never"]]), clist([cstr(c) for c in rule["always"]]),
        clist([cstr(c) for c in rule["unless"]]), clist([cstr(c) for c in rule["reraise"]]))
    out += "Definition tables : tables := {| t_sites := gen_sites; t_anchors := gen_anchors; t_hier := gen_hier; t_reply := gen_reply |}.\n"
    return out, {"funcs": info_funcs, "reply": rule, "hier": hier, "ast_sha": shas}
