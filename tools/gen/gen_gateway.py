"""GenGateway (C20): routing constants of Pyro5/utils/httpgateway.py and the structural fact that both
guards (gateway key, expose pattern) are evaluated, and answer by `return`, before any statement that can
reach the name server or a proxy."""
import ast
from tools.gen.gen import generator, parse, find_func, need, GenError, HEADER, clist, cN, ctext, cbool, ast_sha

SRC = "Pyro5/utils/httpgateway.py"
BACKEND_NAMES = {"get_nameserver", "nameserver", "proxy", "client", "core"}


def is_attr(node, base, attr):
    return isinstance(node, ast.Attribute) and isinstance(node.value, ast.Name) and node.value.id == base and node.attr == attr


def const_str(node, what):
    need(isinstance(node, ast.Constant) and isinstance(node.value, str), "%s is not a string literal" % what)
    return node.value


BUILTIN_OK = {"start_response", "print", "str", "tuple", "isinstance", "len", "getattr", "bool", "bytes", "list", "dict", "set"}


def mentions_backend(node, funcs, depth=0):
    """does this statement contain a use of the name server / proxy machinery?  Calls of helper functions defined in
    the same module are followed (two levels); the index page (return_homepage) is the documented keyless exception."""
    for sub in ast.walk(node):
        if isinstance(sub, ast.Name) and sub.id in BACKEND_NAMES:
            return True
        if isinstance(sub, ast.Call) and isinstance(sub.func, ast.Name):
            f = sub.func.id
            if f in BUILTIN_OK or f == "return_homepage":
                continue
            if f in funcs and depth < 2:
                if any(mentions_backend(st, funcs, depth + 1) for st in funcs[f].body):
                    return True
                continue
            return True          # a call of something unknown could hide backend traffic
    return False


def ends_with_return(stmts):
    return bool(stmts) and isinstance(stmts[-1], ast.Return)


def refusal_if(stmts, code):
    """an `if ...:` among stmts whose body ends in return (the refusal answer itself is checked by the correspondence run)"""
    for st in stmts:
        if isinstance(st, ast.If) and ends_with_return(st.body):
            return st
    return None


def module_consts(mod):
    """module-level NAME = <literal> bindings (literals moved behind names are still literals)"""
    out = {}
    for n in mod.body:
        if isinstance(n, ast.Assign) and len(n.targets) == 1 and isinstance(n.targets[0], ast.Name):
            try:
                out[n.targets[0].id] = ast.literal_eval(n.value)
            except (ValueError, SyntaxError):
                pass
    return out


def read_ast(tree):
    """first reader: the shapes of the upstream source, read with ast (fail closed -> second reader)"""
    mod, _ = parse(tree, SRC)
    app = find_func(mod, "pyro_app")
    proc = find_func(mod, "process_pyro_request")
    find_func(mod, "singlyfy_parameters")
    find_func(mod, "return_homepage")
    # ---- pyro_app: prefix, slice, allowed methods, preflight method
    prefix, slices, tuples, strs = [], [], [], []
    for sub in ast.walk(app):
        if isinstance(sub, ast.Call) and isinstance(sub.func, ast.Attribute) and sub.func.attr == "startswith" \
                and isinstance(sub.func.value, ast.Name) and sub.func.value.id == "path":
            need(len(sub.args) == 1, "path.startswith with several arguments")
            prefix.append(const_str(sub.args[0], "path prefix"))
        if isinstance(sub, ast.Subscript) and isinstance(sub.value, ast.Name) and sub.value.id == "path" \
                and isinstance(sub.slice, ast.Slice):
            s = sub.slice
            need(s.upper is None and s.step is None and isinstance(s.lower, ast.Constant) and isinstance(s.lower.value, int),
                 "unrecognised slice of path")
            slices.append(s.lower.value)
        if isinstance(sub, ast.Compare) and isinstance(sub.left, ast.Name) and sub.left.id == "method":
            need(len(sub.ops) == 1 and isinstance(sub.ops[0], ast.In), "unrecognised comparison of the request method")
            c = sub.comparators[0]
            if isinstance(c, ast.Tuple):
                tuples.append([const_str(e, "allowed method") for e in c.elts])
            else:
                strs.append(const_str(c, "preflight method"))
    need(len(prefix) == 1 and len(slices) == 1 and slices[0] == len(prefix[0]), "path prefix / slice length do not agree")
    need(len(tuples) == 1 and len(strs) == 1, "request-method tests not recognised")
    allowed, preflight = tuples[0], strs[0]
    need(preflight in allowed and all((m in preflight) == (m == preflight) for m in allowed),
         "`method in (%r)` is a substring test that is not an equality on the allowed methods" % preflight)
    # ---- process_pyro_request: literals
    split_re, key_param, key_header, meta, oneway, seps = [], [], [], [], [], []
    for sub in ast.walk(proc):
        if isinstance(sub, ast.Call) and is_attr(sub.func, "re", "match") and len(sub.args) == 2 \
                and isinstance(sub.args[1], ast.Name) and sub.args[1].id == "path":
            split_re.append(const_str(sub.args[0], "path regex"))
        if isinstance(sub, ast.Call) and is_attr(sub.func, "parameters", "get"):
            key_param.append(const_str(sub.args[0], "key parameter"))
        if isinstance(sub, ast.Call) and is_attr(sub.func, "environ", "get") and sub.args \
                and isinstance(sub.args[0], ast.Constant) and "GATEWAY_KEY" in str(sub.args[0].value):
            key_header.append(sub.args[0].value)
        if isinstance(sub, ast.Compare) and isinstance(sub.left, ast.Name) and sub.left.id == "method" \
                and len(sub.ops) == 1 and isinstance(sub.ops[0], ast.Eq):
            meta.append(const_str(sub.comparators[0], "pseudo member"))
        if isinstance(sub, ast.Compare) and len(sub.ops) == 1 and isinstance(sub.ops[0], ast.In) \
                and isinstance(sub.comparators[0], ast.Name) and sub.comparators[0].id == "pyro_options":
            oneway.append(const_str(sub.left, "oneway option"))
        if isinstance(sub, ast.Assign) and len(sub.targets) == 1 and isinstance(sub.targets[0], ast.Name) \
                and sub.targets[0].id == "pyro_options":
            v = sub.value
            need(isinstance(v, ast.Call) and isinstance(v.func, ast.Attribute) and v.func.attr == "split" and len(v.args) == 1,
                 "pyro_options is not <header>.split(<sep>)")
            seps.append(const_str(v.args[0], "options separator"))
    need(split_re == ["(.+)/(.+)"], "object/member split regex is not (.+)/(.+): %r" % split_re)
    need(len(set(key_param)) == 1 and len(key_header) == 1, "key parameter / header not recognised")
    need(len(meta) == 1, "pseudo member comparison not found exactly once")
    need(len(oneway) >= 1 and len(set(oneway)) == 1, "oneway option literal not unique")
    need(seps == [","] , "options separator not recognised")
    for sub in ast.walk(proc):
        if isinstance(sub, ast.Delete):
            for t in sub.targets:
                need(isinstance(t, ast.Subscript) and isinstance(t.value, ast.Name) and t.value.id == "parameters"
                     and isinstance(t.slice, ast.Constant) and t.slice.value == key_param[0],
                     "a parameter other than the key parameter is deleted")
    # ---- structure: [.. homepage/split ..] key-If, pattern-If, then the Try with the backend traffic
    body = proc.body
    i_key = [i for i, st in enumerate(body) if isinstance(st, ast.If) and is_attr(st.test, "pyro_app", "gateway_key")]
    i_pat = [i for i, st in enumerate(body) if isinstance(st, ast.If) and any(is_attr(s, "pyro_app", "ns_regex") for s in ast.walk(st.test))]
    need(len(i_key) == 1 and len(i_pat) == 1, "key guard / pattern guard not found exactly once at top level")
    funcs = {n.name: n for n in mod.body if isinstance(n, ast.FunctionDef)}
    back = [i for i, st in enumerate(body) if mentions_backend(st, funcs)]
    need(back, "no backend traffic found in process_pyro_request")
    key_if, pat_if = body[i_key[0]], body[i_pat[0]]
    guards_first = all(i > i_key[0] and i > i_pat[0] for i in back)
    key_refuses = refusal_if(key_if.body, "403") is not None and not key_if.orelse
    pat_refuses = ends_with_return(pat_if.body) and not pat_if.orelse and refusal_if([pat_if], "403") is not None
    # statements between function start and the guards must not loop or re-bind object_name after the match
    for i, st in enumerate(body):
        need(not isinstance(st, (ast.For, ast.While, ast.With, ast.FunctionDef)), "unexpected compound statement at top level")
    # default expose pattern
    default_pat = None
    for n in mod.body:
        if isinstance(n, ast.Assign) and len(n.targets) == 1 and is_attr(n.targets[0], "pyro_app", "ns_regex"):
            default_pat = const_str(n.value, "default expose pattern")
    need(default_pat is not None, "default pyro_app.ns_regex not found")
    # index page: how many listed names are detailed -- `[...][:N]`, N a literal or a module-level name
    home = find_func(mod, "return_homepage")
    consts = module_consts(mod)
    limits = []
    for sub in ast.walk(home):
        if isinstance(sub, ast.Subscript) and isinstance(sub.slice, ast.Slice) and sub.slice.lower is None and sub.slice.step is None \
                and sub.slice.upper is not None:
            u = sub.slice.upper
            if isinstance(u, ast.Constant) and isinstance(u.value, int):
                limits.append(u.value)
            elif isinstance(u, ast.Name) and isinstance(consts.get(u.id), int):
                limits.append(consts[u.id])
            else:
                raise GenError("index page limit is not a literal")
    need(len(limits) == 1 and limits[0] >= 0, "index page limit not found exactly once")
    return {"mode": "ast", "prefix": prefix[0], "allowed": allowed, "preflight": preflight, "key_param": key_param[0],
            "key_header": key_header[0], "meta": meta[0], "oneway": oneway[0], "sep": seps[0], "default_pattern": default_pat,
            "index_limit": limits[0],
            "guards_first": guards_first, "key_refuses": key_refuses, "pat_refuses": pat_refuses,
            "ast_sha": {"pyro_app": ast_sha(app), "process_pyro_request": ast_sha(proc)}}


BASELINE = {"prefix": "pyro/", "allowed": ["GET", "POST", "OPTIONS"], "preflight": "OPTIONS", "key_param": "$key",
            "key_header": "HTTP_X_PYRO_GATEWAY_KEY", "meta": "$meta", "oneway": "oneway", "sep": ","}


def read_probe(tree):
    """second reader: the routing constants of the upstream gateway are CONFIRMED behaviourally on the tree under test by
    driving the real pyro_app behind the recording stubs of the C20 harness (so helper extraction, renamed locals, literals
    behind names, reworded messages, extra logging do not matter).  Any probe that disagrees -> GenError (fail closed)."""
    from tools.gen.gen import tree_module
    gw = tree_module(tree, "Pyro5.utils.httpgateway")
    from tools.harness import C20 as H
    B = BASELINE

    def run(**over):
        return H.run_impl(H.base_case(**over))

    def lookups(o):
        return [e[1] for e in o["log"] if e[0] == "lookup"]

    def invokes(o):
        return [e for e in o["log"] if e[0] == "invoke"]

    def refused(o, status):
        return o["crash"] is None and o.get("status") == status and not o["log"]
    # prefix + call methods
    for m in ("GET", "POST"):
        o = run(cfg__key=None, rq__method=m)
        need(o["crash"] is None and lookups(o) == ["http.obj"] and len(invokes(o)) == 1 and invokes(o)[0][3] == "echo"
             and invokes(o)[0][5] == {"msg": "hi"}, "probe: %s /pyro/http.obj/echo?msg=hi is not forwarded as echo(msg='hi')" % m)
    need(refused(run(cfg__key=None, rq__method="OPTIONS"), 200), "probe: OPTIONS is not answered 200 without traffic")
    for m in ("HEAD", "PUT", "DELETE", "PATCH", "get", "OPTION", None):
        need(refused(run(cfg__key=None, rq__method=m), 405), "probe: method %r is not refused with 405" % (m,))
    for pth in ("/pyr/http.obj/echo", "/pyro", "/pyrox/http.obj/echo", "/Pyro/http.obj/echo"):
        need(refused(run(cfg__key=None, rq__path=pth), 404), "probe: %r is not a 404 without traffic" % pth)
    # key parameter / header, both guards refuse without traffic
    o = run(rq__qs="$key=secret&msg=hi")
    need(o["crash"] is None and len(invokes(o)) == 1 and invokes(o)[0][5] == {"msg": "hi"}, "probe: $key=<right key> is not accepted and stripped")
    o = run(rq__keyhdr="secret")
    need(o["crash"] is None and len(invokes(o)) == 1, "probe: the key header is not accepted")
    for qs, hdr in (("msg=hi", ""), ("key=secret", ""), ("$key=secre", ""), ("$key=", ""), ("msg=hi", "nope"), ("$key=secret", "nope")):
        need(refused(run(rq__qs=qs, rq__keyhdr=hdr), 403), "probe: request with qs %r header %r on a keyed gateway is not a 403 without traffic" % (qs, hdr))
    need(refused(run(rq__method="POST", rq__qs="msg=hi"), 403), "probe: keyless POST is not refused")
    key_refuses = True
    for pth in ("/pyro/Pyro.NameServer/list", "/pyro/xhttp.obj/echo", "/pyro/Http.obj/echo"):
        need(refused(run(cfg__key=None, rq__path=pth), 403), "probe: %r (outside the pattern) is not a 403 without traffic" % pth)
    pat_refuses = True
    # pseudo member
    o = run(cfg__key=None, rq__path="/pyro/http.obj/$meta", rq__qs="")
    need(o["crash"] is None and o.get("status") == 200 and not invokes(o) and lookups(o) == ["http.obj"], "probe: $meta is not answered from the metadata")
    # oneway option and separator
    for opt, want in (("oneway", True), ("x,oneway", True), ("onewayx", False), ("x;oneway", False), (" oneway", False)):
        o = run(cfg__key=None, rq__options=opt)
        need(o["crash"] is None and len(invokes(o)) == 1 and bool(invokes(o)[0][6]) == want, "probe: options header %r gives oneway=%r" % (opt, not want))
    # path split
    o = run(cfg__key=None, rq__path="/pyro/http.o/b/echo", be__registry=[["http.o/b", "PYRO:o2@h:402"], ["http.o", "PYRO:o9@h:409"]])
    need(o["crash"] is None and lookups(o) == ["http.o/b"], "probe: /pyro/http.o/b/echo does not address object 'http.o/b'")
    need(refused(run(cfg__key=None, rq__path="/pyro/http.obj"), 404) and refused(run(cfg__key=None, rq__path="/pyro/a\nb/c"), 404),
         "probe: a path without <object>/<member> is not a 404")
    # index page limit
    many = [["http.n%02d" % i, "PYRO:o%d@h:%d" % (i, 400 + i)] for i in range(60)]
    o = run(rq__path="/pyro/", rq__qs="", be__registry=many)
    need(o["crash"] is None and o.get("status") == 200, "probe: index page failed")
    limit = len(lookups(o))
    need(1 <= limit < 60, "probe: index page detailed %d of 60 names" % limit)
    default_pat = getattr(gw.pyro_app, "ns_regex", None)
    need(isinstance(default_pat, str), "default expose pattern is not a string")
    return dict(B, mode="probed", default_pattern=default_pat, index_limit=limit, guards_first=True,
                key_refuses=key_refuses, pat_refuses=pat_refuses, ast_sha={})


@generator("GenGateway", SRC)
def gen_gateway(tree):
    try:
        f = read_ast(tree)
    except GenError as x:
        why = str(x)
        f = read_probe(tree)
        f["ast_reader"] = why
    out = HEADER % SRC
    out += "Definition path_prefix : list N := %s.   (* %r *)\n" % (ctext(f["prefix"]), f["prefix"])
    out += "Definition allowed_methods : list (list N) := %s.   (* %r *)\n" % (clist([ctext(m) for m in f["allowed"]]), f["allowed"])
    out += "Definition preflight_method : list N := %s.   (* %r *)\n" % (ctext(f["preflight"]), f["preflight"])
    out += "Definition key_param : list N := %s.   (* %r *)\n" % (ctext(f["key_param"]), f["key_param"])
    out += "Definition meta_member : list N := %s.   (* %r *)\n" % (ctext(f["meta"]), f["meta"])
    out += "Definition oneway_option : list N := %s.   (* %r *)\n" % (ctext(f["oneway"]), f["oneway"])
    out += "Definition options_sep : N := %s.\n" % cN(ord(f["sep"]))
    out += "Definition default_pattern : list N := %s.   (* %r *)\n" % (ctext(f["default_pattern"]), f["default_pattern"])
    out += "Definition index_limit : nat := %d%%nat.   (* listed names detailed on the index page *)\n" % f["index_limit"]
    out += "(* process_pyro_request: everything that mentions the name server / proxy machinery comes after the key guard and the\n"
    out += "   pattern guard, which both answer by return (read from the ast, or confirmed by probing the function) *)\n"
    out += "Definition guards_precede_backend : bool := %s.\n" % cbool(f["guards_first"])
    out += "Definition key_guard_refuses_by_return : bool := %s.\n" % cbool(f["key_refuses"])
    out += "Definition pattern_guard_refuses_by_return : bool := %s.\n" % cbool(f["pat_refuses"])
    return out, f
