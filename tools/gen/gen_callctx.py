"""GenCallCtx (C12): where the per-call context is set up, copied and reset.

Read with `ast` from Pyro5/server.py (handleRequest, _handshake, __annotations, _sendExceptionResponse,
_OnewayCallThread), Pyro5/callcontext.py and Pyro5/client.py (_pyroInvoke).  Emits the fields of the
`shape` record of coq/Model/CallCtx.v.  Anything that touches `current_context.response_annotations`
in a way this reader does not recognise fails closed."""
import ast
from tools.gen.gen import generator, parse, find_class, find_func, need, GenError, HEADER, clist, cN, cbool, ast_sha, tree_module

FIELDS = {"client": 0, "client_sock_addr": 1, "seq": 2, "msg_flags": 3, "serializer_id": 4, "annotations": 5,
          "correlation_id": 6, "response_annotations": 7}
RA = "response_annotations"


def is_cc(node, attr=None):
    return isinstance(node, ast.Attribute) and isinstance(node.value, ast.Name) and node.value.id == "current_context" \
        and (attr is None or node.attr == attr)


def is_empty_dict(v):
    return (isinstance(v, ast.Dict) and not v.keys) or \
        (isinstance(v, ast.Call) and isinstance(v.func, ast.Name) and v.func.id == "dict" and not v.args and not v.keywords)


def is_reset(st):
    return isinstance(st, ast.Assign) and len(st.targets) == 1 and is_cc(st.targets[0], RA) and is_empty_dict(st.value)


def contains(node, pred):
    return any(pred(n) for n in ast.walk(node))


def blocks_of(stmts):
    """every statement list nested in stmts (including stmts itself)"""
    yield stmts
    for st in stmts:
        for name in ("body", "orelse", "finalbody"):
            sub = getattr(st, name, None)
            if isinstance(sub, list) and sub and isinstance(sub[0], ast.stmt):
                yield from blocks_of(sub)
        for h in getattr(st, "handlers", []) or []:
            yield from blocks_of(h.body)


def uses_ctx_annotations(call):
    """SendingMessage(..., annotations=self.__annotations())"""
    for kw in call.keywords:
        if kw.arg == "annotations":
            v = kw.value
            return isinstance(v, ast.Call) and isinstance(v.func, ast.Attribute) and v.func.attr == "__annotations" \
                and isinstance(v.func.value, ast.Name) and v.func.value.id == "self" and not v.args and not v.keywords
    return False


def sending(st, msgtype=None):
    """the SendingMessage(...) call if st is `msg = protocol.SendingMessage(<msgtype>, ...)`"""
    if isinstance(st, ast.Assign) and isinstance(st.value, ast.Call):
        f = st.value.func
        if isinstance(f, ast.Attribute) and f.attr == "SendingMessage":
            if msgtype is None:
                return st.value
            a0 = st.value.args[0] if st.value.args else None
            if isinstance(a0, ast.Attribute) and a0.attr == msgtype:
                return st.value
    return None


def definitely_assigned(st):
    """context fields assigned on every path through statement st"""
    if isinstance(st, ast.Assign):
        return {t.attr for t in st.targets if is_cc(t)}
    if isinstance(st, ast.If):
        a = set().union(*[definitely_assigned(s) for s in st.body]) if st.body else set()
        b = set().union(*[definitely_assigned(s) for s in st.orelse]) if st.orelse else set()
        return a & b
    if isinstance(st, ast.Try):
        a = set().union(*[definitely_assigned(s) for s in st.body]) if st.body else set()
        for h in st.handlers:
            a &= set().union(*[definitely_assigned(s) for s in h.body]) if h.body else set()
        return a
    return set()


def all_ra_stores(func):
    return [n for n in ast.walk(func) if isinstance(n, (ast.Assign, ast.AugAssign, ast.AnnAssign, ast.Delete))
            and any(is_cc(t, RA) or (isinstance(t, ast.Subscript) and is_cc(t.value, RA))
                    for t in (n.targets if isinstance(n, (ast.Assign, ast.Delete)) else [n.target]))]


def all_ra_uses(func):
    return [n for n in ast.walk(func) if is_cc(n, RA)]


def first_index(stmts, pred):
    for i, st in enumerate(stmts):
        if pred(st):
            return i
    return None


def handle_request_facts(fn):
    tries = [s for s in fn.body if isinstance(s, ast.Try)]
    need(len(tries) == 2, "handleRequest: expected two top-level try statements (receive, main), found %d" % len(tries))
    recv, main = tries
    need(contains(recv, lambda n: isinstance(n, ast.Attribute) and n.attr == "recv_stub"), "handleRequest: first try does not receive the message")
    body = main.body
    is_ping_if = lambda st: isinstance(st, ast.If) and contains(st.test, lambda n: isinstance(n, ast.Attribute) and n.attr == "MSG_PING")
    is_loads = lambda st: contains(st, lambda n: isinstance(n, ast.Call) and isinstance(n.func, ast.Attribute) and n.func.attr in ("loadsCall", "__deserializeBlobArgs"))
    is_usercall = lambda st: contains(st, lambda n: isinstance(n, ast.Call) and (
        (isinstance(n.func, ast.Name) and n.func.id in ("method", "_OnewayCallThread")) or
        (isinstance(n.func, ast.Attribute) and n.func.attr == "_getInstance")))
    i_ping = first_index(body, is_ping_if)
    i_loads = first_index(body, is_loads)
    i_call = first_index(body, is_usercall)
    need(i_ping is not None and i_loads is not None and i_call is not None and i_ping < i_loads < i_call,
         "handleRequest: PING branch / argument decoding / method call not found in the expected order")
    # every store to response_annotations must be a recognised reset
    stores = all_ra_stores(fn)
    need(all(is_reset(s) for s in stores), "handleRequest: response_annotations is assigned something other than {}")
    uses = all_ra_uses(fn)
    need(len(uses) == len(stores), "handleRequest: response_annotations is used other than by `= {}`")
    top_resets = [i for i, st in enumerate(body) if is_reset(st)]
    # the normal reply block
    reply = None
    for blk in blocks_of(body):
        for i, st in enumerate(blk):
            if sending(st, "MSG_RESULT") is not None:
                need(reply is None, "handleRequest: more than one MSG_RESULT reply is built")
                reply = (blk, i)
    need(reply is not None, "handleRequest: the MSG_RESULT reply was not found")
    blk, i = reply
    need(uses_ctx_annotations(sending(blk[i], "MSG_RESULT")), "handleRequest: the normal reply does not take its annotations from self.__annotations()")
    need(blk is not body, "handleRequest: reply block is not nested as expected")
    after = [s for s in blk[i + 1:] if is_reset(s)]
    nested_ok = len(after)
    need(not any(is_reset(s) for s in blk[:i]), "handleRequest: response_annotations reset just before the reply is built")
    need(len(stores) == len(top_resets) + nested_ok, "handleRequest: response_annotations is reset in an unrecognised position")
    # ping reply
    ping_if = body[i_ping]
    ps = [sending(s, "MSG_PING") for s in ping_if.body if sending(s, "MSG_PING") is not None]
    need(len(ps) == 1 and uses_ctx_annotations(ps[0]), "handleRequest: PING reply does not take its annotations from self.__annotations()")
    need(isinstance(ping_if.body[-1], ast.Return), "handleRequest: PING branch does not return")
    # error path
    need(len(main.handlers) == 1, "handleRequest: main try has not exactly one handler")
    calls = [n for n in ast.walk(main) if isinstance(n, ast.Call) and isinstance(n.func, ast.Attribute) and n.func.attr == "_sendExceptionResponse"]
    in_handler = [n for n in ast.walk(main.handlers[0]) if isinstance(n, ast.Call) and isinstance(n.func, ast.Attribute) and n.func.attr == "_sendExceptionResponse"]
    need(len(in_handler) == 1 and not any(k.arg == "annotations" for k in in_handler[0].keywords) and len(in_handler[0].args) <= 5,
         "handleRequest: the error path passes annotations to _sendExceptionResponse")
    # position of the reset at the start
    if not top_resets:
        pos = 0
    else:
        r = top_resets[0]
        if r < i_ping:
            pos = 1
        elif r < i_loads:
            pos = 2
        elif r < i_call:
            pos = 3
        else:
            raise GenError("handleRequest: response_annotations reset between the method call and the reply")
    # context set-up
    fields = set()
    for st in body[:i_call]:
        fields |= definitely_assigned(st)
    unknown = fields - set(FIELDS)
    need(not unknown, "handleRequest: unknown context fields assigned: %s" % sorted(unknown))
    setup = sorted(FIELDS[f] for f in fields if f != RA)
    return {"reset_pos": pos, "reset_after": bool(after), "setup": setup}


def handshake_facts(fn):
    tries = [(i, s) for i, s in enumerate(fn.body) if isinstance(s, ast.Try)]
    need(len(tries) == 1, "_handshake: expected exactly one top-level try")
    ti, tr = tries[0]
    stores = all_ra_stores(fn)
    need(all(is_reset(s) for s in stores), "_handshake: response_annotations is assigned something other than {}")
    need(len(all_ra_uses(fn)) == len(stores), "_handshake: response_annotations is used other than by `= {}`")
    i_recv = first_index(tr.body, lambda st: contains(st, lambda n: isinstance(n, ast.Attribute) and n.attr == "recv_stub"))
    i_valid = first_index(tr.body, lambda st: contains(st, lambda n: isinstance(n, ast.Attribute) and n.attr == "validateHandshake"))
    need(i_recv is not None and i_valid is not None and i_recv < i_valid and all(is_reset(s) for s in tr.body[:i_recv]),
         "_handshake: recv_stub is not the first statement of the try / validateHandshake not found")
    before = [s for s in fn.body[:ti] if is_reset(s)]
    inside = [i for i, s in enumerate(tr.body) if is_reset(s)]
    need(len(stores) == len(before) + len(inside), "_handshake: response_annotations is reset in an unrecognised position")
    if before or (inside and inside[0] < i_recv):
        pos = 2
    elif inside and inside[0] < i_valid:
        # a `raise Exception(denied_reason)` or any failing statement between recv_stub and the reset would skip it
        between = tr.body[i_recv + 1:inside[0]]
        pos = 1 if not any(contains(s, lambda n: isinstance(n, ast.Raise)) for s in between) else 0
    elif inside:
        raise GenError("_handshake: response_annotations reset after the validator ran")
    else:
        pos = 0
    sends = [sending(s) for s in fn.body[ti + 1:] if sending(s) is not None]
    need(len(sends) == 1 and uses_ctx_annotations(sends[0]), "_handshake: the answer does not take its annotations from self.__annotations()")
    return {"reset_pos": pos}


def annotations_fn_facts(fn):
    b = [s for s in fn.body if not (isinstance(s, ast.Expr) and isinstance(s.value, ast.Constant))]
    need(len(b) == 3 and isinstance(b[0], ast.Assign) and len(b[0].targets) == 1 and isinstance(b[0].targets[0], ast.Name),
         "__annotations: unrecognised shape")
    var = b[0].targets[0].id
    v = b[0].value
    if is_cc(v, RA):
        inplace = True
    elif isinstance(v, ast.Call) and ((isinstance(v.func, ast.Name) and v.func.id == "dict" and len(v.args) == 1 and is_cc(v.args[0], RA) and not v.keywords)
                                      or (isinstance(v.func, ast.Attribute) and v.func.attr == "copy" and is_cc(v.func.value, RA) and not v.args)):
        inplace = False
    else:
        raise GenError("__annotations: does not start from current_context.response_annotations")
    u = b[1]
    ok = isinstance(u, ast.Expr) and isinstance(u.value, ast.Call) and isinstance(u.value.func, ast.Attribute) and u.value.func.attr == "update" \
        and isinstance(u.value.func.value, ast.Name) and u.value.func.value.id == var and len(u.value.args) == 1 \
        and isinstance(u.value.args[0], ast.Call) and isinstance(u.value.args[0].func, ast.Attribute) and u.value.args[0].func.attr == "annotations" \
        and isinstance(u.value.args[0].func.value, ast.Name) and u.value.args[0].func.value.id == "self"
    need(ok, "__annotations: second statement is not <var>.update(self.annotations())")
    need(isinstance(b[2], ast.Return) and isinstance(b[2].value, ast.Name) and b[2].value.id == var, "__annotations: does not return the merged dict")
    return {"inplace": inplace}


def callcontext_facts(mod):
    cls = find_class(mod, "_CallContext")
    tl = len(cls.bases) == 1 and isinstance(cls.bases[0], ast.Attribute) and cls.bases[0].attr == "local" \
        and isinstance(cls.bases[0].value, ast.Name) and cls.bases[0].value.id == "threading"
    need(tl or not any(isinstance(b, ast.Attribute) and b.attr == "local" for b in cls.bases), "_CallContext: unrecognised base classes")
    init = find_func(mod, "__init__", "_CallContext")
    init_fields = set()
    for st in init.body:
        if isinstance(st, ast.Assign):
            for t in st.targets:
                if isinstance(t, ast.Attribute) and isinstance(t.value, ast.Name) and t.value.id == "self":
                    init_fields.add(t.attr)
    need(init_fields == set(FIELDS), "_CallContext.__init__: fields %s differ from the modelled ones" % sorted(init_fields ^ set(FIELDS)))
    tg = find_func(mod, "to_global", "_CallContext")
    b = [s for s in tg.body if not (isinstance(s, ast.Expr) and isinstance(s.value, ast.Constant))]
    need(len(b) == 1 and isinstance(b[0], ast.Return) and ast.dump(b[0].value) == ast.dump(ast.parse("dict(self.__dict__)", mode="eval").body),
         "_CallContext.to_global is not `return dict(self.__dict__)`")
    fg = find_func(mod, "from_global", "_CallContext")
    need(len(fg.args.args) == 2, "_CallContext.from_global: unexpected signature")
    vname = fg.args.args[1].arg
    restored = set()
    for st in fg.body:
        if isinstance(st, ast.Expr) and isinstance(st.value, ast.Constant):
            continue
        need(isinstance(st, ast.Assign) and len(st.targets) == 1 and isinstance(st.targets[0], ast.Attribute)
             and isinstance(st.targets[0].value, ast.Name) and st.targets[0].value.id == "self", "_CallContext.from_global: unrecognised statement")
        v = st.value
        if isinstance(v, ast.Subscript) and isinstance(v.value, ast.Name) and v.value.id == vname:
            k = v.slice
            if isinstance(k, ast.Constant) and k.value == st.targets[0].attr:
                restored.add(st.targets[0].attr)
    inst = [n for n in mod.body if isinstance(n, ast.Assign) and len(n.targets) == 1 and isinstance(n.targets[0], ast.Name)
            and n.targets[0].id == "current_context"]
    need(len(inst) == 1 and isinstance(inst[0].value, ast.Call) and isinstance(inst[0].value.func, ast.Name) and inst[0].value.func.id == "_CallContext",
         "callcontext.current_context is not a module-level _CallContext()")
    return {"thread_local": tl, "restored": sorted(FIELDS[f] for f in restored if f in FIELDS)}


def oneway_thread_facts(mod):
    init = find_func(mod, "__init__", "_OnewayCallThread")
    saved = any(isinstance(s, ast.Assign) and isinstance(s.value, ast.Call) and isinstance(s.value.func, ast.Attribute)
                and s.value.func.attr == "to_global" and is_cc(s.value.func) and len(s.targets) == 1
                and isinstance(s.targets[0], ast.Attribute) and s.targets[0].attr == "parent_context" for s in init.body)
    run = find_func(mod, "run", "_OnewayCallThread")
    b = [s for s in run.body if not (isinstance(s, ast.Expr) and isinstance(s.value, ast.Constant))]
    restores = len(b) >= 2 and isinstance(b[0], ast.Expr) and isinstance(b[0].value, ast.Call) and isinstance(b[0].value.func, ast.Attribute) \
        and b[0].value.func.attr == "from_global" and is_cc(b[0].value.func) and len(b[0].value.args) == 1 \
        and isinstance(b[0].value.args[0], ast.Attribute) and b[0].value.args[0].attr == "parent_context"
    return {"copies": bool(saved and restores)}


def client_facts(mod):
    fn = find_func(mod, "_pyroInvoke", "Proxy")
    i_reset = first_index(fn.body, is_reset)
    i_conn = first_index(fn.body, lambda st: contains(st, lambda n: isinstance(n, ast.Attribute) and n.attr.endswith("__pyroCreateConnection")))
    i_try = first_index(fn.body, lambda st: isinstance(st, ast.Try))
    need(i_conn is not None and i_try is not None and i_conn < i_try, "_pyroInvoke: connection set-up / send not found in the expected order")
    stores = all_ra_stores(fn)
    resets = [s for s in stores if is_reset(s)]
    need(len(resets) <= 1 and (i_reset is not None) == bool(resets), "_pyroInvoke: response_annotations reset in an unrecognised position")
    others = [s for s in stores if not is_reset(s)]
    ok = len(others) == 1 and isinstance(others[0], ast.Assign) and isinstance(others[0].value, ast.Attribute) and others[0].value.attr == "annotations"
    need(ok, "_pyroInvoke: response_annotations is not set from the reply's annotations exactly once")
    guard = [n for n in ast.walk(fn) if isinstance(n, ast.If) and others[0] in n.body]
    need(len(guard) == 1 and isinstance(guard[0].test, ast.Attribute) and guard[0].test.attr == "annotations" and len(guard[0].body) == 1,
         "_pyroInvoke: the reply's annotations are not stored under `if msg.annotations:`")
    return {"reset": i_reset is not None and i_reset < i_conn}



# ---------------------------------------------------------------- second reader: the same facts, measured
class _FakeSock(object):
    family = 2

    def __init__(self, peer_ok):
        self.peer_ok = peer_ok

    def getpeername(self):
        if not self.peer_ok:
            import errno
            raise OSError(errno.ENOTCONN, "Transport endpoint is not connected")
        return ("127.0.0.1", 45678)

    def getsockname(self):
        return ("127.0.0.1", 45679)


class _FakeConn(object):
    """stands in for a SocketConnection: serves the bytes of one message, records what is sent"""
    def __init__(self, data, errors_mod, peer_ok=True):
        self.buf, self.sent, self.sock = bytearray(data), [], _FakeSock(peer_ok)
        self.errors_mod = errors_mod
        self.pyroInstances, self.tracked_resources, self.keep_open, self.objectId = {}, set(), False, None

    def recv(self, size):
        if len(self.buf) < size:
            raise self.errors_mod.ConnectionClosedError("receiving: not enough data")
        out = bytes(self.buf[:size])
        del self.buf[:size]
        return out

    def send(self, data):
        self.sent.append(bytes(data))

    def close(self):
        pass

    def fileno(self):
        return -1


def probe_server(tree):
    """The facts of the `shape` record read by running the real handleRequest / _handshake / _OnewayCallThread of the tree
    under test on stand-in connections, with the calling thread's context poisoned beforehand.  Used when the ast reader
    does not recognise the source (refactored helpers, renamed locals, extra guards)."""
    import threading, uuid
    srvm = tree_module(tree, "Pyro5.server")
    prot = tree_module(tree, "Pyro5.protocol")
    ccm = tree_module(tree, "Pyro5.callcontext")
    serm = tree_module(tree, "Pyro5.serializers")
    errm = tree_module(tree, "Pyro5.errors")
    corem = tree_module(tree, "Pyro5.core")
    cfg = tree_module(tree, "Pyro5").config
    cc = ccm.current_context
    names = ["client", "client_sock_addr", "seq", "msg_flags", "serializer_id", "annotations", "correlation_id", "response_annotations"]
    need(all(hasattr(cc, n) for n in names) and set(vars(cc)) == set(names), "call context fields differ from the modelled ones: %s" % sorted(vars(cc)))
    saved = {n: getattr(cc, n) for n in names}
    ser = serm.serializers["serpent"]
    seen = {}

    class Probe(object):
        def look(self):
            seen["fields"] = {n: getattr(cc, n) for n in names}
            seen["resp_at_entry"] = dict(cc.response_annotations)
            seen["thread"] = threading.current_thread()
            cc.response_annotations["YSET"] = b"y"
            return 1
    srvm.expose(Probe)

    class D(srvm.Daemon):
        def annotations(self):
            return {"DMNA": b"d"}
    old_type = cfg.SERVERTYPE
    cfg.SERVERTYPE = "multiplex"
    try:
        d = D(host="127.0.0.1", port=0)
    finally:
        cfg.SERVERTYPE = old_type
    try:
        d.register(Probe(), "probe")

        def message(msgtype, flags, seq, payload, annotations=None, corr=None):
            cc.correlation_id = corr
            try:
                return bytes(prot.SendingMessage(msgtype, flags, seq, ser.serializer_id, payload, annotations=annotations or {}).data)
            finally:
                cc.correlation_id = None

        def parse_reply(conn):
            need(len(conn.sent) == 1, "probe: expected exactly one reply, got %d" % len(conn.sent))
            hs = prot._header_size if hasattr(prot, "_header_size") else 40
            return prot.ReceivingMessage(conn.sent[0][:hs], conn.sent[0][hs:])

        def poison():
            cc.response_annotations = {"XPOI": b"p"}

        def serve(data, peer_ok=True):
            conn = _FakeConn(data, errm, peer_ok)
            try:
                d.handleRequest(conn)
            except Exception:
                pass
            return conn
        # -- ping
        poison()
        conn = serve(message(prot.MSG_PING, 0, 3, b"ping"))
        m = parse_reply(conn)
        need(m.type == prot.MSG_PING, "probe: ping not answered with a ping")
        ping_clean = "XPOI" not in m.annotations
        need("DMNA" in m.annotations, "probe: ping answer lacks the daemon's annotations")
        inplace = "DMNA" in cc.response_annotations
        # -- undecodable arguments
        poison()
        serve(message(prot.MSG_INVOKE, 0, 4, b"\x00\x01 not a call \xff"))
        undec_clean = "XPOI" not in cc.response_annotations
        # -- a call, context poisoned before; request A carries everything, request B nothing and its peer is unknown
        sent_conn, sent_corr = object(), uuid.UUID(int=0x5e47)

        def poison_fields():
            cc.client, cc.client_sock_addr, cc.seq, cc.msg_flags, cc.serializer_id = sent_conn, ("9.9.9.9", 9), 54321, 0x7000, 99
            cc.annotations, cc.correlation_id = {"SENT": b"s"}, sent_corr
        call = ser.dumpsCall("probe", "look", (), {})
        corr_a = uuid.UUID(int=0xa11ce)
        poison()
        poison_fields()
        data_a = message(prot.MSG_INVOKE, 0, 7, call, {"QREQ": b"1"}, corr_a)
        flags_a = prot.ReceivingMessage(data_a[:40]).flags
        conn = serve(data_a)
        need("fields" in seen, "probe: the method was not called")
        fa, call_clean = seen.pop("fields"), "XPOI" not in seen["resp_at_entry"]
        m = parse_reply(conn)
        need(m.type == prot.MSG_RESULT and not (m.flags & prot.FLAGS_EXCEPTION) and "YSET" in m.annotations, "probe: the reply lacks the call's own annotation")
        reset_after = "YSET" not in cc.response_annotations
        ok_a = {"client": fa["client"] is conn, "client_sock_addr": fa["client_sock_addr"] == ("127.0.0.1", 45678), "seq": fa["seq"] == 7,
                "msg_flags": fa["msg_flags"] == flags_a, "serializer_id": fa["serializer_id"] == ser.serializer_id,
                "annotations": {k: bytes(v) for k, v in dict(fa["annotations"]).items()} == {"QREQ": b"1"}, "correlation_id": fa["correlation_id"] == corr_a}
        poison_fields()
        data_b = message(prot.MSG_INVOKE, 0, 8, call)
        conn = serve(data_b, peer_ok=False)
        need("fields" in seen, "probe: the method was not called for a request whose peer is unknown")
        fb = seen.pop("fields")
        ok_b = {"client": fb["client"] is conn, "client_sock_addr": fb["client_sock_addr"] is None, "seq": fb["seq"] == 8,
                "msg_flags": fb["msg_flags"] == prot.ReceivingMessage(data_b[:40]).flags, "serializer_id": fb["serializer_id"] == ser.serializer_id,
                "annotations": dict(fb["annotations"]) == {} and fb["annotations"] is not fa["annotations"],
                "correlation_id": isinstance(fb["correlation_id"], uuid.UUID) and fb["correlation_id"] not in (sent_corr, corr_a)}
        setup = sorted(FIELDS[n] for n in ok_a if ok_a[n] and ok_b[n])
        if ping_clean and call_clean:
            hr_pos = 1
        elif call_clean:
            hr_pos = 2 if undec_clean else 3
        else:
            hr_pos = 0
        # -- handshake: first message unreadable / a proper CONNECT
        poison()
        conn = _FakeConn(message(prot.MSG_PING, 0, 1, b"ping"), errm)
        try:
            d._handshake(conn)
        except Exception:
            pass
        m = parse_reply(conn)
        need(m.type == prot.MSG_CONNECTFAIL, "probe: a non-CONNECT first message is not answered with CONNECTFAIL")
        hs_garbage_clean = "XPOI" not in m.annotations
        poison()
        conn = _FakeConn(message(prot.MSG_CONNECT, 0, 1, ser.dumps({"handshake": "hello", "object": corem.DAEMON_NAME})), errm)
        try:
            d._handshake(conn)
        except Exception:
            pass
        m = parse_reply(conn)
        need(m.type == prot.MSG_CONNECTOK, "probe: a proper CONNECT is not accepted")
        hs_ok_clean = "XPOI" not in m.annotations
        hs_pos = 2 if (hs_garbage_clean and hs_ok_clean) else (1 if hs_ok_clean else 0)
        # -- the oneway thread: context V1 when the thread object is made, changed to V2 before the thread gets to run
        v1 = {"client": object(), "client_sock_addr": ("1.1.1.1", 1), "seq": 11, "msg_flags": 16, "serializer_id": 2,
              "annotations": {"AAAA": b"a"}, "correlation_id": uuid.UUID(int=0xb0b), "response_annotations": {"RRRR": b"r"}}
        for n, v in v1.items():
            setattr(cc, n, v)
        got = {}

        def oneway_method():
            got.update({n: getattr(cc, n) for n in names})
        th = srvm._OnewayCallThread(oneway_method, (), {}, d, None)
        for n, v in {"client": object(), "client_sock_addr": ("2.2.2.2", 2), "seq": 22, "msg_flags": 0, "serializer_id": 3,
                     "annotations": {"BBBB": b"b"}, "correlation_id": uuid.UUID(int=0xc0c), "response_annotations": {"SSSS": b"s"}}.items():
            setattr(cc, n, v)
        th.start()
        th.join(10)
        need(bool(got), "probe: the oneway thread did not run its method")
        oneway = sorted(FIELDS[n] for n in names if (got[n] is v1[n] or (isinstance(v1[n], (dict, tuple, int, uuid.UUID)) and got[n] == v1[n])))
        # -- is the context per thread?
        cc.seq = 777
        other = {}
        t2 = threading.Thread(target=lambda: other.update(seq=cc.seq))
        t2.start()
        t2.join(10)
        thread_local = other.get("seq") != 777
    finally:
        for n, v in saved.items():
            setattr(cc, n, v)
        try:
            d.close()
        except Exception:
            pass
    return {"handleRequest": {"reset_pos": hr_pos, "reset_after": reset_after, "setup": setup},
            "handshake": {"reset_pos": hs_pos}, "annotations_fn": {"inplace": inplace},
            "callcontext": {"thread_local": thread_local, "restored": oneway}, "oneway": {"copies": bool(oneway)}}


def probe_client(tree):
    """client half of the second reader: Proxy._pyroInvoke of the tree under test is run on a stand-in connection with the
    calling thread's response annotations poisoned beforehand; `reset` = nothing of what was there before the call is left
    afterwards when the call gets a reply without annotations, gets no reply (oneway), or fails while reading the reply"""
    clim = tree_module(tree, "Pyro5.client")
    prot = tree_module(tree, "Pyro5.protocol")
    ccm = tree_module(tree, "Pyro5.callcontext")
    serm = tree_module(tree, "Pyro5.serializers")
    errm = tree_module(tree, "Pyro5.errors")
    cc = ccm.current_context
    ser = serm.serializers["serpent"]
    saved = {n: getattr(cc, n) for n in ("response_annotations", "annotations", "correlation_id")}

    class Conn(object):
        """answers the request it is sent with a RESULT that has the request's sequence number"""
        objectId = "probe"
        keep_open = False

        def __init__(self, reply_annotations, fail=False):
            self.reply_annotations, self.fail, self.buf, self.requests = reply_annotations, fail, bytearray(), []

        def send(self, data):
            data = bytes(data)
            self.requests.append(data)
            req = prot.ReceivingMessage(data[:40])
            if not self.fail:
                corr, cc.correlation_id = cc.correlation_id, None
                try:
                    self.buf += bytes(prot.SendingMessage(prot.MSG_RESULT, 0, req.seq, req.serializer_id, ser.dumps(42),
                                                          annotations=self.reply_annotations).data)
                finally:
                    cc.correlation_id = corr

        def recv(self, size):
            if len(self.buf) < size:
                raise errm.ConnectionClosedError("receiving: not enough data")
            out = bytes(self.buf[:size])
            del self.buf[:size]
            return out

        def close(self):
            pass

    def invoke(conn, flags=0):
        p = clim.Proxy("PYRO:probe@127.0.0.1:9")
        p._pyroSerializer = "serpent"
        p._pyroMaxRetries = 0
        p._pyroConnection = conn
        cc.response_annotations = {"XPOI": b"p"}
        cc.annotations, cc.correlation_id = {}, None
        try:
            value = p._pyroInvoke("look", (), {}, flags=flags)
        except errm.CommunicationError:
            value = "comm-error"
        finally:
            p._pyroConnection = None
        return value, {k: bytes(v) for k, v in dict(cc.response_annotations).items()}
    try:
        v, after_plain = invoke(Conn({}))
        need(v == 42, "probe: _pyroInvoke did not return the reply's value")
        v, after_ann = invoke(Conn({"RSET": b"1"}))
        need(v == 42 and after_ann == {"RSET": b"1"}, "_pyroInvoke: the reply's annotations are not what the client holds after the call")
        v, after_oneway = invoke(Conn({}), flags=prot.FLAGS_ONEWAY)
        need(v is None, "probe: a oneway _pyroInvoke returned something")
        v, after_fail = invoke(Conn({}, fail=True))
        need(v == "comm-error", "probe: a lost reply did not give a communication error")
    finally:
        for n, val in saved.items():
            setattr(cc, n, val)
    return {"reset": after_plain == {} and after_oneway == {} and after_fail == {}}


def server_facts_ast(tree):
    srv, _ = parse(tree, "Pyro5/server.py")
    ccm, _ = parse(tree, "Pyro5/callcontext.py")
    hr = find_func(srv, "handleRequest", "Daemon")
    hs = find_func(srv, "_handshake", "Daemon")
    an = find_func(srv, "__annotations", "Daemon")
    se = find_func(srv, "_sendExceptionResponse", "Daemon")
    need(not contains(se, lambda n: isinstance(n, ast.Name) and n.id == "current_context"), "_sendExceptionResponse reads the call context")
    need(not contains(se, lambda n: isinstance(n, ast.Attribute) and n.attr == "__annotations"), "_sendExceptionResponse uses __annotations()")
    # nothing else in the Daemon class touches the response annotations
    dcls = find_class(srv, "Daemon")
    for f in dcls.body:
        if isinstance(f, ast.FunctionDef) and f.name not in ("handleRequest", "_handshake", "__annotations"):
            need(not all_ra_uses(f), "Daemon.%s uses current_context.response_annotations" % f.name)
            need(not contains(f, lambda n: isinstance(n, ast.Attribute) and n.attr == "__annotations"), "Daemon.%s calls __annotations()" % f.name)
    return {"handleRequest": handle_request_facts(hr), "handshake": handshake_facts(hs), "annotations_fn": annotations_fn_facts(an),
            "callcontext": callcontext_facts(ccm), "oneway": oneway_thread_facts(srv)}


@generator("GenCallCtx", "Pyro5/server.py", "Pyro5/callcontext.py", "Pyro5/client.py")
def gen_callctx(tree):
    cli, _ = parse(tree, "Pyro5/client.py")
    try:
        facts = server_facts_ast(tree)
        mode = "ast"
    except GenError as x:
        # the source is not written the way the ast reader expects: measure the same facts on the running code
        facts = probe_server(tree)
        mode = "probed (ast reader: %s)" % x
    f_hr, f_hs, f_an, f_cc, f_ow = facts["handleRequest"], facts["handshake"], facts["annotations_fn"], facts["callcontext"], facts["oneway"]
    try:
        f_cl = client_facts(cli)
    except GenError as x:
        f_cl = probe_client(tree)
        mode += "; client probed (ast reader: %s)" % x
    oneway = f_cc["restored"] if f_ow["copies"] else []
    out = HEADER % "Pyro5/server.py, Pyro5/callcontext.py, Pyro5/client.py"
    out += "(* field ids: %s *)\n" % ", ".join("%s=%d" % (k, v) for k, v in FIELDS.items())
    out += "Definition ctx_thread_local : bool := %s.   (* class _CallContext(threading.local) *)\n" % cbool(f_cc["thread_local"])
    out += "(* `current_context.response_annotations = {}` at the start of handleRequest: 0 none, 1 before the PING branch,\n"
    out += "   2 after it and before the arguments are decoded, 3 later but before the method call *)\n"
    out += "Definition hr_reset_pos : N := %s.\n" % cN(f_hr["reset_pos"])
    out += "(* same in _handshake: 0 none, 1 inside the try after recv_stub, 2 before everything *)\n"
    out += "Definition hs_reset_pos : N := %s.\n" % cN(f_hs["reset_pos"])
    out += "Definition hr_reset_after_reply : bool := %s.\n" % cbool(f_hr["reset_after"])
    out += "Definition annotations_inplace : bool := %s.\n" % cbool(f_an["inplace"])
    out += "Definition hr_setup_fields : list N := %s.\n" % clist([cN(x) for x in f_hr["setup"]])
    out += "Definition oneway_fields : list N := %s.\n" % clist([cN(x) for x in oneway])
    out += "Definition client_reset_at_invoke : bool := %s.\n" % cbool(f_cl["reset"])
    info = {"handleRequest": f_hr, "handshake": f_hs, "annotations_fn": f_an, "callcontext": f_cc, "oneway": f_ow, "client": f_cl,
            "mode": mode}
    return out, info
