"""GenInstances (C09): the shape of Daemon._getInstance and SocketConnection.close() that the
instance-mode theorems depend on, re-read from the source on every run:

  * the test applied to the looked-up instance in the 'single' and the 'session' branch
    (`not x` / `x is None` / `x == None`, either polarity),
  * whether lookup + creation + store of the 'single' branch all lie inside ONE `with self.<lock>:`
    region, <lock> being a threading.Lock/RLock created in Daemon.__init__,
  * that the 'session' table is the connection's `pyroInstances` and the 'single' table is the
    daemon's `_pyroInstances`, that 'percall' touches no table,
  * whether SocketConnection.close() unconditionally empties `pyroInstances`.

Anything that does not have a recognised shape raises GenError (fail closed)."""
import ast
from tools.gen.gen import generator, parse, find_class, find_func, need, GenError, HEADER, cbool, ast_sha

SINGLE_TABLE = ("self", "_pyroInstances")
SESSION_TABLE = ("conn", "pyroInstances")


def is_attr(node, base, attr):
    return isinstance(node, ast.Attribute) and isinstance(node.value, ast.Name) and node.value.id == base and node.attr == attr


def table_of(node):
    """(base, attr) if node is one of the two instance tables"""
    for t in (SINGLE_TABLE, SESSION_TABLE):
        if is_attr(node, *t):
            return t
    return None


def classify_test(test, var):
    """-> (ltest constructor, polarity) ; polarity True: the test is true when a NEW instance is needed"""
    def is_var(n):
        return isinstance(n, ast.Name) and n.id == var

    def is_none(n):
        return isinstance(n, ast.Constant) and n.value is None
    if isinstance(test, ast.UnaryOp) and isinstance(test.op, ast.Not) and is_var(test.operand):
        return "TNotTruthy", True
    if is_var(test):
        return "TNotTruthy", False
    if isinstance(test, ast.Compare) and len(test.ops) == 1 and len(test.comparators) == 1:
        l, r, op = test.left, test.comparators[0], test.ops[0]
        if is_var(l) and is_none(r):
            if isinstance(op, ast.Is):
                return "TIsNone", True
            if isinstance(op, ast.IsNot):
                return "TIsNone", False
            if isinstance(op, ast.Eq):
                return "TEqNone", True
            if isinstance(op, ast.NotEq):
                return "TEqNone", False
        if is_none(l) and is_var(r):
            if isinstance(op, ast.Is):
                return "TIsNone", True
            if isinstance(op, ast.IsNot):
                return "TIsNone", False
    raise GenError("unrecognised test on the looked-up instance: " + ast.dump(test)[:160])


def mode_branches(func):
    """the if/elif chain on `instance_mode == "<literal>"` -> {mode: body}, else-body"""
    modevar = None
    for st in func.body:
        if isinstance(st, ast.Assign) and len(st.targets) == 1 and isinstance(st.targets[0], ast.Tuple) \
                and len(st.targets[0].elts) == 2 and all(isinstance(e, ast.Name) for e in st.targets[0].elts) \
                and is_attr(st.value, "clazz", "_pyroInstancing"):
            modevar = st.targets[0].elts[0].id
            creatorvar = st.targets[0].elts[1].id
    need(modevar is not None, "_getInstance does not unpack clazz._pyroInstancing into (mode, creator)")
    chains = [st for st in func.body if isinstance(st, ast.If)]
    need(len(chains) == 1, "_getInstance: expected exactly one top-level if-chain on the instance mode")
    node, out = chains[0], {}
    while True:
        t = node.test
        need(isinstance(t, ast.Compare) and isinstance(t.left, ast.Name) and t.left.id == modevar and len(t.ops) == 1
             and isinstance(t.ops[0], ast.Eq) and isinstance(t.comparators[0], ast.Constant)
             and isinstance(t.comparators[0].value, str), "_getInstance: mode test is not `%s == \"<literal>\"`" % modevar)
        m = t.comparators[0].value
        need(m not in out, "duplicate branch for mode " + m)
        out[m] = node.body
        if len(node.orelse) == 1 and isinstance(node.orelse[0], ast.If):
            node = node.orelse[0]
            continue
        orelse = node.orelse
        break
    need(set(out) == {"single", "session", "percall"}, "_getInstance: branches are %s, expected single/session/percall" % sorted(out))
    need(len(orelse) == 1 and isinstance(orelse[0], ast.Raise), "_getInstance: the final else does not raise")
    # statements after the chain would run for every mode
    idx = func.body.index(chains[0])
    need(idx == len(func.body) - 1, "_getInstance: statements after the mode dispatch")
    return out, creatorvar


def analyse_branch(body, table, lock_ok_attrs):
    """facts about one get-or-create branch. Returns dict(test, locked, lock_attr)."""
    events = []          # (kind, inside_lock, node)
    locks = []           # lock attrs used, one entry per outermost region

    def walk(node, depth):
        if isinstance(node, (ast.FunctionDef, ast.AsyncFunctionDef, ast.Lambda, ast.ClassDef)):
            raise GenError("nested definition inside a mode branch")
        if isinstance(node, (ast.While, ast.For, ast.Try)):
            raise GenError("loop/try inside a mode branch: not analysable")
        if isinstance(node, ast.With):
            attrs = [it.context_expr.attr for it in node.items
                     if isinstance(it.context_expr, ast.Attribute) and isinstance(it.context_expr.value, ast.Name)
                     and it.context_expr.value.id == "self" and it.context_expr.attr in lock_ok_attrs]
            need(len(attrs) == len(node.items), "with-statement on something that is not a daemon lock")
            need(len(node.items) == 1 and node.items[0].optional_vars is None, "unrecognised with-statement")
            if depth == 0:
                locks.append(attrs[0])
            for st in node.body:
                walk(st, depth + 1)
            return
        t = table_of(node)
        if t is not None:
            events.append(("table:%s.%s" % t, depth > 0, node))
        if isinstance(node, ast.Call) and isinstance(node.func, ast.Name) and node.func.id == "createInstance":
            events.append(("create", depth > 0, node))
        for ch in ast.iter_child_nodes(node):
            walk(ch, depth)
    for st in body:
        walk(st, 0)
    want = "table:%s.%s" % table
    tabs = [e for e in events if e[0].startswith("table:")]
    need(tabs and all(e[0] == want for e in tabs), "branch uses %s, expected only %s" % (sorted({e[0] for e in tabs}), want))
    creates = [e for e in events if e[0] == "create"]
    need(len(creates) == 1, "branch calls createInstance %d times" % len(creates))
    # lookup: X = <table>.get(clazz)
    lookups, stores, tests = [], [], []
    for st in ast.walk(ast.Module(body=body, type_ignores=[])):
        if isinstance(st, ast.Assign) and len(st.targets) == 1 and isinstance(st.targets[0], ast.Name) \
                and isinstance(st.value, ast.Call) and isinstance(st.value.func, ast.Attribute) \
                and st.value.func.attr == "get" and table_of(st.value.func.value) == table:
            need(len(st.value.args) == 1 and isinstance(st.value.args[0], ast.Name) and st.value.args[0].id == "clazz"
                 and not st.value.keywords, "table lookup is not .get(clazz)")
            lookups.append(st.targets[0].id)
        if isinstance(st, ast.Assign) and len(st.targets) == 1 and isinstance(st.targets[0], ast.Subscript) \
                and table_of(st.targets[0].value) == table:
            sl = st.targets[0].slice
            need(isinstance(sl, ast.Name) and sl.id == "clazz", "table store is not [clazz] = ...")
            stores.append(st)
        if isinstance(st, ast.If):
            tests.append(st)
    need(len(lookups) == 1, "expected exactly one `x = table.get(clazz)` (found %d)" % len(lookups))
    need(len(stores) == 1, "expected exactly one `table[clazz] = x` (found %d)" % len(stores))
    need(len(tabs) == 2, "table is accessed %d times, expected lookup and store only" % len(tabs))
    need(len(tests) == 1, "expected exactly one if-statement in the branch (found %d)" % len(tests))
    var = lookups[0]
    kind, pol = classify_test(tests[0].test, var)
    ifnode = tests[0]
    need(not ifnode.orelse, "if-statement in the branch has an else part")
    contains_create = any(isinstance(n, ast.Call) and isinstance(n.func, ast.Name) and n.func.id == "createInstance"
                          for n in ast.walk(ast.Module(body=ifnode.body, type_ignores=[])))
    contains_store = any(n is stores[0] for n in ast.walk(ast.Module(body=ifnode.body, type_ignores=[])))
    if pol:
        need(contains_create and contains_store, "the create/store is not guarded by the test")
    else:
        need(not contains_create and not contains_store and len(ifnode.body) == 1 and isinstance(ifnode.body[0], ast.Return)
             and isinstance(ifnode.body[0].value, ast.Name) and ifnode.body[0].value.id == var,
             "positive test must be `if <present>: return x`")
    inside = all(e[1] for e in events)
    locked = inside and len(locks) == 1
    return {"test": kind, "locked": locked, "lock_attr": locks[0] if len(locks) == 1 else None, "regions": len(locks),
            "inside": [(e[0], e[1], e[2].lineno) for e in events]}


def daemon_locks(mod):
    """attributes assigned threading.Lock()/RLock() in Daemon.__init__"""
    init = find_func(mod, "__init__", "Daemon")
    out = {}
    for n in ast.walk(init):
        if isinstance(n, ast.Assign) and len(n.targets) == 1 and isinstance(n.targets[0], ast.Attribute) \
                and isinstance(n.targets[0].value, ast.Name) and n.targets[0].value.id == "self" \
                and isinstance(n.value, ast.Call) and isinstance(n.value.func, ast.Attribute) \
                and isinstance(n.value.func.value, ast.Name) and n.value.func.value.id == "threading" \
                and n.value.func.attr in ("Lock", "RLock") and not n.value.args:
            out[n.targets[0].attr] = n.value.func.attr
    return out


def close_clears(mod):
    close = find_func(mod, "close", "SocketConnection")
    init = find_func(mod, "__init__", "SocketConnection")
    ok_init = any(isinstance(n, (ast.Assign, ast.AnnAssign)) and is_attr(n.targets[0] if isinstance(n, ast.Assign) else n.target, "self", "pyroInstances")
                  and isinstance(n.value, ast.Dict) and not n.value.keys for n in init.body)
    need(ok_init, "SocketConnection.__init__ does not create an empty pyroInstances dict")
    clears = False
    for i, st in enumerate(close.body):
        # only an initial `if self.keep_open: return` may precede unconditionally
        if isinstance(st, ast.Assign) and len(st.targets) == 1 and is_attr(st.targets[0], "self", "pyroInstances") \
                and isinstance(st.value, ast.Dict) and not st.value.keys:
            clears = True
        if isinstance(st, ast.Expr) and isinstance(st.value, ast.Call) and isinstance(st.value.func, ast.Attribute) \
                and st.value.func.attr == "clear" and is_attr(st.value.func.value, "self", "pyroInstances") and not st.value.args:
            clears = True
        if isinstance(st, ast.Return) and not clears:
            break
    # every other mention of pyroInstances in close() must be one of the recognised clearing statements
    mentions = [n for n in ast.walk(close) if is_attr(n, "self", "pyroInstances")]
    need(len(mentions) <= 1, "SocketConnection.close mentions pyroInstances %d times" % len(mentions))
    return clears


def other_table_sites(tree):
    """every mention of the two instance tables (attribute access or the bare name as a string) in Pyro5/*.py outside
    Daemon.__init__ / Daemon._getInstance / SocketConnection.__init__ / SocketConnection.close"""
    import glob, os
    allowed = {("server.py", "Daemon", "__init__"), ("server.py", "Daemon", "_getInstance"),
               ("socketutil.py", "SocketConnection", "__init__"), ("socketutil.py", "SocketConnection", "close")}
    names = {"_pyroInstances", "pyroInstances"}
    sites = []
    files = sorted(glob.glob(os.path.join(tree, "Pyro5", "**", "*.py"), recursive=True))
    need(files, "no Pyro5 sources found")
    for path in files:
        rel = os.path.relpath(path, os.path.join(tree, "Pyro5"))
        mod, _ = parse(tree, os.path.join("Pyro5", rel))

        def visit(node, cls, fn):
            if isinstance(node, ast.ClassDef):
                cls, fn = node.name, None
            elif isinstance(node, (ast.FunctionDef, ast.AsyncFunctionDef)) and fn is None:
                fn = node.name
            hit = (isinstance(node, ast.Attribute) and node.attr in names) or \
                  (isinstance(node, ast.Constant) and isinstance(node.value, str) and node.value in names)
            if hit and (rel, cls, fn) not in allowed:
                sites.append("%s:%s.%s@%d" % (rel, cls, fn, node.lineno))
            for ch in ast.iter_child_nodes(node):
                visit(ch, cls, fn)
        visit(mod, None, None)
    # Daemon.__init__ may only create the empty table
    srv, _ = parse(tree, "Pyro5/server.py")
    init = find_func(srv, "__init__", "Daemon")
    inits = [n for n in ast.walk(init) if isinstance(n, ast.Attribute) and n.attr in names]
    ok_init = len(inits) == 1 and any(isinstance(n, ast.Assign) and len(n.targets) == 1 and n.targets[0] is inits[0]
                                      and isinstance(n.value, ast.Dict) and not n.value.keys for n in ast.walk(init))
    if not ok_init:
        sites.append("server.py:Daemon.__init__ does more than create the empty table")
    return sites


def extract(tree):
    mod, _ = parse(tree, "Pyro5/server.py")
    func = find_func(mod, "_getInstance", "Daemon")
    need([a.arg for a in func.args.args] == ["self", "clazz", "conn"], "_getInstance signature changed")
    nested = [n for n in func.body if isinstance(n, ast.FunctionDef)]
    need(len(nested) == 1 and nested[0].name == "createInstance", "_getInstance: expected the nested helper createInstance only")
    branches, creatorvar = mode_branches(func)
    locks = daemon_locks(mod)
    single = analyse_branch(branches["single"], SINGLE_TABLE, set(locks))
    session = analyse_branch(branches["session"], SESSION_TABLE, set(locks))
    # percall: no table, exactly one create, returned directly
    pc = branches["percall"]
    pc_nodes = list(ast.walk(ast.Module(body=pc, type_ignores=[])))
    need(not any(table_of(n) for n in pc_nodes), "'percall' branch touches an instance table")
    pc_creates = [n for n in pc_nodes if isinstance(n, ast.Call) and isinstance(n.func, ast.Name) and n.func.id == "createInstance"]
    need(len(pc_creates) == 1, "'percall' branch calls createInstance %d times" % len(pc_creates))
    rets = [st for st in pc if isinstance(st, ast.Return)]
    need(len(rets) == 1 and rets[0].value is pc_creates[0], "'percall' branch does not `return createInstance(...)`")
    need(not any(isinstance(n, (ast.While, ast.For)) for n in pc_nodes), "loop in the 'percall' branch")
    # the tables must not be touched elsewhere in _getInstance
    su, _ = parse(tree, "Pyro5/socketutil.py")
    clears = close_clears(su)
    info = {"single_test": single["test"], "session_test": session["test"], "single_locked": single["locked"],
            "lock_attr": single["lock_attr"], "lock_kind": locks.get(single["lock_attr"]) if single["lock_attr"] else None,
            "session_locked": session["locked"], "close_clears": clears, "other_sites": other_table_sites(tree),
            "single_accesses": single["inside"], "session_accesses": session["inside"],
            "ast_sha": ast_sha(func)}
    return info


@generator("GenInstances", "Pyro5/server.py", "Pyro5/socketutil.py")
def gen_instances(tree):
    info = extract(tree)
    out = HEADER % "Pyro5/server.py (Daemon._getInstance), Pyro5/socketutil.py (SocketConnection.close)"
    out += "From V Require Import Model.Instances.\n\n"
    out += "(* 'single' branch: %s; lock: %s (%s) *)\n" % (
        ["%s@%d:%s" % (w, ln, "in" if i else "OUT") for w, i, ln in info["single_accesses"]], info["lock_attr"], info["lock_kind"])
    out += "(* 'session' branch: %s *)\n" % (["%s@%d" % (w, ln) for w, i, ln in info["session_accesses"]],)
    out += "Definition code_shape : shape :=\n  mk_shape %s   (* test on the looked-up single instance *)\n" % info["single_test"]
    out += "           %s   (* test on the looked-up session instance *)\n" % info["session_test"]
    out += "           %s   (* lookup, creation and store of the single instance inside one lock region *)\n" % cbool(info["single_locked"])
    out += "           %s   (* SocketConnection.close() empties pyroInstances *)\n" % cbool(info["close_clears"])
    out += "           %s.  (* nothing else in Pyro5 touches _pyroInstances / pyroInstances; other sites: %s *)\n" % (
        cbool(not info["other_sites"]), info["other_sites"])
    return out, info
