"""GenInstances (C09): the shape of Daemon._getInstance and SocketConnection.close() that the
instance-mode theorems depend on, re-read from the source on every run:

  * the test applied to the looked-up instance in the 'single' and the 'session' branch
    (`not x` / `x is None` / `x == None`, either polarity),
  * whether lookup + creation + store of the 'single' branch all lie inside ONE `with self.<lock>:`
    region, <lock> being a threading.Lock/RLock created in Daemon.__init__,
  * that the 'session' table is the connection's `pyroInstances` and the 'single' table is the
    daemon's `_pyroInstances`, that 'percall' touches no table,
  * whether SocketConnection.close() unconditionally empties `pyroInstances`.

Anything that does not have a recognised shape raises GenError (fail closed)."""
import ast
from tools.gen.gen import generator, parse, find_class, find_func, need, GenError, HEADER, cbool, ast_sha

SINGLE_TABLE = ("self", "_pyroInstances")
SESSION_TABLE = ("conn", "pyroInstances")


def is_attr(node, base, attr):
    return isinstance(node, ast.Attribute) and isinstance(node.value, ast.Name) and node.value.id == base and node.attr == attr


def table_of(node):
    """(base, attr) if node is one of the two instance tables"""
    for t in (SINGLE_TABLE, SESSION_TABLE):
        if is_attr(node, *t):
            return t
    return None


def classify_test(test, var):
    """-> (ltest constructor, polarity) ; polarity True: the test is true when a NEW instance is needed"""
    def is_var(n):
        return isinstance(n, ast.Name) and n.id == var

    def is_none(n):
        return isinstance(n, ast.Constant) and n.value is None
    if isinstance(test, ast.UnaryOp) and isinstance(test.op, ast.Not) and is_var(test.operand):
        return "TNotTruthy", True
    if is_var(test):
        return "TNotTruthy", False
    if isinstance(test, ast.Compare) and len(test.ops) == 1 and len(test.comparators) == 1:
        l, r, op = test.left, test.comparators[0], test.ops[0]
        if is_var(l) and is_none(r):
            if isinstance(op, ast.Is):
                return "TIsNone", True
            if isinstance(op, ast.IsNot):
                return "TIsNone", False
            if isinstance(op, ast.Eq):
                return "TEqNone", True
            if isinstance(op, ast.NotEq):
                return "TEqNone", False
        if is_none(l) and is_var(r):
            if isinstance(op, ast.Is):
                return "TIsNone", True
            if isinstance(op, ast.IsNot):
                return "TIsNone", False
    raise GenError("unrecognised test on the looked-up instance: " + ast.dump(test)[:160])


def is_log_stmt(st):
    """`log.debug(...)` and friends, docstrings: ignored completely"""
    if isinstance(st, ast.Expr) and isinstance(st.value, ast.Constant):
        return True
    return isinstance(st, ast.Expr) and isinstance(st.value, ast.Call) and isinstance(st.value.func, ast.Attribute) \
        and isinstance(st.value.func.value, ast.Name) and st.value.func.value.id in ("log", "logging", "logger")


def ends_in_exit(body):
    return bool(body) and isinstance(body[-1], (ast.Return, ast.Raise))


def walk_no_defs(node):
    """ast.walk that does not descend into nested function / class definitions"""
    todo = list(ast.iter_child_nodes(node))
    while todo:
        n = todo.pop()
        yield n
        if not isinstance(n, (ast.FunctionDef, ast.AsyncFunctionDef, ast.Lambda, ast.ClassDef)):
            todo.extend(ast.iter_child_nodes(n))


def mode_branches(func, clazz_name):
    """the dispatch on `<mode> == "<literal>"`: an if/elif chain or consecutive ifs that each end in return/raise,
    followed by a raise -> {mode: body}"""
    modevar = None
    for st in walk_no_defs(func):
        if isinstance(st, ast.Assign) and len(st.targets) == 1 and isinstance(st.targets[0], ast.Tuple) \
                and len(st.targets[0].elts) == 2 and all(isinstance(e, ast.Name) for e in st.targets[0].elts) \
                and is_attr(st.value, clazz_name, "_pyroInstancing"):
            need(modevar is None, "_getInstance unpacks _pyroInstancing more than once")
            modevar = st.targets[0].elts[0].id
    need(modevar is not None, "_getInstance does not unpack clazz._pyroInstancing into (mode, creator)")
    out, fallthrough_raises, seen_dispatch = {}, False, False
    for st in func.body:
        if isinstance(st, (ast.FunctionDef,)) or is_log_stmt(st):
            continue
        if isinstance(st, (ast.Assign, ast.Try)) and not seen_dispatch:
            continue                    # the unpacking, possibly guarded
        if isinstance(st, ast.If):
            seen_dispatch = True
            node = st
            while True:
                t = node.test
                need(isinstance(t, ast.Compare) and isinstance(t.left, ast.Name) and t.left.id == modevar and len(t.ops) == 1
                     and isinstance(t.ops[0], ast.Eq) and isinstance(t.comparators[0], ast.Constant)
                     and isinstance(t.comparators[0].value, str), "_getInstance: mode test is not `%s == \"<literal>\"`" % modevar)
                m = t.comparators[0].value
                need(m not in out, "duplicate branch for mode " + m)
                out[m] = node.body
                if len(node.orelse) == 1 and isinstance(node.orelse[0], ast.If):
                    node = node.orelse[0]
                    continue
                if node.orelse:
                    need(len(node.orelse) == 1 and isinstance(node.orelse[0], ast.Raise), "_getInstance: the final else does not raise")
                    fallthrough_raises = True
                break
            continue
        if isinstance(st, ast.Raise) and seen_dispatch:
            fallthrough_raises = True
            continue
        raise GenError("_getInstance: unrecognised top-level statement at line %d" % st.lineno)
    need(set(out) == {"single", "session", "percall"}, "_getInstance: branches are %s, expected single/session/percall" % sorted(out))
    need(fallthrough_raises, "_getInstance: an unknown mode is not rejected")
    return out


def helper_call(node):
    """name of the helper if node is `name(...)`, `self.name(...)` or `Daemon.name(...)`"""
    if isinstance(node, ast.Call):
        if isinstance(node.func, ast.Name):
            return node.func.id
        if isinstance(node.func, ast.Attribute) and isinstance(node.func.value, ast.Name) and node.func.value.id in ("self", "Daemon", "cls"):
            return node.func.attr
    return None


def creator_helpers(cls, func):
    """names of functions (nested in _getInstance, or methods of Daemon) that call one of their own parameters:
    the place where `creator(clazz)` / `clazz()` happens"""
    out = set()
    methods = {n.name: n for n in cls.body if isinstance(n, ast.FunctionDef) and n is not func}
    reach, frontier = set(), [func]
    for _ in range(3):                   # methods of Daemon that _getInstance delegates to, up to three levels deep
        nxt = []
        for f in frontier:
            for n in ast.walk(f):
                h = helper_call(n)
                if h in methods and h not in reach:
                    reach.add(h)
                    nxt.append(methods[h])
        frontier = nxt
    cands = [n for n in func.body if isinstance(n, ast.FunctionDef)] + [methods[h] for h in sorted(reach)]
    for f in cands:
        params = {a.arg for a in f.args.args + f.args.kwonlyargs} - {"self", "cls"}
        if any(isinstance(n, ast.Call) and isinstance(n.func, ast.Name) and n.func.id in params for n in ast.walk(f)):
            out.add(f.name)
    return out


def resolve_branch(cls, body, env, creators, depth=0):
    """a branch that only delegates (`return self._helper(clazz, ...)`) is replaced by the helper's body"""
    stmts = [st for st in body if not is_log_stmt(st)]
    if depth < 2 and len(stmts) == 1 and isinstance(stmts[0], ast.Return):
        name = helper_call(stmts[0].value)
        meth = [n for n in cls.body if isinstance(n, ast.FunctionDef) and n.name == name] if name else []
        if len(meth) == 1 and name not in creators:
            f = meth[0]
            static = any(isinstance(d, ast.Name) and d.id == "staticmethod" for d in f.decorator_list)
            params = [a.arg for a in f.args.args][0 if static else 1:]
            newenv = dict(env, helpers=env["helpers"] + [name])
            for p_, a in zip(params, stmts[0].value.args):
                if isinstance(a, ast.Name) and a.id == env["clazz"]:
                    newenv["clazz"] = p_
                if isinstance(a, ast.Name) and a.id == env["conn"]:
                    newenv["conn"] = p_
            return resolve_branch(cls, f.body, newenv, creators, depth + 1)
    return body, env


def analyse_branch(body, table, lock_ok_attrs, env, creators):
    """facts about one get-or-create branch. Returns dict(test, locked, lock_attr)."""
    events = []          # (kind, inside_lock, node)
    locks = []           # lock attrs used, one entry per outermost region
    tests = []

    def tab(node):
        if is_attr(node, "self", SINGLE_TABLE[1]):
            return SINGLE_TABLE
        if is_attr(node, env["conn"], SESSION_TABLE[1]):
            return SESSION_TABLE
        return None

    def is_guard(node):
        return isinstance(node, ast.If) and not node.orelse and all(isinstance(x, ast.Raise) or is_log_stmt(x) for x in node.body) \
            and any(isinstance(x, ast.Raise) for x in node.body)

    def walk(node, depth):
        if isinstance(node, ast.stmt) and (is_log_stmt(node) or is_guard(node)):
            return                       # logging and pure rejection guards do not matter
        if isinstance(node, (ast.FunctionDef, ast.AsyncFunctionDef, ast.Lambda, ast.ClassDef)):
            raise GenError("nested definition inside a mode branch")
        if isinstance(node, (ast.While, ast.For)):
            raise GenError("loop inside a mode branch: not analysable")
        if isinstance(node, ast.If):
            tests.append(node)
        if isinstance(node, ast.With):
            attrs = [it.context_expr.attr for it in node.items
                     if isinstance(it.context_expr, ast.Attribute) and isinstance(it.context_expr.value, ast.Name)
                     and it.context_expr.value.id == "self" and it.context_expr.attr in lock_ok_attrs]
            need(len(attrs) == len(node.items), "with-statement on something that is not a daemon lock")
            need(len(node.items) == 1 and node.items[0].optional_vars is None, "unrecognised with-statement")
            if depth == 0:
                locks.append(attrs[0])
            for st in node.body:
                walk(st, depth + 1)
            return
        t = tab(node)
        if t is not None:
            events.append(("table:%s.%s" % t, depth > 0, node))
        if helper_call(node) in creators:
            events.append(("create", depth > 0, node))
        for ch in ast.iter_child_nodes(node):
            walk(ch, depth)
    for st in body:
        walk(st, 0)
    want = "table:%s.%s" % table
    tabs = [e for e in events if e[0].startswith("table:")]
    need(tabs and all(e[0] == want for e in tabs), "branch uses %s, expected only %s" % (sorted({e[0] for e in tabs}), want))
    creates = [e for e in events if e[0] == "create"]
    need(len(creates) == 1, "branch creates an instance at %d places" % len(creates))
    lookups, stores = [], []
    for st in walk_no_defs(ast.Module(body=body, type_ignores=[])):
        if isinstance(st, ast.Assign) and len(st.targets) == 1 and isinstance(st.targets[0], ast.Name) \
                and isinstance(st.value, ast.Call) and isinstance(st.value.func, ast.Attribute) \
                and st.value.func.attr == "get" and tab(st.value.func.value) == table:
            need(len(st.value.args) == 1 and isinstance(st.value.args[0], ast.Name) and st.value.args[0].id == env["clazz"]
                 and not st.value.keywords, "table lookup is not .get(clazz)")
            lookups.append(st.targets[0].id)
        if isinstance(st, ast.Assign) and len(st.targets) == 1 and isinstance(st.targets[0], ast.Subscript) \
                and tab(st.targets[0].value) == table:
            sl = st.targets[0].slice
            need(isinstance(sl, ast.Name) and sl.id == env["clazz"], "table store is not [clazz] = ...")
            stores.append(st)
    need(len(lookups) == 1, "expected exactly one `x = table.get(clazz)` (found %d; an additional lookup outside the lock region, "
         "i.e. double-checked locking, is not covered by the atomicity proof)" % len(lookups))
    need(len(stores) == 1, "expected exactly one `table[clazz] = x` (found %d)" % len(stores))
    need(len(tabs) == 2, "table is accessed %d times, expected lookup and store only" % len(tabs))
    need(len(tests) == 1, "expected exactly one if-statement in the branch (found %d)" % len(tests))
    var = lookups[0]
    kind, pol = classify_test(tests[0].test, var)
    ifnode = tests[0]
    need(not ifnode.orelse, "if-statement in the branch has an else part")
    inner = list(ast.walk(ast.Module(body=ifnode.body, type_ignores=[])))
    contains_create = any(n is creates[0][2] for n in inner)
    contains_store = any(n is stores[0] for n in inner)
    if pol:
        need(contains_create and contains_store, "the create/store is not guarded by the test")
    else:
        rest = [x for x in ifnode.body if not is_log_stmt(x)]
        need(not contains_create and not contains_store and len(rest) == 1 and isinstance(rest[0], ast.Return)
             and isinstance(rest[0].value, ast.Name) and rest[0].value.id == var,
             "positive test must be `if <present>: return x`")
    inside = all(e[1] for e in events)
    locked = inside and len(locks) == 1
    return {"test": kind, "locked": locked, "lock_attr": locks[0] if len(locks) == 1 else None, "regions": len(locks),
            "inside": [(e[0], e[1], e[2].lineno) for e in events]}


def daemon_locks(mod):
    """attributes assigned threading.Lock()/RLock() in Daemon.__init__"""
    init = find_func(mod, "__init__", "Daemon")
    out = {}
    for n in ast.walk(init):
        if isinstance(n, ast.Assign) and len(n.targets) == 1 and isinstance(n.targets[0], ast.Attribute) \
                and isinstance(n.targets[0].value, ast.Name) and n.targets[0].value.id == "self" \
                and isinstance(n.value, ast.Call) and isinstance(n.value.func, ast.Attribute) \
                and isinstance(n.value.func.value, ast.Name) and n.value.func.value.id == "threading" \
                and n.value.func.attr in ("Lock", "RLock") and not n.value.args:
            out[n.targets[0].attr] = n.value.func.attr
    return out


def close_clears_ast(mod):
    close = find_func(mod, "close", "SocketConnection")
    init = find_func(mod, "__init__", "SocketConnection")
    ok_init = any(isinstance(n, (ast.Assign, ast.AnnAssign)) and is_attr(n.targets[0] if isinstance(n, ast.Assign) else n.target, "self", "pyroInstances")
                  and isinstance(n.value, ast.Dict) and not n.value.keys for n in init.body)
    need(ok_init, "SocketConnection.__init__ does not create an empty pyroInstances dict")
    clears = False
    for i, st in enumerate(close.body):
        # only an initial `if self.keep_open: return` may precede unconditionally
        if isinstance(st, ast.Assign) and len(st.targets) == 1 and is_attr(st.targets[0], "self", "pyroInstances") \
                and isinstance(st.value, ast.Dict) and not st.value.keys:
            clears = True
        if isinstance(st, ast.Expr) and isinstance(st.value, ast.Call) and isinstance(st.value.func, ast.Attribute) \
                and st.value.func.attr == "clear" and is_attr(st.value.func.value, "self", "pyroInstances") and not st.value.args:
            clears = True
        if isinstance(st, ast.Return) and not clears:
            break
    # every other mention of pyroInstances in close() must be one of the recognised clearing statements
    mentions = [n for n in ast.walk(close) if is_attr(n, "self", "pyroInstances")]
    need(len(mentions) <= 1, "SocketConnection.close mentions pyroInstances %d times" % len(mentions))
    return clears


def close_clears_probed(tree):
    """second reader: SocketConnection of the tree under test is run with a recording stub socket whose shutdown()/close()
    succeed or raise; close() must leave an empty session table in every case"""
    from tools.gen.gen import tree_module
    su = tree_module(tree, "Pyro5.socketutil")

    class StubSock(object):
        def __init__(self, bad_shutdown, bad_close):
            self.bad_shutdown, self.bad_close = bad_shutdown, bad_close

        def shutdown(self, how):
            if self.bad_shutdown:
                raise OSError(107, "Transport endpoint is not connected")

        def close(self):
            if self.bad_close:
                raise OSError(9, "Bad file descriptor")

        def fileno(self):
            return -1
    ok = True
    for bs in (False, True):
        for bc in (False, True):
            conn = su.SocketConnection(StubSock(bs, bc))
            need(isinstance(conn.pyroInstances, dict) and not conn.pyroInstances, "a new SocketConnection has no empty pyroInstances dict")
            conn.pyroInstances[StubSock] = object()
            try:
                conn.close()
            except Exception:      # noqa
                ok = False
            ok = ok and isinstance(conn.pyroInstances, dict) and len(conn.pyroInstances) == 0
    return ok


def close_clears(tree, mod):
    """(clears?, mode): the ast reader first; when it does not recognise the shape (or says no) the probe decides"""
    try:
        if close_clears_ast(mod):
            return True, "ast"
        why = "ast reader: no unconditional top-level release"
    except GenError as x:
        why = "ast reader: %s" % x
    return close_clears_probed(tree), "probed (%s)" % why


def other_table_sites(tree, helper_names=()):
    """every mention of the two instance tables (attribute access or the bare name as a string) in Pyro5/*.py outside
    Daemon.__init__ / Daemon._getInstance / SocketConnection.__init__ / SocketConnection.close"""
    import glob, os
    allowed = {("server.py", "Daemon", "__init__"), ("server.py", "Daemon", "_getInstance"),
               ("socketutil.py", "SocketConnection", "__init__"), ("socketutil.py", "SocketConnection", "close")}
    allowed |= {("server.py", "Daemon", h) for h in helper_names}     # private helpers _getInstance delegates to
    # private helpers SocketConnection.close() delegates to (its net effect on the table is established by close_clears)
    sumod, _ = parse(tree, "Pyro5/socketutil.py")
    sc = find_class(sumod, "SocketConnection")
    meths = {n.name: n for n in sc.body if isinstance(n, ast.FunctionDef)}
    reach, frontier = set(), [meths["close"]] if "close" in meths else []
    for _ in range(3):
        nxt = []
        for f in frontier:
            for n in ast.walk(f):
                if isinstance(n, ast.Call) and isinstance(n.func, ast.Attribute) and isinstance(n.func.value, ast.Name) \
                        and n.func.value.id == "self" and n.func.attr in meths and n.func.attr not in reach \
                        and n.func.attr not in ("close", "__init__"):
                    reach.add(n.func.attr)
                    nxt.append(meths[n.func.attr])
        frontier = nxt
    allowed |= {("socketutil.py", "SocketConnection", h) for h in reach}
    names = {"_pyroInstances", "pyroInstances"}
    sites = []
    files = sorted(glob.glob(os.path.join(tree, "Pyro5", "**", "*.py"), recursive=True))
    need(files, "no Pyro5 sources found")
    for path in files:
        rel = os.path.relpath(path, os.path.join(tree, "Pyro5"))
        mod, _ = parse(tree, os.path.join("Pyro5", rel))

        def visit(node, cls, fn):
            if isinstance(node, ast.ClassDef):
                cls, fn = node.name, None
            elif isinstance(node, (ast.FunctionDef, ast.AsyncFunctionDef)) and fn is None:
                fn = node.name
            hit = (isinstance(node, ast.Attribute) and node.attr in names) or \
                  (isinstance(node, ast.Constant) and isinstance(node.value, str) and node.value in names)
            if hit and (rel, cls, fn) not in allowed:
                sites.append("%s:%s.%s@%d" % (rel, cls, fn, node.lineno))
            for ch in ast.iter_child_nodes(node):
                visit(ch, cls, fn)
        visit(mod, None, None)
    # Daemon.__init__ may only create the empty table
    srv, _ = parse(tree, "Pyro5/server.py")
    init = find_func(srv, "__init__", "Daemon")
    inits = [n for n in ast.walk(init) if isinstance(n, ast.Attribute) and n.attr in names]
    ok_init = len(inits) == 1 and any(isinstance(n, ast.Assign) and len(n.targets) == 1 and n.targets[0] is inits[0]
                                      and isinstance(n.value, ast.Dict) and not n.value.keys for n in ast.walk(init))
    if not ok_init:
        sites.append("server.py:Daemon.__init__ does more than create the empty table")
    return sites


def extract(tree):
    mod, _ = parse(tree, "Pyro5/server.py")
    cls = find_class(mod, "Daemon")
    func = find_func(mod, "_getInstance", "Daemon")
    params = [a.arg for a in func.args.args]
    need(len(params) == 3 and params[0] == "self", "_getInstance signature changed")
    env0 = {"clazz": params[1], "conn": params[2], "helpers": []}
    creators = creator_helpers(cls, func)
    need(creators, "no place where the creator / the class is called was found")
    branches = mode_branches(func, env0["clazz"])
    locks = daemon_locks(mod)
    body_s, env_s = resolve_branch(cls, branches["single"], env0, creators)
    body_n, env_n = resolve_branch(cls, branches["session"], env0, creators)
    single = analyse_branch(body_s, SINGLE_TABLE, set(locks), env_s, creators)
    session = analyse_branch(body_n, SESSION_TABLE, set(locks), env_n, creators)
    # percall: no table, exactly one creation, returned directly
    pc = [st for st in branches["percall"] if not is_log_stmt(st)]
    pc_nodes = list(ast.walk(ast.Module(body=pc, type_ignores=[])))
    need(not any(isinstance(n, ast.Attribute) and n.attr in (SINGLE_TABLE[1], SESSION_TABLE[1]) for n in pc_nodes),
         "'percall' branch touches an instance table")
    pc_creates = [n for n in pc_nodes if helper_call(n) in creators]
    need(len(pc_creates) == 1, "'percall' branch creates an instance at %d places" % len(pc_creates))
    rets = [st for st in pc if isinstance(st, ast.Return)]
    need(len(rets) == 1 and rets[0].value is pc_creates[0], "'percall' branch does not return the new instance directly")
    need(not any(isinstance(n, (ast.While, ast.For)) for n in pc_nodes), "loop in the 'percall' branch")
    helpers = sorted(set(env_s["helpers"] + env_n["helpers"]) | (creators & {n.name for n in cls.body if isinstance(n, ast.FunctionDef)}))
    su, _ = parse(tree, "Pyro5/socketutil.py")
    clears, close_mode = close_clears(tree, su)
    info = {"single_test": single["test"], "session_test": session["test"], "single_locked": single["locked"],
            "lock_attr": single["lock_attr"], "lock_kind": locks.get(single["lock_attr"]) if single["lock_attr"] else None,
            "session_locked": session["locked"], "close_clears": clears, "close_mode": close_mode,
            "other_sites": other_table_sites(tree, helpers), "helpers": helpers,
            "single_accesses": single["inside"], "session_accesses": session["inside"],
            "ast_sha": ast_sha(func)}
    return info


@generator("GenInstances", "Pyro5/server.py", "Pyro5/socketutil.py")
def gen_instances(tree):
    info = extract(tree)
    out = HEADER % "Pyro5/server.py (Daemon._getInstance), Pyro5/socketutil.py (SocketConnection.close)"
    out += "From V Require Import Model.Instances.\n\n"
    out += "(* 'single' branch: %s; lock: %s (%s) *)\n" % (
        ["%s@%d:%s" % (w, ln, "in" if i else "OUT") for w, i, ln in info["single_accesses"]], info["lock_attr"], info["lock_kind"])
    out += "(* 'session' branch: %s *)\n" % (["%s@%d" % (w, ln) for w, i, ln in info["session_accesses"]],)
    out += "(* helpers followed: %s; close(): %s *)\n" % (info["helpers"], info["close_mode"].split(" (")[0])
    out += "Definition code_shape : shape :=\n  mk_shape %s   (* test on the looked-up single instance *)\n" % info["single_test"]
    out += "           %s   (* test on the looked-up session instance *)\n" % info["session_test"]
    out += "           %s   (* lookup, creation and store of the single instance inside one lock region *)\n" % cbool(info["single_locked"])
    out += "           %s   (* SocketConnection.close() empties pyroInstances *)\n" % cbool(info["close_clears"])
    out += "           %s.  (* nothing else in Pyro5 touches _pyroInstances / pyroInstances; other sites: %s *)\n" % (
        cbool(not info["other_sites"]), info["other_sites"])
    return out, info
