"""GenNameServer (C14): NAMESERVER_NAME, and for every SqlStorage method the ordered list (first occurrences) of
SQL statements (classified by their literal text) and commit calls it executes, following calls into private
helpers of the module.  Fail closed for the WRITING methods (__setitem__, __delitem__, remove_items): an SQL text
that is not in the table is not accepted.  In the READING methods an unknown SELECT is recorded as select_other
(what they answer is compared behaviourally by the harness; the proofs only need that they do not write)."""
import ast, re
from tools.gen.gen import generator, parse, find_class, find_func, module_assign, need, GenError, HEADER, clist, cN, ctext, cbool, ast_sha

# statement kinds (codes are only labels; Model/NameServer.v implements their meaning)
KINDS = {
    "PRAGMA foreign_keys=ON": (1, "pragma"),
    "SELECT id, uri FROM pyro_names WHERE name=?": (2, "sel_row_by_name"),
    "SELECT metadata FROM pyro_metadata WHERE object=?": (3, "sel_tags"),
    "SELECT id FROM pyro_names WHERE name=?": (4, "sel_id_by_name"),
    "DELETE FROM pyro_metadata WHERE object=?": (5, "del_meta"),
    "DELETE FROM pyro_names WHERE id=?": (6, "del_name"),
    "INSERT INTO pyro_names(name, uri) VALUES(?,?)": (7, "ins_name"),
    "INSERT INTO pyro_metadata(object, metadata) VALUES (?,?)": (8, "ins_meta"),
    "SELECT count(*) FROM pyro_names": (9, "count"),
    "SELECT EXISTS(SELECT 1 FROM pyro_names WHERE name=? LIMIT 1)": (10, "exists"),
    "SELECT name FROM pyro_names": (11, "sel_names"),
    "SELECT id, name, uri FROM pyro_names": (12, "sel_all"),
    "SELECT name, uri FROM pyro_names": (12, "sel_all"),
    # prefix queries: the defective LIKE form and exact forms
    "SELECT id, name, uri FROM pyro_names WHERE name LIKE ?": (13, "sel_prefix_like"),
    "SELECT name, uri FROM pyro_names WHERE name LIKE ?": (13, "sel_prefix_like"),
    "SELECT id, name, uri FROM pyro_names WHERE substr(name,1,length(?))=?": (14, "sel_prefix_exact"),
    "SELECT name, uri FROM pyro_names WHERE substr(name,1,length(?))=?": (14, "sel_prefix_exact"),
    "SELECT id, name, uri FROM pyro_names WHERE id IN (SELECT object FROM pyro_metadata WHERE metadata IN ({seq}))": (15, "sel_meta_any"),
    "SELECT id, name, uri FROM pyro_names WHERE id IN (SELECT object FROM pyro_metadata WHERE metadata IN ({seq}) GROUP BY object HAVING COUNT(metadata)=?)": (16, "sel_meta_all"),
}
COMMIT = 99
METHODS = ["__getitem__", "__setitem__", "__len__", "__contains__", "__delitem__", "__iter__",
           "optimized_prefix_list", "optimized_metadata_search", "remove_items", "everything"]


def norm_sql(s):
    return re.sub(r"\s+", " ", s).strip().rstrip(";")


SELECT_OTHER = 20          # a SELECT whose text is not in the table (only accepted in reading methods)
READ_METHODS = ["__getitem__", "__len__", "__contains__", "__iter__", "optimized_prefix_list", "optimized_metadata_search", "everything"]
WRITE_METHODS = ["__setitem__", "__delitem__", "remove_items"]
SQL_START = re.compile(r"(?i)^(select\b.*\bfrom\b|select\s+exists\b|insert\s+(or\s+\w+\s+)?into\b|delete\s+from\b|update\s+\w+\s+set\b|replace\s+into\b|pragma\s+\w|drop\s+table\b|alter\s+table\b|create\s+(table|index)\b|vacuum\s*$)")


def _helper_target(call, helpers):
    """the private helper a call goes to: self._x(...), cls._x(...), SqlStorage._x(...), _x(...)"""
    f = call.func
    if isinstance(f, ast.Attribute) and isinstance(f.value, ast.Name) and f.value.id in ("self", "cls", "SqlStorage") and f.attr in helpers:
        return f.attr
    if isinstance(f, ast.Name) and f.id in helpers:
        return f.id
    return None


def method_statements(func, helpers, consts, tolerant, depth=0, stack=()):
    """SQL statements and .commit() calls in source order; calls of private helper methods/functions of the same
    module are followed (their statements appear at the position of the call); a class- or module-level name bound
    to an SQL string counts where it is used.  tolerant: an unknown SELECT text becomes SELECT_OTHER."""
    found = []

    def sql(text, pos):
        s = norm_sql(text)
        if not SQL_START.match(s):
            return
        if s in KINDS:
            found.append((pos, KINDS[s][0], KINDS[s][1]))
        elif tolerant and re.match(r"(?i)^select\b", s) and not re.search(r"(?i)\b(insert|delete|update|drop|alter|create|replace)\b", s):
            found.append((pos, SELECT_OTHER, "select_other"))
        else:
            raise GenError("%s: unrecognised SQL statement %r" % (func.name, s))
    doc = None
    if func.body and isinstance(func.body[0], ast.Expr) and isinstance(func.body[0].value, ast.Constant) and isinstance(func.body[0].value.value, str):
        doc = func.body[0].value
    for node in ast.walk(func):
        if not hasattr(node, "lineno") or node is doc:
            continue
        pos = (node.lineno, node.col_offset)
        if isinstance(node, ast.Constant) and isinstance(node.value, str):
            sql(node.value, pos)
        elif isinstance(node, ast.Attribute) and isinstance(node.value, ast.Name) and node.value.id in ("self", "cls", "SqlStorage") and node.attr in consts:
            sql(consts[node.attr], pos)
        elif isinstance(node, ast.Name) and node.id in consts and isinstance(node.ctx, ast.Load):
            sql(consts[node.id], pos)
        if isinstance(node, ast.Call):
            if isinstance(node.func, ast.Attribute) and node.func.attr == "commit":
                found.append((pos, COMMIT, "commit"))
            if isinstance(node.func, ast.Attribute) and node.func.attr in ("rollback", "executescript", "executemany"):
                raise GenError("%s: call of %s is outside the modelled statement vocabulary" % (func.name, node.func.attr))
            h = _helper_target(node, helpers)
            if h is not None and h not in stack and depth < 3:
                for k, (c, kind) in enumerate(method_statements(helpers[h], helpers, consts, tolerant, depth + 1, stack + (h,))):
                    found.append((pos + (k,), c, kind))
    found.sort(key=lambda t: t[0])
    return [(c, k) for _, c, k in found]


def _first_occurrences(seq):
    out = []
    for c, k in seq:
        if all(c != c2 for c2, _ in out):
            out.append((c, k))
    return out


@generator("GenNameServer", "Pyro5/nameserver.py", "Pyro5/core.py")
def gen_nameserver(tree):
    core, _ = parse(tree, "Pyro5/core.py")
    nsname = module_assign(core, "NAMESERVER_NAME")
    need(isinstance(nsname, ast.Constant) and isinstance(nsname.value, str) and nsname.value, "NAMESERVER_NAME is not a non-empty string literal")
    mod, _ = parse(tree, "Pyro5/nameserver.py")
    cls = find_class(mod, "SqlStorage")
    # private helpers (methods of SqlStorage and module-level functions) and names bound to SQL text
    helpers, consts = {}, {}
    for n in list(cls.body) + list(mod.body):
        if isinstance(n, (ast.FunctionDef, ast.AsyncFunctionDef)) and n.name.startswith("_") and not n.name.startswith("__"):
            helpers.setdefault(n.name, n)
        if isinstance(n, ast.Assign) and len(n.targets) == 1 and isinstance(n.targets[0], ast.Name) \
                and isinstance(n.value, ast.Constant) and isinstance(n.value.value, str) and SQL_START.match(norm_sql(n.value.value)):
            consts[n.targets[0].id] = n.value.value
    stm = {}
    for m in METHODS:
        f = find_func(mod, m, "SqlStorage")
        stm[m] = _first_occurrences(method_statements(f, helpers, consts, tolerant=(m in READ_METHODS)))
        # every storage method must turn sqlite errors into NamingError (one try/except DatabaseError around one `with connect`)
        tries = [n for n in ast.walk(f) if isinstance(n, ast.Try)]
        need(len(tries) >= 1, "SqlStorage.%s: no try statement (sqlite errors must become NamingError)" % m)

        def opens_connection(w):
            for it in w.items:
                e = it.context_expr
                if isinstance(e, ast.Call):
                    fn = e.func.attr if isinstance(e.func, ast.Attribute) else (e.func.id if isinstance(e.func, ast.Name) else "")
                    if "connect" in fn.lower():
                        return True
            return False
        withs = [n for n in ast.walk(f) if isinstance(n, ast.With) and opens_connection(n)]
        need(len(withs) == 1, "SqlStorage.%s: expected exactly one `with <connection>` block (one transaction)" % m)
    # syntactic facts about the three known deviations
    # (informational: the harness probes the behaviour; a form that is not recognised is reported as unknown)
    prefix_codes = {c for c, _ in stm["optimized_prefix_list"] if c in (13, 14)}
    prefix_exact = True if prefix_codes == {14} else (False if 13 in prefix_codes else None)
    oms = find_func(mod, "optimized_metadata_search", "SqlStorage")
    dedup = any(isinstance(n, ast.Call) and isinstance(n.func, ast.Name) and n.func.id in ("set", "frozenset")
                and len(n.args) == 1 and isinstance(n.args[0], ast.Name) and n.args[0].id == "metadata_all"
                for n in ast.walk(oms))
    rem = find_func(mod, "remove", "NameServer")
    tests = [n.test for n in ast.walk(rem) if isinstance(n, ast.If) and isinstance(n.test, ast.BoolOp) and isinstance(n.test.op, ast.And)]
    name_not_none = None
    if len(tests) == 1 and len(tests[0].values) == 3:
        first = tests[0].values[0]
        if isinstance(first, ast.Name) and first.id == "name":
            name_not_none = False
        elif isinstance(first, ast.Compare) and isinstance(first.left, ast.Name) and first.left.id == "name" and len(first.ops) == 1 \
                and isinstance(first.ops[0], ast.IsNot) and isinstance(first.comparators[0], ast.Constant) and first.comparators[0].value is None:
            name_not_none = True
    out = HEADER % "Pyro5/nameserver.py, Pyro5/core.py"
    out += "Definition ns_name : list N := %s.   (* %s *)\n\n" % (ctext(nsname.value), nsname.value)
    out += "(* SQL statements and commit calls per SqlStorage method, in source order.\n"
    for text, (c, k) in sorted(KINDS.items(), key=lambda kv: (kv[1][0], kv[0])):
        out += "   %2d %-16s %s\n" % (c, k, text.replace("(*", "( *").replace("*)", "* )"))
    out += "   %2d commit *)\n" % COMMIT
    for m in METHODS:
        out += "Definition sql_%s : list N := %s.   (* %s *)\n" % (m.strip("_"), clist([cN(c) for c, _ in stm[m]]), " ".join(k for _, k in stm[m]))
    out += "Definition sql_methods : list (list N) := %s.\n\n" % clist(["sql_" + m.strip("_") for m in METHODS])
    def cob(b):
        return "None" if b is None else "(Some %s)" % cbool(b)
    out += "(* syntactic facts about the three deviations of DESIGN section 7 row 5 (informational; None = form not recognised) *)\n"
    out += "Definition src_prefix_exact : option bool := %s.\n" % cob(prefix_exact)
    out += "Definition src_meta_all_dedup : option bool := %s.\n" % cob(dedup)
    out += "Definition src_remove_name_is_not_none : option bool := %s.\n" % cob(name_not_none)
    return out, {"ns_name": nsname.value, "statements": {m: [k for _, k in stm[m]] for m in METHODS},
                 "prefix_exact": prefix_exact, "meta_all_dedup": dedup, "remove_name_is_not_none": name_not_none,
                 "ast_sha": {m: ast_sha(find_func(mod, m, "SqlStorage")) for m in METHODS}}
