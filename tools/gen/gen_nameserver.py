"""GenNameServer (C14): NAMESERVER_NAME, and for every SqlStorage method the ordered list of SQL
statements (classified by their literal text) and commit calls it contains.  Fail closed: an SQL text
that is not in the table below is not silently accepted."""
import ast, re
from tools.gen.gen import generator, parse, find_class, find_func, module_assign, need, GenError, HEADER, clist, cN, ctext, cbool, ast_sha

# statement kinds (codes are only labels; Model/NameServer.v implements their meaning)
KINDS = {
    "PRAGMA foreign_keys=ON": (1, "pragma"),
    "SELECT id, uri FROM pyro_names WHERE name=?": (2, "sel_row_by_name"),
    "SELECT metadata FROM pyro_metadata WHERE object=?": (3, "sel_tags"),
    "SELECT id FROM pyro_names WHERE name=?": (4, "sel_id_by_name"),
    "DELETE FROM pyro_metadata WHERE object=?": (5, "del_meta"),
    "DELETE FROM pyro_names WHERE id=?": (6, "del_name"),
    "INSERT INTO pyro_names(name, uri) VALUES(?,?)": (7, "ins_name"),
    "INSERT INTO pyro_metadata(object, metadata) VALUES (?,?)": (8, "ins_meta"),
    "SELECT count(*) FROM pyro_names": (9, "count"),
    "SELECT EXISTS(SELECT 1 FROM pyro_names WHERE name=? LIMIT 1)": (10, "exists"),
    "SELECT name FROM pyro_names": (11, "sel_names"),
    "SELECT id, name, uri FROM pyro_names": (12, "sel_all"),
    "SELECT name, uri FROM pyro_names": (12, "sel_all"),
    # prefix queries: the defective LIKE form and exact forms
    "SELECT id, name, uri FROM pyro_names WHERE name LIKE ?": (13, "sel_prefix_like"),
    "SELECT name, uri FROM pyro_names WHERE name LIKE ?": (13, "sel_prefix_like"),
    "SELECT id, name, uri FROM pyro_names WHERE substr(name,1,length(?))=?": (14, "sel_prefix_exact"),
    "SELECT name, uri FROM pyro_names WHERE substr(name,1,length(?))=?": (14, "sel_prefix_exact"),
    "SELECT id, name, uri FROM pyro_names WHERE id IN (SELECT object FROM pyro_metadata WHERE metadata IN ({seq}))": (15, "sel_meta_any"),
    "SELECT id, name, uri FROM pyro_names WHERE id IN (SELECT object FROM pyro_metadata WHERE metadata IN ({seq}) GROUP BY object HAVING COUNT(metadata)=?)": (16, "sel_meta_all"),
}
COMMIT = 99
METHODS = ["__getitem__", "__setitem__", "__len__", "__contains__", "__delitem__", "__iter__",
           "optimized_prefix_list", "optimized_metadata_search", "remove_items", "everything"]


def norm_sql(s):
    return re.sub(r"\s+", " ", s).strip().rstrip(";")


def method_statements(func):
    """SQL string constants and .commit() calls in source order"""
    found = []
    for node in ast.walk(func):
        if isinstance(node, ast.Constant) and isinstance(node.value, str):
            s = norm_sql(node.value)
            if re.match(r"(?i)^(select|insert|delete|update|pragma|drop|alter|create|replace|vacuum)\b", s):
                need(s in KINDS, "%s: unrecognised SQL statement %r" % (func.name, s))
                found.append((node.lineno, node.col_offset, KINDS[s][0], KINDS[s][1]))
        if isinstance(node, ast.Call) and isinstance(node.func, ast.Attribute) and node.func.attr == "commit":
            found.append((node.lineno, node.col_offset, COMMIT, "commit"))
        if isinstance(node, ast.Call) and isinstance(node.func, ast.Attribute) and node.func.attr in ("rollback", "executescript", "executemany"):
            raise GenError("%s: call of %s is outside the modelled statement vocabulary" % (func.name, node.func.attr))
    found.sort()
    return [(c, k) for _, _, c, k in found]


@generator("GenNameServer", "Pyro5/nameserver.py", "Pyro5/core.py")
def gen_nameserver(tree):
    core, _ = parse(tree, "Pyro5/core.py")
    nsname = module_assign(core, "NAMESERVER_NAME")
    need(isinstance(nsname, ast.Constant) and isinstance(nsname.value, str) and nsname.value, "NAMESERVER_NAME is not a non-empty string literal")
    mod, _ = parse(tree, "Pyro5/nameserver.py")
    find_class(mod, "SqlStorage")
    stm = {}
    for m in METHODS:
        f = find_func(mod, m, "SqlStorage")
        stm[m] = method_statements(f)
        # every storage method must turn sqlite errors into NamingError (one try/except DatabaseError around one `with connect`)
        tries = [n for n in ast.walk(f) if isinstance(n, ast.Try)]
        need(len(tries) == 1, "SqlStorage.%s: expected exactly one try statement" % m)
        withs = [n for n in ast.walk(f) if isinstance(n, ast.With)]
        need(len(withs) == 1, "SqlStorage.%s: expected exactly one `with sqlite3.connect(...)` block (one transaction)" % m)
    # syntactic facts about the three known deviations
    prefix_codes = {c for c, _ in stm["optimized_prefix_list"] if c in (13, 14)}
    need(prefix_codes in ({13}, {14}), "optimized_prefix_list mixes prefix query forms")
    prefix_exact = prefix_codes == {14}
    oms = find_func(mod, "optimized_metadata_search", "SqlStorage")
    dedup = any(isinstance(n, ast.Call) and isinstance(n.func, ast.Name) and n.func.id in ("set", "frozenset")
                and len(n.args) == 1 and isinstance(n.args[0], ast.Name) and n.args[0].id == "metadata_all"
                for n in ast.walk(oms))
    rem = find_func(mod, "remove", "NameServer")
    tests = [n.test for n in ast.walk(rem) if isinstance(n, ast.If) and isinstance(n.test, ast.BoolOp) and isinstance(n.test.op, ast.And)]
    need(len(tests) == 1 and len(tests[0].values) == 3, "NameServer.remove: the by-name test `a and b and c` not found exactly once")
    first = tests[0].values[0]
    if isinstance(first, ast.Name) and first.id == "name":
        name_not_none = False
    elif isinstance(first, ast.Compare) and isinstance(first.left, ast.Name) and first.left.id == "name" and len(first.ops) == 1 \
            and isinstance(first.ops[0], ast.IsNot) and isinstance(first.comparators[0], ast.Constant) and first.comparators[0].value is None:
        name_not_none = True
    else:
        raise GenError("NameServer.remove: unrecognised first conjunct of the by-name test")
    out = HEADER % "Pyro5/nameserver.py, Pyro5/core.py"
    out += "Definition ns_name : list N := %s.   (* %s *)\n\n" % (ctext(nsname.value), nsname.value)
    out += "(* SQL statements and commit calls per SqlStorage method, in source order.\n"
    for text, (c, k) in sorted(KINDS.items(), key=lambda kv: (kv[1][0], kv[0])):
        out += "   %2d %-16s %s\n" % (c, k, text.replace("(*", "( *").replace("*)", "* )"))
    out += "   %2d commit *)\n" % COMMIT
    for m in METHODS:
        out += "Definition sql_%s : list N := %s.   (* %s *)\n" % (m.strip("_"), clist([cN(c) for c, _ in stm[m]]), " ".join(k for _, k in stm[m]))
    out += "Definition sql_methods : list (list N) := %s.\n\n" % clist(["sql_" + m.strip("_") for m in METHODS])
    out += "(* syntactic facts about the three deviations of DESIGN section 7 row 5 *)\n"
    out += "Definition src_prefix_exact : bool := %s.\n" % cbool(prefix_exact)
    out += "Definition src_meta_all_dedup : bool := %s.\n" % cbool(dedup)
    out += "Definition src_remove_name_is_not_none : bool := %s.\n" % cbool(name_not_none)
    return out, {"ns_name": nsname.value, "statements": {m: [k for _, k in stm[m]] for m in METHODS},
                 "prefix_exact": prefix_exact, "meta_all_dedup": dedup, "remove_name_is_not_none": name_not_none,
                 "ast_sha": {m: ast_sha(find_func(mod, m, "SqlStorage")) for m in METHODS}}
