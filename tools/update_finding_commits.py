#!/usr/bin/env python3
"""Maintenance helper (not part of any check): writes the hash of the /repo `fix:` commit that repaired each
finding into findings/Cxx.json, looked up by commit subject.  Run after fix commits were (re)written."""
import json, subprocess, os, sys
HERE = os.path.dirname(os.path.dirname(os.path.abspath(__file__)))
SUBJ = {
 "msgpack-ext": "fix: msgpack loadsCall decodes extension types like loads does",
 "msgpack-topdown": "fix: msgpack recreates classes after unpacking, not in an object_hook",
 "marshal-kwargs": "fix: marshal serializer accepts calls without keyword arguments",
 "marshal-batch": "fix: marshal serializer converts the exception wrappers inside a batch result",
 "getter": "fix: a method call naming a property no longer runs the property getter",
 "private-prop": "fix: remote attribute get/set refuses private names",
 "unk-ser": "fix: a CONNECT naming an unknown serializer is answered with CONNECTFAIL",
 "val-cc": "fix: a handshake validator raising ConnectionClosedError is answered with CONNECTFAIL",
 "unreg": "fix: unregistering by id clears the object's daemon mark; unregister(obj) checks the id is still its own",
 "reg": "fix: forced re-registration clears the displaced object's marks; weakly registered objects count as registered",
 "weakfin": "fix: the finalizer of a weak registration only removes that registration",
 "empty-host": "fix: a URI with an empty host prints its location",
 "meta-hash": "fix: PYROMETA URIs are hashable",
 "meta-set": "fix: a PYROMETA URI keeps its tag set through serializers that have no set type",
 "gw-key": "fix: http gateway answers 403 when the $key parameter is repeated",
 "gw-local": "fix: http gateway only forwards members of the remote object",
 "pool": "fix: thread pool bookkeeping is done under count_lock",
 "ns-lock": "fix: name server remove(), lookup() and count() hold the lock for the whole operation",
 "memview": "fix: annotation memoryviews with multi-byte items are sized in bytes",
 "deny": "fix: thread server contains errors while refusing a connection",
 "muxlog": "fix: multiplex server lets the logging module format exceptions it logs",
 "falsy": "fix: falsy single/session instances are not recreated on every call",
 "anns": "fix: response annotations are reset when a request or handshake starts",
 "sql-prefix": "fix: sqlite name server storage matches prefixes literally",
 "sql-meta": "fix: sqlite metadata search ignores duplicate tags",
 "rm-empty": "fix: name server remove() accepts the empty name",
}
M = {
 ("C01", "path-asymmetry:msgpack"): "msgpack-ext", ("C01", "position-fails:marshal:batch"): "marshal-kwargs",
 ("C02", "unexposed-getter-ran-on-call"): "getter", ("C02", "private-property-served"): "private-prop",
 ("C04", "socket-opened-while-decoding"): "msgpack-topdown",
 ("C05", "request-loop-died:thread"): "deny",
 ("C05", "request-loop-died:multiplex"): "muxlog",
 ("C06", "own-message-rejected"): "memview",
 ("C07", "marshal-none-kwargs"): "marshal-kwargs", ("C07", "marshal-batch-unmarshallable"): "marshal-batch",
 ("C08", "silent-close-unknown-serializer"): "unk-ser", ("C08", "silent-close-validator-connclosed"): "val-cc",
 ("C09", "falsy-instance-recreated"): "falsy",
 ("C11", "batch-submit-spurious-error"): "marshal-kwargs", ("C11", "batch-wrong-exception"): "marshal-batch",
 ("C12", "stale-response-annotations"): "anns",
 ("C14", "sql-prefix-not-literal"): "sql-prefix", ("C14", "sql-meta-all-duplicates"): "sql-meta", ("C14", "remove-empty-name"): "rm-empty",
 ("C15", "internal-error:KeyError"): "ns-lock",
 ("C16", "unregistered-object-return-raises"): "unreg", ("C16", "unregister-object-removes-other"): "unreg",
 ("C16", "unregistered-object-as-proxy"): "reg", ("C16", "duplicate-object-accepted"): "reg",
 ("C16", "collected-object-unregisters-other"): "weakfin", ("C16", "proxy-to-wrong-object"): "reg",
 ("C16", "registered-object-by-value"): "unreg", ("C16", "unregistration-not-effective"): "unreg",
 ("C16", "registered-object-return-raises"): "unreg",
 ("C18", "more-workers-than-size"): "pool", ("C18", "worker-never-exits"): "pool", ("C18", "worker-died:KeyError"): "pool",
 ("C19", "empty-host"): "empty-host", ("C19", "meta-unhashable"): "meta-hash", ("C19", "meta-serializer-list"): "meta-set",
 ("C20", "key-check-raises"): "gw-key", ("C20", "proxy-local-member"): "gw-local", ("C20", "proxy-to-other-uri"): "gw-local",
}
log = subprocess.run(["git", "-C", "/repo", "log", "--format=%h\t%s"], capture_output=True, text=True).stdout
by_subj = {l.split("\t", 1)[1]: l.split("\t", 1)[0] for l in log.strip().split("\n")}
files = [os.path.join(HERE, "known_findings.json")] + [os.path.join(HERE, "findings", "C%02d.json" % i) for i in range(1, 21)]
for p in files:
    if not os.path.exists(p):
        continue
    d = json.load(open(p))
    ch = False
    for k in d:
        key = M.get((k.get("property"), k.get("signature")))
        if not key:
            continue
        h = by_subj.get(SUBJ[key])
        if not h:
            print("no commit yet for", k["property"], k["signature"]); continue
        old = k.get("commit")
        what = k.get("what_fails") or ""
        entry = k.get("entry") or ""
        import re
        entry = re.sub(r"^fixed: property=%s \S+ " % k["property"], "", entry) or what
        new_entry = "fixed: property=%s %s %s" % (k["property"], h, entry)
        if old != h or k.get("entry") != new_entry or k.get("status") != "fixed":
            k["commit"], k["entry"], k["status"] = h, new_entry, "fixed"; ch = True
    if ch:
        json.dump(d, open(p, "w"), indent=1); print("updated", os.path.basename(p))
