#!/usr/bin/env python3
"""Writes MANIFEST.json from tools/manifest_data.py (one entry per claimed property)."""
import json, os, sys
HERE = os.path.dirname(os.path.abspath(__file__))
sys.path.insert(0, os.path.dirname(HERE))
import glob
CLAIMED = {}
with open(os.path.join(HERE, "manifest", "claimed.json")) as f:
    CLAIM_LIST = json.load(f)          # maintained by hand: a property is claimed once its check is complete
for path in sorted(glob.glob(os.path.join(HERE, "manifest", "C*.json"))):
    if os.path.basename(path)[:-5] not in CLAIM_LIST:
        continue
    with open(path) as f:
        CLAIMED[os.path.basename(path)[:-5]] = json.load(f)
NOT_YET = {}
if os.path.exists(os.path.join(HERE, "manifest", "not_claimed.json")):
    with open(os.path.join(HERE, "manifest", "not_claimed.json")) as f:
        NOT_YET = json.load(f)
ALL = ["C%02d" % i for i in range(1, 21)]
m = {
    "version": 1,
    "setup_cmd": "./setup.sh",
    "hooks": {"guard": "PYRO5_VERIF", "enable": "no hooks in /repo: all instrumentation is done from the harness process (monkey-patching, fake collaborators)",
              "baseline_off_cmd": "cd /repo && /venv/bin/python -m pytest -ra -q -p no:cacheprovider --timeout=900 --continue-on-collection-errors",
              "source_commits": [], "add_only": True},
    "engines": [{"name": "coq-proof+correspondence", "path": "check", "serves_properties": sorted(CLAIMED),
                 "kind_free_text": "Coq 8.16 theorems over hand-written Gallina models; tables regenerated from /repo by tools/gen; models run by vm_compute against the implementation on generated cases"}],
    "checks": [],
    "notes": "See DESIGN.md. VERIF_SEED / VERIF_TIER are honoured; PYRO5_TREE selects the tree under test (default /repo).",
    "not_applicable": [],
}
for pid in ALL:
    if pid in CLAIMED:
        c = CLAIMED[pid]
        m["checks"].append({
            "property_id": pid,
            "quick_cmd": "./check %s --tier quick" % pid,
            "thorough_cmd": "./check %s --tier thorough" % pid,
            "evidence_file": "/verif/evidence/%s.json" % pid,
            "replay_cmd_template": "./check %s --replay {path}" % pid,
            "engine": "coq-proof+correspondence",
            "level_claimed": {"category": "proof", "text": c["text"], "design_ref": c["design_ref"]},
            "level_note": c["note"],
            "technique": c["technique"],
        })
    else:
        m["not_applicable"].append({"property_id": pid, "reason": NOT_YET.get(pid, "model and proofs not built yet in this development (planned in DESIGN.md section 6); not claimed until its check exists")})
with open(os.path.join(os.path.dirname(HERE), "MANIFEST.json"), "w") as f:
    json.dump(m, f, indent=1)
print("claimed:", sorted(CLAIMED))
