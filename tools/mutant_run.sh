#!/bin/bash
# tools/mutant_run.sh <patch.diff> <Cxx> [quick|thorough]
# Runs ./check Cxx against a scratch copy of /repo with the patch applied, in a scratch copy of
# the Coq build directory, so that neither /repo, /verif/coq/Gen nor /verif/evidence is touched.
# Everything is removed afterwards.  Exit status / VIOLATION lines are those of the check.
patch="$(realpath "$1")"; prop="$2"; tier="${3:-quick}"
here="$(cd "$(dirname "$0")/.." && pwd)"
w="$(mktemp -d /tmp/mut_XXXXXX)"
trap 'rm -rf "$w"' EXIT
mkdir -p "$w/tree" "$w/out"
cp -r /repo/Pyro5 "$w/tree/Pyro5"
find "$w/tree" -name __pycache__ -prune -exec rm -rf {} +
( cd "$w/tree" && patch -p1 -s < "$patch" ) || { echo "patch does not apply"; exit 2; }
rsync -a --exclude Cases --exclude .scratch "$here/coq/" "$w/coq/"
PYRO5_TREE="$w/tree" VERIF_COQ_DIR="$w/coq" VERIF_OUT_DIR="$w/out" "$here/check" "$prop" --tier "$tier"
rc=$?
if [ -n "$KEEP_OUT" ]; then mkdir -p "$KEEP_OUT"; cp -r "$w/out/." "$KEEP_OUT/"; fi
exit $rc
