#!/bin/bash
# tools/seed_detect.sh <seeded dir name> [Cxx-check ...]: re-run the named quick checks (default: the property in its name)
# against a kept seeded change (no re-confirmation of demo/test-suite: confirmed.json is left as it is); rewrites detected.json.
name="$1"; shift; here="$(cd "$(dirname "$0")/.." && pwd)"; d="$here/seeded/$name"
pid="${name%%_*}"; checks="${*:-$pid}"
python3 - "$d" <<'PY'
import json,sys; json.dump({"runs":[]},open(sys.argv[1]+"/detected.json","w"))
PY
for c in $checks; do
  out=$("$here/tools/mutant_run.sh" "$d/patch.diff" "$c" quick 2>&1); rc=$?
  viol=$(echo "$out" | grep -c "^VIOLATION"); nofail=$(echo "$out" | grep "^VIOLATION" | grep -c "no-failing-input-found")
  echo "$out" | grep -E "^(VIOLATION|$c )" | head -4
  python3 - "$d" "$c" "$rc" "$viol" "$nofail" <<'PY'
import json,sys
d,c,rc,v,nf=sys.argv[1],sys.argv[2],int(sys.argv[3]),int(sys.argv[4]),int(sys.argv[5])
j=json.load(open(d+"/detected.json"))
j["runs"].append({"check":c,"check_cmd":"tools/mutant_run.sh seeded/%s/patch.diff %s quick"%(d.split('/')[-1],c),"exit":rc,"violation_lines":v,"with_concrete_replay":v-nf,"detected":rc!=0 and v>0})
j["detected"]=any(r["detected"] for r in j["runs"]); j["with_concrete_replay"]=max(r["with_concrete_replay"] for r in j["runs"])
json.dump(j,open(d+"/detected.json","w"),indent=1)
PY
done
cat "$d/detected.json" | tr -d '\n' | cut -c1-400; echo
