#!/bin/bash
# confirm_seed.sh <seed_dir> <scratch_worktree>: demo fails with patch / passes without; full test-suite passes with patch.
# Appends the outcome to <seed_dir>/confirmed.json
sd="$1"; wt="$2"
cd "$wt" || exit 2
git checkout -q -- . ; git clean -fdq
PYTHONPATH="$wt" /venv/bin/python "$sd/demo.py" >/dev/null 2>&1; clean_rc=$?
git apply "$sd/patch.diff" || { echo "{\"applies\": false}" > "$sd/confirmed.json"; exit 1; }
PYTHONPATH="$wt" /venv/bin/python "$sd/demo.py" >/dev/null 2>&1; patched_rc=$?
tests=$(PYTHONPATH="$wt" /venv/bin/python -m pytest -q -p no:cacheprovider --timeout=900 2>&1 | tail -1)
git checkout -q -- . ; git clean -fdq
echo "{\"applies\": true, \"demo_exit_clean\": $clean_rc, \"demo_exit_patched\": $patched_rc, \"tests_with_patch\": \"$tests\"}" > "$sd/confirmed.json"
cat "$sd/confirmed.json"
