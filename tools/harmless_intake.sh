#!/bin/bash
# tools/harmless_intake.sh <Cxx> <k> <worktree> [srcdir] [checks...]: take in an independently written
# property-PRESERVING change (/tmp/harm_<Cxx>/<k>/{patch.diff,meta.json}), confirm that the existing suite
# passes with it, run the property's quick check (and any further named checks) against it and keep it as
# /verif/seeded_harmless/<Cxx>_h<k>/ with the outcome in result.json. Expected outcome: silent (exit 0).
pid="$1"; k="$2"; wt="$3"; src="${4:-/tmp/harm_$pid}/$k"; shift 4; checks="${*:-$pid}"
here="$(cd "$(dirname "$0")/.." && pwd)"; dst="$here/seeded_harmless/${pid}_h$k"
mkdir -p "$dst"; cp "$src/patch.diff" "$src/meta.json" "$dst/"
cd "$wt" || exit 2; git checkout -q -- . ; git clean -fdq
git apply "$dst/patch.diff" || { echo '{"applies": false}' > "$dst/result.json"; exit 1; }
tests=$(PYTHONPATH="$wt" /venv/bin/python -m pytest -q -p no:cacheprovider --timeout=900 2>&1 | tail -1)
git checkout -q -- . ; git clean -fdq
python3 - "$dst" "$tests" <<'PY'
import json,sys; json.dump({"applies":True,"tests_with_patch":sys.argv[2],"runs":[]},open(sys.argv[1]+"/result.json","w"))
PY
"$here/tools/harmless_recheck.sh" "${pid}_h$k" $checks
