"""Cooperative scheduler (DESIGN 4.3): real threads, but exactly one runs at a time and only
between *yield points* placed before every primitive on an instrumented shared object.
A schedule is a list of thread indices; scheduling a finished or blocked thread is a no-op."""
import threading

TIMEOUT = 20.0


class HarnessStuck(Exception):
    pass


class Worker:
    def __init__(self, ctl, idx, fn):
        self.ctl, self.idx, self.fn = ctl, idx, fn
        self.go = threading.Semaphore(0)
        self.pending = None          # (kind, obj) of the primitive this thread is about to perform
        self.done = False
        self.error = None
        self.thread = threading.Thread(target=self._body, daemon=True)

    def _body(self):
        self.ctl._local.worker = self
        self.go.acquire()            # wait for start()
        try:
            self.fn()
        except BaseException as x:   # noqa
            self.error = x
        finally:
            self.done = True
            self.pending = None
            self.ctl._back.release()


class Controller:
    def __init__(self):
        self.workers = []
        self._local = threading.local()
        self._back = threading.Semaphore(0)
        self.post_release = False    # extra yield point right after a lock release took effect (search mode only)
        self.clock = 0               # number of effective steps so far
        self.trace = []              # (thread, kind) of effective steps

    def current(self):
        return getattr(self._local, "worker", None)

    def spawn(self, fn):
        w = Worker(self, len(self.workers), fn)
        self.workers.append(w)
        return w.idx

    def _wait_back(self):
        if not self._back.acquire(timeout=TIMEOUT):
            raise HarnessStuck("a controlled thread neither parked nor finished within %ss" % TIMEOUT)

    def start(self):
        """run every thread's local prologue up to its first yield point"""
        for w in self.workers:
            w.thread.start()
            w.go.release()
            self._wait_back()

    def yield_point(self, kind, obj=None):
        w = self.current()
        if w is None:
            return                   # uncontrolled (setup) thread: no-op
        w.pending = (kind, obj)
        self._back.release()
        w.go.acquire()
        w.pending = None

    def enabled(self, t):
        w = self.workers[t]
        if w.done:
            return False
        if w.pending is None:
            return False
        kind, obj = w.pending
        if kind == "acquire" and obj.owner is not None and obj.owner is not w:
            return False
        if kind == "wait" and not obj.is_set():
            return False
        return True

    def step(self, t):
        if t >= len(self.workers) or not self.enabled(t):
            return None
        w = self.workers[t]
        kind = w.pending[0]
        self.clock += 1
        self.trace.append((t, kind))
        w.go.release()
        self._wait_back()
        return kind

    def run(self, schedule):
        return [self.step(t) for t in schedule]

    def all_done(self):
        return all(w.done for w in self.workers)

    def abandon(self, bound=100000):
        """after the schedule: let every remaining thread run to completion, respecting enabledness"""
        n = 0
        while not self.all_done() and n < bound:
            progressed = False
            for t in range(len(self.workers)):
                if self.enabled(t):
                    self.step(t)
                    progressed = True
                    n += 1
            if not progressed:
                raise HarnessStuck("deadlock: no controlled thread is enabled")


class CoopRLock:
    """re-entrant lock whose outermost acquire and release are yield points"""
    def __init__(self, ctl):
        self.ctl, self.owner, self.depth = ctl, None, 0

    def acquire(self, blocking=True, timeout=-1):
        me = self.ctl.current()
        if me is None:
            self.depth += 1
            return True
        if self.owner is me:
            self.depth += 1
            return True
        self.ctl.yield_point("acquire", self)
        assert self.owner is None, "scheduler granted a held lock"
        self.owner, self.depth = me, 1
        return True

    def release(self):
        me = self.ctl.current()
        if me is None:
            self.depth -= 1
            return
        self.depth -= 1
        if self.depth == 0:
            self.ctl.yield_point("release", self)
            self.owner = None
            if getattr(self.ctl, "post_release", False):
                # a preemption point between "the lock is free again" and whatever the thread does next without it
                self.ctl.yield_point("released", self)

    def __enter__(self):
        self.acquire()
        return self

    def __exit__(self, *a):
        self.release()
        return False


class CoopLock(CoopRLock):
    """plain (non re-entrant) lock: a second acquire by the owner blocks forever, as in CPython"""
    def acquire(self, blocking=True, timeout=-1):
        me = self.ctl.current()
        if me is not None and self.owner is me:
            self.ctl.yield_point("acquire", self)   # never enabled: self-deadlock is visible as a stuck thread
        return CoopRLock.acquire(self, blocking, timeout)
