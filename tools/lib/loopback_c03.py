"""C03 additions to the in-process loopback transport: more fault kinds and bookkeeping.

Fault kinds handled here (same per-message script as tools/lib/loopback.py; the kinds of the base class
that do not look inside the message — deliver, drop_request, drop_reply, delay_reply, reset_before,
reset_after — are inherited):
  cut_frac (frac=x)        reply cut at int(x*len(reply)) (always strictly inside the reply), then reset
  reset_after_reply        full reply delivered, then connection reset
  stale_k (k=n)            the n-th most recent earlier MSG_RESULT reply (of any connection, since the last
                           `mark()`) is delivered in front of the real reply; nothing extra if there is none
  dup                      the reply is delivered twice
  seq_add (delta=d)        the 16-bit sequence field of the reply (header bytes 10..11) is changed by d
  alter_type               the message-type byte of the reply (header byte 6) is changed to MSG_PING
  reset_delivered          the request is delivered into the server's receive buffer, then the connection is reset
                           BEFORE the server handles it: the server-side socket behaves like a real reset socket
                           (buffered request still readable, getpeername() raises OSError(ENOTCONN), send raises
                           EPIPE, further reads ECONNRESET); the client sees a reset connection
Bookkeeping: `result_replies` (every MSG_RESULT reply the server produced, unaltered, oldest first) and
`delivered` (number of post-handshake requests handed to daemon.handleRequest), `oneway_answered` (number of times
the server wrote reply bytes in answer to a request that carried FLAGS_ONEWAY).

Header layout of Pyro5 ('!4sHBBHHII16sHH'): 0..3 'PYRO', 4..5 version, 6 type, 7 serializer, 8..9 flags,
10..11 seq, 12..15 data length, 16..19 annotations length, 20..35 correlation id, 36..37 reserved, 38..39 magic.
"""
import errno, struct
from tools.lib.loopback import Loopback

MSG_CONNECT = 1
MSG_INVOKE = 4
FLAGS_ONEWAY = 4
MSG_RESULT = 5
MSG_PING = 6


def wire_type(msg):
    return msg[6]


def wire_seq(msg):
    return struct.unpack("!H", bytes(msg[10:12]))[0]


class Loopback03(Loopback):
    def __init__(self, daemon, fragment=None):
        super().__init__(daemon, fragment)
        self.result_replies = []
        self.delivered = 0
        self.oneway_answered = 0
        self.client_consumed = 0

    def _next_fault(self, c, msg):
        f = super()._next_fault(c, msg)
        if f.get("kind") == "reset_delivered":
            # the reset reaches the server's socket before the server looks at the buffered request
            c.s2c.reset = True
            c.c2s.reset = True

            def getpeername():
                raise OSError(errno.ENOTCONN, "Transport endpoint is not connected")
            c.ssock.getpeername = getpeername
        return f

    def mark(self):
        self.result_replies = []
        self.delivered = 0

    def _serve_one(self, c):
        if c.handshaken:
            self.delivered += 1
        return super()._serve_one(c)

    def _apply_reply_fault(self, c, fault, reply):
        kind = fault.get("kind", "deliver")
        olds = list(self.result_replies)
        req = c.requests[-1] if c.requests else b""
        if reply and len(req) >= 40 and req[6] == MSG_INVOKE and struct.unpack("!H", bytes(req[8:10]))[0] & FLAGS_ONEWAY:
            self.oneway_answered += 1     # the server wrote something in answer to a oneway request
        if reply and len(reply) >= 40 and wire_type(reply) == MSG_RESULT:
            self.result_replies.append(reply)
        if kind == "cut_frac":
            if reply:
                k = min(len(reply) - 1, max(0, int(fault.get("frac", 0.5) * len(reply))))
                c.s2c.buf += reply[:k]
            self._reset(c)
        elif kind == "reset_after_reply":
            c.s2c.buf += reply
            self._reset(c)
        elif kind == "stale_k":
            k = fault.get("k", 0)
            stale = olds[-1 - k] if k < len(olds) else b""
            c.s2c.buf += bytes(stale) + reply
        elif kind == "dup":
            c.s2c.buf += reply + reply
        elif kind == "seq_add":
            if reply:
                b = bytearray(reply)
                b[10:12] = struct.pack("!H", (wire_seq(reply) + fault.get("delta", 1)) & 0xffff)
                reply = bytes(b)
            c.s2c.buf += reply
        elif kind == "alter_type":
            if reply:
                b = bytearray(reply)
                b[6] = MSG_PING
                reply = bytes(b)
            c.s2c.buf += reply
        elif kind == "reset_delivered":
            # whatever the server managed to write went to a dead connection
            self._reset(c)
        elif kind in ("deliver", "drop_request", "drop_reply", "delay_reply", "reset_before", "reset_after"):
            super()._apply_reply_fault(c, fault, reply)
        else:
            raise ValueError("fault kind %r not supported by Loopback03" % kind)
