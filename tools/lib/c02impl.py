"""C02 — implementation side: synthesise a target class from a shape, register it with a real
Daemon and feed raw INVOKE messages to the real Daemon.handleRequest through a fake connection
(no client proxy, so the server-side gate is reached with hostile names).

Shape (JSON):
  {"base_exposed": bool, "sub_exposed": bool,
   "members": [{"name": str, "kind": "method|static|classm|prop|cattr|iattr|helper|hook", "in": "base|sub",
                "mark": bool, "fname": str, "oneway": bool, "get": bool, "set": bool, "hexp": bool,
                # optional (defaults keep old cases valid):
                "gmark"/"smark"/"dmark": bool   own @expose applied to that accessor *function*,
                "del": bool                     deleter present (default: only when neither getter nor setter),
                "hcall": bool                   the helper's class defines __call__,
                "hbase": bool                   the helper's class is exposed through a base class}, ...]}
   kind "hook": name is "__getattr__" or "__getattribute__" — the class's own attribute hook; it logs
   [index, "hook"] when the interpreter invokes it for a name the current request asked for.
The registered object is an instance of Sub(Base).  Every member body appends (member index, accessor)
to a log and returns "ran:<index>:<accessor>"; nothing else is ever mutated, so any change of the
instance/class dictionaries is an effect of the *request*.
Request (JSON): {"kind": "call|batch|getattr|setattr", "oneway": bool, "names": [name, ...]}
  a name is a str or {"ns": <tag>} for a non-string value (see NONSTRING).
"""
import threading, warnings

TOKEN = "tok-C02"
METHOD_KINDS = ("method", "static", "classm")
# non-string member names, by tag -> python value (what survives depends on the serializer)
BAD_ITEM = "<malformed batch item>"     # wire_name() of {"ns": "baditem"}: the batch item is a 1-tuple, not a triple
NONSTRING = {"int": 5, "none": None, "float": 1.5, "list": ["a"], "dict": {"a": 1}, "true": True,
             "bytes": b"ab", "tuple": ("a",), "emptylist": [], "zero": 0}


def is_dunder(name):
    return len(name) > 4 and name.startswith("__") and name.endswith("__")


class Built:
    pass


# values for surplus positional / keyword arguments, by tag -> (python value, truthiness)
ARGVALS = {"false": (False, False), "zero": (0, False), "none": (None, False), "empty": ("", False), "emptylist": ([], False),
           "true": (True, True), "one": (1, True), "str": ("x", True), "list": ([0], True)}


def effective(kind, dv, dk):
    """what the request means once it has crossed the wire (dv, dk = deserialised vargs, kwargs): for attribute requests the
    name the handler will index out of vargs, whether a needed positional argument is missing, and the truthiness of surplus
    positional and of keyword arguments"""
    def idx(v, i):
        try:
            return True, v[i]
        except Exception:
            return False, None
    def truth(x):
        try:
            return bool(x)
        except Exception:
            return True
    eff = {"missing": False, "surplus": [], "kwargs": []}
    if isinstance(dk, dict):
        eff["kwargs"] = [[str(k), truth(v)] for k, v in dk.items()]
    if kind in ("getattr", "setattr"):
        need = 1 if kind == "getattr" else 2
        ok0, n0 = idx(dv, 0)
        eff["names"] = [n0 if ok0 and isinstance(n0, str) else {"ns": "effective"}]
        eff["missing"] = not all(idx(dv, i)[0] for i in range(need))
        try:
            eff["surplus"] = [truth(x) for x in list(dv)[need:]]
        except Exception:
            eff["surplus"] = []
    return eff


# the interpreter itself looks up __class__ on any instance (isinstance); a hook invocation for it is not
# caused by the request's member name (the gate refuses the reserved name __class__ before touching the instance)
HOOK_INTERNAL = ("__class__",)


def _hook_default(name, self, a, k):
    """behaviour of a dunder member when the interpreter (not the request) invokes it"""
    if name == "__getattr__":
        raise AttributeError(a[0] if a else name)
    if name == "__eq__":
        return self is a[0]
    if name == "__ne__":
        return self is not a[0]
    if name in ("__bool__", "__nonzero__"):
        return True
    if name in ("__copy__", "__deepcopy__", "__enter__"):
        return self
    if name == "__len__":
        return 1
    d = getattr(object, name, None)
    if d is not None:
        return d(self, *a, **k)
    return None


ACCS = (("get", "gsrc", "gmark"), ("set", "ssrc", "smark"), ("del", "dsrc", "dmark"))


def owners(shape):
    """(class, name) -> index of the member that holds that name in that class body (first definition wins)"""
    own = {}
    for i, m in enumerate(shape["members"]):
        if m["kind"] not in ("iattr", "helper"):
            own.setdefault((m["in"], m["name"]), i)
    return own


def accessor_plan(shape):
    """for every property member: where each of its accessor functions comes from.
    {mid: {"get"|"set"|"del": None | ("own", marked) | ("method", j) | ("base", j, which)}}
      ("method", j):      the function object of method member j (which is at the same time a method under its own name) —
                          old-style  target = property(get_target, set_target)
      ("base", j, which): the accessor of the base class's property j of the same name — Base.prop.getter(f) / .setter(f)"""
    own = owners(shape)
    mem = shape["members"]
    plans = {}
    order = [i for i, m in enumerate(mem) if m["kind"] == "prop" and m["in"] == "base"] + \
            [i for i, m in enumerate(mem) if m["kind"] == "prop" and m["in"] == "sub"]
    for i in order:
        m = mem[i]
        if own.get((m["in"], m["name"])) != i:
            continue
        has_del = m["del"] if m.get("del") is not None else not (m.get("get") or m.get("set"))
        present = {"get": bool(m.get("get")), "set": bool(m.get("set")), "del": bool(has_del)}
        plan = {}
        for which, srck, markk in ACCS:
            src = m.get(srck)
            pl = ("own", bool(m.get(markk))) if present[which] else None
            if isinstance(src, str) and src.startswith("m:"):
                j = own.get((m["in"], src[2:]))
                if j is None and m["in"] == "sub":
                    j = own.get(("base", src[2:]))
                if j is not None and mem[j]["kind"] in METHOD_KINDS:
                    pl = ("method", j)
            elif src == "base" and m["in"] == "sub":
                j = own.get(("base", m["name"]))
                if j is not None and j in plans:
                    pl = ("base", j, which) if plans[j][which] is not None else None
            plan[which] = pl
        plans[i] = plan
    return plans


class Raiser:
    """class attribute whose access ON THE CLASS raises while armed and while a get_metadata call of the harness is in
    progress (the metadata scan does getattr(cls, name)) — a transient fault during the scan; requests are not affected.
    mode once: disarms itself after the first raise; park: does not raise but calls back from inside the scan"""
    def __init__(self, mode, ctl):
        self.mode, self.ctl = mode, ctl

    def __get__(self, inst, owner):
        if inst is None and self.ctl["armed"] and self.ctl["scanning"]:
            if self.mode == "park":
                self.ctl["armed"] = False
                if self.ctl["on_park"]:
                    self.ctl["on_park"]()
                return 7
            if self.mode == "once":
                self.ctl["armed"] = False
            raise RuntimeError("attribute not available right now")
        return 7


def build(shape, srv):
    """Returns Built with .obj, .log, .refused_marks (indices whose own @expose raised), .cls"""
    log = []
    refused = []
    current = set()      # the string names of the request in progress (set by Rig.request)
    ns = {"base": {}, "sub": {}}
    inst = {}

    raiser_ctl = {"armed": False, "on_park": None, "scanning": False}
    plans = accessor_plan(shape)
    funcs = {}       # member index -> raw function object of a method member

    def mk(mid, acc, fname, flavour, hook=None):
        def note(a):
            # a function that also serves as accessor of a property logs as that accessor when it is invoked as one
            alias = getattr(body, "_c02_as", None)
            e = list(alias) if alias and not (a and a[0] == TOKEN) else [mid, acc]
            log.append(e)
            return "ran:%d:%s" % (e[0], e[1])
        if flavour == "static":
            def body(*a, **k):
                return note(a)
        elif hook is not None:
            def body(self, *a, **k):
                if a and a[0] == TOKEN:
                    return note(a)
                return _hook_default(hook, self, a, k)
        else:
            def body(self, *a, **k):
                return note(a)
        body.__name__ = fname
        body.__qualname__ = "Target." + fname
        return body

    def mk_hook(mid, hookname):
        """the class's own __getattr__ / __getattribute__: logs when invoked for a requested name"""
        def wanted(a):
            return len(a) == 1 and isinstance(a[0], str) and a[0] in current and a[0] not in HOOK_INTERNAL
        if hookname == "__getattribute__":
            def body(self, *a, **k):
                if a and a[0] == TOKEN:
                    log.append([mid, "call"])
                    return "ran:%d:call" % mid
                if wanted(a):
                    log.append([mid, "hook"])
                return object.__getattribute__(self, *a)
        else:
            def body(self, *a, **k):
                if a and a[0] == TOKEN:
                    log.append([mid, "call"])
                    return "ran:%d:call" % mid
                if wanted(a):
                    log.append([mid, "hook"])
                raise AttributeError(a[0] if a else hookname)
        body.__name__ = hookname
        body.__qualname__ = "Target." + hookname
        return body

    def own_mark(thing, mid):
        try:
            return srv.expose(thing)
        except AttributeError:
            if mid not in refused:
                refused.append(mid)
            return thing

    seq = [i for i, m in enumerate(shape["members"]) if m["kind"] != "prop"] + \
          [i for i, m in enumerate(shape["members"]) if m["kind"] == "prop" and m["in"] == "base"] + \
          [i for i, m in enumerate(shape["members"]) if m["kind"] == "prop" and m["in"] == "sub"]
    for mid in seq:
        m = shape["members"][mid]
        name, kind = m["name"], m["kind"]
        if kind in ("iattr", "helper"):
            if name in inst:
                continue
            if kind == "iattr":
                inst[name] = 1000 + mid
            else:
                def hm(self, *a, mid=mid, **k):
                    log.append([mid, "helper"])
                    return "ran:%d:helper" % mid
                hm.__name__ = "hm"
                hns = {"hm": srv.expose(hm), "value": 7}
                if m.get("hcall"):
                    def hcall(self, *a, mid=mid, **k):
                        log.append([mid, "hcall"])
                        return "ran:%d:hcall" % mid
                    hcall.__name__ = "__call__"
                    hns["__call__"] = hcall
                if m.get("hexp") and m.get("hbase"):
                    hb = srv.expose(type("HelperBase", (object,), {}))      # _pyroExposed is inherited
                    hcls = type("Helper", (hb,), hns)
                else:
                    hcls = type("Helper", (object,), hns)
                    if m.get("hexp"):
                        hcls = srv.expose(hcls)
                inst[name] = hcls()
            continue
        d = ns[m["in"]]
        if name in d:
            continue          # first definition in a class body wins (harness convention)
        fname = m.get("fname") or name
        if kind == "hook":
            f = mk_hook(mid, name)
            if m.get("mark"):
                f = own_mark(f, mid)
            d[name] = f
        elif kind in METHOD_KINDS:
            hook = name if (kind == "method" and is_dunder(name)) else None
            f = mk(mid, "call", fname, kind, hook)
            funcs[mid] = f
            if m.get("mark"):
                f = own_mark(f, mid)
            if m.get("oneway"):
                f = srv.oneway(f)
            if kind == "static":
                f = staticmethod(f)
            elif kind == "classm":
                f = classmethod(f)
            d[name] = f
        elif kind == "prop":
            acc = {}
            for which, _, _ in ACCS:
                pl = plans[mid][which]
                if pl is None:
                    acc[which] = None
                elif pl[0] == "own":
                    f = mk(mid, which, fname, "prop")
                    if pl[1]:
                        f = own_mark(f, mid)        # @expose directly on an accessor function (below @property / @x.setter ...)
                    acc[which] = f
                elif pl[0] == "method":
                    f = funcs[pl[1]]                # the very function object that is also bound as a method
                    f._c02_as = [mid, which]
                    acc[which] = f
                else:
                    f = getattr(ns["base"][name], "f" + which)      # taken over from the base class's property
                    f._c02_as = [mid, which]
                    acc[which] = f
            g, s, dl = acc["get"], acc["set"], acc["del"]
            p = property(g, s, dl)
            if m.get("mark"):
                p = own_mark(p, mid)        # @expose on the property object marks its first accessor only
            d[name] = p
        elif kind == "raiser":
            d[name] = Raiser(m.get("raises", "once"), raiser_ctl)
        elif kind == "cattr":
            d[name] = 2000 + mid
        else:
            raise ValueError("unknown member kind %r" % kind)
    base = type("Target", (object,), dict(ns["base"]))
    if shape.get("base_exposed"):
        base = srv.expose(base)
    sub = type("Target", (base,), dict(ns["sub"]))
    if shape.get("sub_exposed"):
        sub = srv.expose(sub)
    def new_instance():
        o = sub()
        for k, v in inst.items():
            object.__getattribute__(o, "__dict__")[k] = v      # never through a property setter
        del log[:]
        return o
    obj = new_instance()
    b = Built()
    b.new_instance = new_instance
    b.obj, b.log, b.refused_marks, b.cls, b.base, b.current = obj, log, sorted(refused), sub, base, current
    b.raiser_ctl = raiser_ctl
    return b


class FakeSock:
    def getpeername(self):
        return ("127.0.0.1", 50000)

    def getsockname(self):
        return ("127.0.0.1", 50001)


class FakeConn:
    """byte source/sink in the style of tests/support.py ConnectionMock"""
    def __init__(self, data, errors_mod):
        self.inbuf = data
        self.sent = b""
        self.sock = FakeSock()
        self.keep_open = False
        self.pyroInstances = {}
        self._errors = errors_mod

    def send(self, data):
        self.sent += bytes(data)

    def recv(self, n):
        chunk = self.inbuf[:n]
        self.inbuf = self.inbuf[n:]
        if len(chunk) < n:
            raise self._errors.ConnectionClosedError("receiving: not enough data")
        return chunk

    def close(self):
        pass


class Rig:
    """one real Daemon, reused for every shape of a run"""
    def __init__(self):
        import Pyro5.server, Pyro5.protocol, Pyro5.serializers, Pyro5.errors, Pyro5.core
        self.srv, self.protocol, self.serializers = Pyro5.server, Pyro5.protocol, Pyro5.serializers
        self.errors, self.core = Pyro5.errors, Pyro5.core
        self.daemon = Pyro5.server.Daemon(host="127.0.0.1", port=0)
        self.seq = 0

    def close(self):
        try:
            self.daemon.close()
        except Exception:
            pass

    def wire_name(self, n):
        if isinstance(n, dict):
            if n["ns"] == "baditem":
                return BAD_ITEM
            return NONSTRING[n["ns"]]
        return n

    def snapshot(self, built, obj=None):
        def safe(d):
            return sorted((k, id(v)) for k, v in d.items() if k not in ("_pyroId", "_pyroDaemon"))
        obj = built.obj if obj is None else obj
        return (safe(object.__getattribute__(obj, "__dict__")), safe(vars(built.cls)), safe(vars(built.base)))

    def request(self, built, oid, req, ser="serpent", obj=None):
        """send one raw INVOKE; returns the observation dict"""
        P = self.protocol
        serializer = self.serializers.serializers[ser]
        names = [self.wire_name(n) for n in req["names"]]
        extra = tuple(ARGVALS[t][0] for t in req.get("extra", ()))
        kwargs = {k: ARGVALS[t][0] for k, t in (req.get("kwargs") or {}).items()}
        flags = 0
        if req["kind"] == "batch":
            flags |= P.FLAGS_BATCH
            method = "<batch>"
            vargs = [("x",) if n == BAD_ITEM else (n, (TOKEN,) + extra, dict(kwargs)) for n in names]
            kwargs = {}
        elif req["kind"] in ("getattr", "setattr"):
            method = "__" + req["kind"] + "__"
            regular = (names[0],) if req["kind"] == "getattr" else (names[0], 4242)
            if req.get("nargs") is not None:
                regular = regular[:req["nargs"]]
            vargs = regular + extra
            form = req.get("vform", "tuple")
            if form == "str":
                vargs = names[0] if isinstance(names[0], str) else "abc"     # a string instead of an argument tuple
            elif form == "none":
                vargs = None
            elif form == "int":
                vargs = 7
            elif form == "list":
                vargs = list(vargs)
        else:
            method, vargs = names[0], (TOKEN,) + extra
        if req.get("oneway"):
            flags |= P.FLAGS_ONEWAY
        self.seq = (self.seq + 1) & 0xffff
        obs = {"reply": None, "log": None, "exc": None, "raised": None, "state_changed": False, "value": None, "wire": "ok"}
        try:
            data = serializer.dumpsCall(oid, method, vargs, kwargs)
            _, _, dv, dk = serializer.loadsCall(data)
        except Exception as x:       # this request cannot be put on the wire by this serializer
            obs["wire"] = "unserialisable:" + type(x).__name__
            return obs
        eff = effective(req["kind"], dv, dk)
        if req["kind"] not in ("getattr", "setattr"):
            eff["names"] = [n if isinstance(n, str) and n != BAD_ITEM else {"ns": "effective"} for n in names]
            eff["surplus"] = [ARGVALS[t][1] for t in req.get("extra", ())]
            eff["kwargs"] = [[k, ARGVALS[t][1]] for k, t in (req.get("kwargs") or {}).items()]
        obs["eff"] = eff
        names = eff["names"]
        msg = P.SendingMessage(P.MSG_INVOKE, flags, self.seq, serializer.serializer_id, data)
        conn = FakeConn(bytes(msg.data), self.errors)
        del built.log[:]
        built.current.clear()
        built.current.update(n for n in names if isinstance(n, str))
        before = self.snapshot(built, obj)
        try:
            with warnings.catch_warnings():
                warnings.simplefilter("ignore")
                self.daemon.handleRequest(conn)
        except Exception as x:
            obs["raised"] = type(x).__name__
        for t in threading.enumerate():
            if t.name == "oneway-call" and t is not threading.current_thread():
                t.join(5)
        built.current.clear()
        obs["state_changed"] = self.snapshot(built, obj) != before
        obs["log"] = [list(e) for e in built.log]
        if conn.sent:
            rc = FakeConn(conn.sent, self.errors)
            rmsg = P.recv_stub(rc)
            obs["reply_seq_ok"] = rmsg.seq == self.seq
            if rmsg.flags & P.FLAGS_EXCEPTION:
                obs["reply"] = "error"
                try:
                    exc = serializer.loads(rmsg.data)
                    obs["exc"] = type(exc).__name__
                except Exception as x:
                    obs["exc"] = "undecodable:" + type(x).__name__
            else:
                obs["reply"] = "result"
                try:
                    val = serializer.loads(rmsg.data)
                except Exception as x:
                    val = "undecodable:" + type(x).__name__
                if req["kind"] == "batch" and isinstance(val, (list, tuple)):
                    items = []
                    for v in val:
                        if isinstance(v, self.core._ExceptionWrapper) or isinstance(v, BaseException):
                            obs["reply"] = "error"
                            obs["exc"] = type(getattr(v, "exception", v)).__name__
                            items.append("exc")
                        else:
                            items.append(v)
                    val = items
                obs["value"] = val if isinstance(val, (str, int, type(None), list)) else repr(val)[:80]
            if rc.inbuf:
                obs["extra_reply_bytes"] = len(rc.inbuf)
        else:
            obs["reply"] = "none"
        return obs

    def metadata(self, oid):
        with warnings.catch_warnings():
            warnings.simplefilter("ignore")
            md = self.daemon.objectsById[self.core.DAEMON_NAME].get_metadata(oid)
        return {k: sorted(md[k]) for k in ("methods", "oneway", "attrs")}

    def metadata_obs(self, oid, built):
        """one get_metadata call as an observation: the answer or the fact that it raised; a 'park' attribute of the class
        re-enters get_metadata from inside the scan (recorded under 'nested', it happens BEFORE the outer call returns)"""
        nested = []
        def on_park():
            try:
                nested.append({"meta": self.metadata(oid)})
            except Exception as x:
                nested.append({"meta_error": type(x).__name__})
        built.raiser_ctl["on_park"] = on_park
        built.raiser_ctl["scanning"] = True
        try:
            out = {"meta": self.metadata(oid)}
        except Exception as x:
            out = {"meta_error": type(x).__name__}
        built.raiser_ctl["scanning"] = False
        built.raiser_ctl["on_park"] = None
        out["nested"] = nested
        return out

    def run_shape(self, shape, reqs, ser="serpent"):
        """build, register, metadata, all requests, unregister -> observation"""
        built = build(shape, self.srv)
        oid = "obj_c02"
        self.daemon.register(built.obj, oid, force=True)
        try:
            md = self.metadata(oid)
            out = [self.request(built, oid, r, ser) for r in reqs]
        finally:
            try:
                self.daemon.unregister(oid)
            except Exception:
                pass
        return {"meta": md, "refused_marks": built.refused_marks, "reqs": out}

    def run_history(self, shapes, objects, ops, ser="serpent"):
        """several classes (all called Target), several registered objects (objects[i] = class index), and a
        sequence of {"op": "meta", "obj": i} / {"op": "req", "obj": i, "req": {...}} -> one observation per op"""
        builts = [build(sh, self.srv) for sh in shapes]
        insts, oids = [], []
        firsts = set()
        for i, ci in enumerate(objects):
            b = builts[ci]
            o = b.obj if ci not in firsts else b.new_instance()
            firsts.add(ci)
            insts.append(o)
            oid = "obj_c02_%d" % i
            oids.append(oid)
            self.daemon.register(o, oid, force=True)
        for b in builts:
            b.raiser_ctl["armed"] = True       # from now on a raiser attribute aborts (or re-enters) the metadata scan
        out = []
        try:
            for op in ops:
                i = op["obj"]
                if op["op"] == "meta":
                    out.append(self.metadata_obs(oids[i], builts[objects[i]]))
                else:
                    out.append(self.request(builts[objects[i]], oids[i], op["req"], ser, obj=insts[i]))
        finally:
            for oid in oids:
                try:
                    self.daemon.unregister(oid)
                except Exception:
                    pass
        return {"ops": out}
