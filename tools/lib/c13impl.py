"""C13 implementation runner: plays abstract connection-event scripts on a REAL daemon (real request
loop, thread-pool or multiplex transport server, loopback TCP) through tools/lib/rawdrv.py and
records what the daemon did: disconnect-hook calls, resource close() calls, server-side socket state,
session instances, tracked-resource sets and pool / selector accounting, after every event.

A `case` is  {"stype": "thread"|"multiplex", "timeout": bool, "events": [...]}  (pool size fixed: POOL).
Events (c = connection id, unique per connect; r = resource id < NRES; tgt "S" = session-mode class, "P" = plain instance):
  ["connect", c, ok]                handshake (ok=False: the validator refuses it)
  ["req", c, tgt, act, r]           served request; act in track|untrack|nop
  ["raise", c, tgt, kind]           method raises: plain (ValueError) | security (SecurityError) | callback (@callback raising)
  ["end", c, "close"|"reset"]       client closes between requests (orderly / abortive)
  ["end", c, "cut", k, tgt, act, r, mode]   first k bytes of that request, then close (mode close|reset)
  ["end", c, "malformed", variant]  header-level garbage: magic|version|msgtype|toolarge
  ["end", c, "badser"]              INVOKE naming an unknown serializer id
  ["timeout", c, k]                 k bytes of a request on c, then silence for longer than COMMTIMEOUT
Worker hand-over (thread server; forced interleaving, no timing luck): `["end", c, "close", "gated"]` immediately followed by
`["connect", c2, True, "gated"]`: Pool.notify_done is wrapped so that the worker that served c is parked right after it has
handed itself back to the pool; the second event has c2 accepted and dispatched (Pool.process returned) while the worker is
parked, then lets the worker go.
Targets: "S" session-mode class, "P" plain instance, "C" percall class.  A request on "S"/"C" may carry one more element,
the id of a resource the class's CONSTRUCTOR tracks through current_context.track_resource if it runs for this request
(["req", c, tgt, act, r, rc], ["raise", c, tgt, kind, rc], ["end", c, "cut", k, tgt, act, r, mode, rc]).
act "stream": the method returns a generator (an item stream is registered in daemon.streaming_responses and left unexhausted).
Optional case key "linger": value of config.ITER_STREAM_LINGER for the case (default 30.0; 0 = streams dropped at disconnect).
Oneway calls: ["owsend", c, act, r] sends a ONEWAY invoke of a plain-object method that tracks/untracks r; the thread the daemon
starts for it is parked at its very start (Pyro5.server._OnewayCallThread.run wrapped).  Ordinary events follow (requests of
other connections served by the same handler thread, ...), then ["owrun", c, act, r] lets the oneway thread run and waits for
the method to have executed.  Only "owrun" is an event of the model (Req c TPlain act).
Flash connection (thread server): ["connect", c, True, "held"] ... ["end", c, "close", "held"]: the accept thread is parked right
after Worker.process(job) returned (Worker.process wrapped) and stays parked while c is served and ends; released after c's
cleanup has run, before the slot accounting is read.
Optional case key "hookfail": {"<c>": "<exception class name>"}: the daemon's clientDisconnect hook raises that exception for
connection c (after the call has been counted).
Optional case key "faulty": {"<r>": "<exception class name>"}: close() of resource r raises that exception (after counting).
"""
import contextlib, os, struct, sys, threading, time

from tools.lib import rawdrv as rd

POOL = 3            # THREADPOOL_SIZE of the thread server under test
NRES = 6
COMMTIMEOUT = 0.25
WAIT = 3.0          # how long the harness waits for an expected reaction before recording its absence
MALFORMED = ["magic", "version", "msgtype", "toolarge"]


class Res:
    """a tracked resource with a close() counter; kept alive by the harness (GC plays no role)"""
    def __init__(self, rid, log):
        self.rid, self.log = rid, log
        self.fail = None          # exception class raised by close() (set per case)

    def close(self):
        self.log.append(("close", self.rid))
        if self.fail is not None:
            raise self.fail("resource %d could not be closed cleanly" % self.rid)


class CustomCloseError(Exception):
    pass


def exc_class(name):
    import Pyro5.errors
    table = {"OSError": OSError, "ValueError": ValueError, "KeyError": KeyError, "RuntimeError": RuntimeError,
             "AttributeError": AttributeError, "ZeroDivisionError": ZeroDivisionError, "Custom": CustomCloseError,
             "PyroError": Pyro5.errors.PyroError, "SecurityError": Pyro5.errors.SecurityError,
             "ConnectionClosedError": Pyro5.errors.ConnectionClosedError, "TimeoutError": Pyro5.errors.TimeoutError}
    return table[name]


FAULT_CLASSES = ["OSError", "ValueError", "KeyError", "RuntimeError", "AttributeError", "ZeroDivisionError", "Custom",
                 "PyroError", "SecurityError", "ConnectionClosedError", "TimeoutError"]


class Gate:
    """forces the interleaving "a connection is accepted exactly while a worker returns to the pool" (thread server):
    Pool.notify_done / Pool.process are wrapped once per process; when armed, the next worker that hands itself back is
    parked right after notify_done returned, until release()."""
    def __init__(self):
        self.armed = False
        self.reached = threading.Event()
        self.go = threading.Event()
        self.handed = threading.Event()
        self.installed = False
        # second window (thread server): the accept thread is parked right after Worker.process(job) returned, i.e. after
        # the job was handed over and before Pool.process finishes its bookkeeping, while the short connection lives and ends
        self.hold_armed = False
        self.hold_reached = threading.Event()
        self.hold_go = threading.Event()
        # oneway calls: the thread that runs a oneway call is parked at its very start
        self.ow_armed = False
        self.ow_reached = threading.Event()
        self.ow_go = threading.Event()
        self.ow_installed = False

    def install(self):
        if self.installed:
            return
        from Pyro5 import svr_threads
        gate = self
        orig_done, orig_process = svr_threads.Pool.notify_done, svr_threads.Pool.process

        def notify_done(pool, worker):
            orig_done(pool, worker)
            if gate.armed:
                gate.armed = False
                gate.reached.set()
                gate.go.wait(10)

        def process(pool, job):
            orig_process(pool, job)
            gate.handed.set()
        svr_threads.Pool.notify_done, svr_threads.Pool.process = notify_done, process
        orig_wprocess = svr_threads.Worker.process

        def wprocess(worker, job):
            orig_wprocess(worker, job)
            if gate.hold_armed and job is not None:
                gate.hold_armed = False
                gate.hold_reached.set()
                gate.hold_go.wait(10)
        svr_threads.Worker.process = wprocess
        self.installed = True

    def install_oneway(self):
        if self.ow_installed:
            return
        import Pyro5.server
        gate = self
        orig_run = Pyro5.server._OnewayCallThread.run

        def run(thread):
            if gate.ow_armed:
                gate.ow_armed = False
                gate.ow_reached.set()
                gate.ow_go.wait(10)
            orig_run(thread)
        Pyro5.server._OnewayCallThread.run = run
        self.ow_installed = True

    def hold_arm(self):
        self.hold_reached.clear()
        self.hold_go.clear()
        self.hold_armed = True

    def ow_arm(self):
        self.ow_reached.clear()
        self.ow_go.clear()
        self.ow_armed = True

    def arm(self):
        self.reached.clear()
        self.go.clear()
        self.armed = True

    def release(self):
        self.armed = False
        self.go.set()
        self.hold_armed = False
        self.hold_go.set()
        self.ow_armed = False
        self.ow_go.set()


GATE = Gate()


class World:
    """one running daemon + the objects registered in it; reused for many cases of one configuration"""
    def __init__(self, stype, timeout):
        import Pyro5.api as api
        import Pyro5.errors
        from Pyro5 import server as pserver
        from Pyro5.callcontext import current_context
        self.stype, self.timeout = stype, timeout
        self.log = []                 # global, ordered: ("hook", cid) / ("close", rid) / ("exec", cid, what...)
        self.conns = {}               # cid -> server-side SocketConnection (captured by the validator; kept alive)
        self.by_id = {}               # id(conn) -> cid
        self.res = [Res(i, self.log) for i in range(NRES)]
        self.inst_counter = [0]
        self.ctor_res = None
        world = self

        def cid_of_ctx():
            return world.by_id.get(id(current_context.client))

        def ctor_track():
            # a constructor that tracks a resource for "its" connection (the harness says which resource, per request)
            rc = world.ctor_res
            if rc is not None:
                world.log.append(("exec", cid_of_ctx(), "ctor", rc))
                current_context.track_resource(world.res[rc])

        @api.expose
        class Mixin:
            def op(self, act, r):
                cid = cid_of_ctx()
                if act == "track":
                    current_context.track_resource(world.res[r])
                elif act == "untrack":
                    current_context.untrack_resource(world.res[r])
                world.log.append(("exec", cid, act, r))
                if act == "stream":
                    return (i for i in range(3))      # left unexhausted by the client
                return getattr(self, "iid", -1)

            @pserver.oneway
            def oop(self, act, r):
                # runs in its own thread (Daemon starts an _OnewayCallThread), with a copy of the call context
                if act == "track":
                    current_context.track_resource(world.res[r])
                elif act == "untrack":
                    current_context.untrack_resource(world.res[r])
                world.log.append(("exec", cid_of_ctx(), act, r))

            def boom(self):
                world.log.append(("exec", cid_of_ctx(), "boom", 0))
                raise ValueError("plain failure")

            def sec(self):
                world.log.append(("exec", cid_of_ctx(), "sec", 0))
                raise Pyro5.errors.SecurityError("not allowed")

            @pserver.callback
            def cbboom(self):
                world.log.append(("exec", cid_of_ctx(), "cbboom", 0))
                raise ValueError("callback failure")

        @api.expose
        @api.behavior(instance_mode="session")
        class Sess(Mixin):
            def __init__(self):
                world.inst_counter[0] += 1
                self.iid = world.inst_counter[0]
                ctor_track()

        @api.expose
        @api.behavior(instance_mode="percall")
        class Per(Mixin):
            def __init__(self):
                ctor_track()

        @api.expose
        class Plain(Mixin):
            pass

        def validator(conn, data):
            cid = data["cid"] if isinstance(data, dict) else None
            if cid is not None:
                world.conns[cid] = conn
                world.by_id[id(conn)] = cid
            if isinstance(data, dict) and not data.get("ok", True):
                raise ValueError("handshake refused by validator")
            return "welcome"

        self.srv = rd.Server(stype, commtimeout=(COMMTIMEOUT if timeout else None), pool_size=POOL, pool_min=1,
                             validator=validator)
        self.srv.start()
        def hook(conn):
            cid = world.by_id.get(id(conn))
            world.log.append(("hook", cid))
            nm = world.hook_fail.get(str(cid))
            if nm:      # a user hook that fails for this connection: must not keep the daemon from releasing it
                raise exc_class(nm)("clientDisconnect hook failed for connection %s" % cid)
        self.hook_fail = {}
        self.srv.daemon.clientDisconnect = hook
        self.srv.register(Sess, "S")
        self.srv.register(Plain(), "P")
        self.srv.register(Per, "C")
        from Pyro5 import config as _cfg
        self._saved_linger = _cfg.ITER_STREAM_LINGER
        GATE.install_oneway()
        if stype == "thread":
            GATE.install()
        self.witness = None
        if stype == "multiplex":      # the thread server needs no barrier: a released worker slot implies the job is over
            self._open_witness()
            self.barrier()            # CONNECTOK is sent before the selector registration: make sure it has happened

    # the witness is a harness-owned connection used as a barrier (multiplex) and to see that the daemon is alive
    def _open_witness(self):
        w = rd.RawClient(self.srv.port, timeout=3.0)
        w.send(rd.connect_msg("P", handshake={"cid": None, "ok": True}))
        m = w.recv_msg()
        if not isinstance(m, dict):
            raise RuntimeError("witness handshake failed: %r" % (m,))
        self.witness = w
        self.witness_seq = 0

    def barrier(self):
        """ping round trip on the witness; in the multiplex server this is served only after the current batch
        of events (including any cleanup) has been completed. With COMMTIMEOUT on the thread server the witness
        itself times out when idle, so it is re-opened on demand."""
        if not self.srv.loop_alive():
            return False
        for attempt in (0, 1):
            self.witness_seq = (self.witness_seq + 1) & 0xFFFF
            err = self.witness.send(rd.ping_msg(seq=self.witness_seq))
            m = self.witness.recv_msg(timeout=3.0) if err is None else "EOF"
            if isinstance(m, dict):
                return True
            with contextlib.suppress(Exception):
                self.witness.close()
            try:
                self._open_witness()
            except Exception:
                return False
        return False

    def dead_workers(self):
        """worker threads that are listed busy but have terminated (thread server)"""
        if self.stype != "thread":
            return 0
        return sum(1 for wk in list(self.srv.daemon.transportServer.pool.busy) if not wk.is_alive())

    def slots(self):
        a = self.srv.accounting()
        return a["busy"] if self.stype == "thread" else a["registered"]

    def stop(self):
        GATE.release()
        with contextlib.suppress(Exception):
            from Pyro5 import config as _cfg
            _cfg.ITER_STREAM_LINGER = self._saved_linger
        with contextlib.suppress(Exception):
            if self.witness is not None:
                self.witness.close()
        self.srv.stop()


def request_bytes(tgt, act, r, seq):
    return rd.invoke_msg(tgt, "op", (act, r), seq=seq)


def malformed_bytes(variant, seq):
    from Pyro5 import protocol, config
    good = bytearray(rd.invoke_msg("P", "op", ("nop", 0), seq=seq))
    if variant == "magic":
        good[0:4] = b"PYRX"
    elif variant == "version":
        good[4:6] = struct.pack("!H", protocol.PROTOCOL_VERSION + 1)
    elif variant == "msgtype":
        good[6] = protocol.MSG_RESULT
    elif variant == "toolarge":
        good[12:16] = struct.pack("!I", 0x7FFFFFF0)     # data_size far above MAX_MESSAGE_SIZE
    return bytes(good)


def badser_bytes(seq):
    from Pyro5 import protocol
    return rd.raw_msg(protocol.MSG_INVOKE, 0, seq, 99, b"whatever")


def run_case(world, case):
    """plays the case; returns obs = {"steps": [...], "final": {...}, "valid": bool}"""
    from Pyro5 import protocol
    w = world
    # fresh bookkeeping; the daemon keeps running
    del w.log[:]
    faulty = case.get("faulty") or {}
    for rsc in w.res:
        nm = faulty.get(str(rsc.rid))
        rsc.fail = exc_class(nm) if nm else None
    from Pyro5 import config as _cfg
    _cfg.ITER_STREAM_LINGER = float(case.get("linger", 30.0))
    w.srv.daemon.streaming_responses.clear()      # streams left over by earlier cases play no role
    w.ctor_res = None
    w.hook_fail = dict(case.get("hookfail") or {})
    w.conns.clear()
    w.by_id.clear()
    clients = {}                 # cid -> RawClient
    accepted, ended_client = set(), set()
    seqs = {}
    steps = []
    logpos = 0
    sockclosed_seen = set()
    last_act = {}
    valid = True
    stalled = [False]
    base = w.slots()             # slots held by the witness (and nothing else, if the previous case was torn down)
    # after a first stall the run is repeated / judged failing anyway: do not wait long again in the same run
    t_end = lambda: time.time() + (0.1 if stalled[0] else WAIT)
    t0 = time.time()

    def nextseq(c):
        seqs[c] = seqs.get(c, 0) + 1
        return seqs[c]

    def server_closed(c):
        conn = w.conns.get(c)
        if conn is not None:
            try:
                return conn.sock.fileno() == -1
            except Exception:
                return True
        cl = clients.get(c)
        return bool(cl is not None and getattr(cl, "_saw_eof", False))

    def hooked(c):
        return any(e[0] == "hook" and e[1] == c for e in w.log)

    stall_where = []

    def wait_for(pred, deadline, label="?"):
        while time.time() < deadline:
            if pred():
                return True
            time.sleep(0.0005)
        if pred():
            return True
        stalled[0] = True       # an expected reaction did not come within WAIT
        stall_where.append("%s@%d" % (label, len(steps)))
        return False

    def got_reply(m):
        # a reply that should have come and did not (client-side timeout) makes the run unusable, not a violation
        nonlocal valid
        if m == "TIMEOUT":
            valid = False
        return m

    def rw():
        # how long a client waits for an answer: once something expected did not come in this run (it is repeated /
        # judged failing anyway) or the daemon's loop has died, do not wait long again
        return WAIT if valid and not stalled[0] and w.srv.loop_alive() else 0.1

    def expect_eof(c, timeout=WAIT):
        cl = clients[c]
        if cl.closed:
            return False
        ok = cl.expect_eof(min(timeout, rw()))
        if ok:
            cl._saw_eof = True
        return ok

    def live():
        return [c for c in accepted if c not in ended_client and not server_closed(c)
                and not getattr(clients[c], "_saw_eof", False)]

    def settle(expect_ended, expected_slots):
        """wait (bounded) until the reactions the harness expects have happened, then barrier"""
        dl = t_end()
        for c in expect_ended:
            if c in accepted:
                wait_for(lambda: hooked(c), dl, 'hook')
            wait_for(lambda: server_closed(c), dl, 'sockclosed')
            conn = w.conns.get(c)
            if conn is not None:
                wait_for(lambda: len(conn.tracked_resources) == 0 and not conn.pyroInstances, dl, 'released')
        wait_for(lambda: w.slots() - base_now() == expected_slots(), dl, 'slots')
        if w.stype == "multiplex":
            w.barrier()

    def base_now():
        return base

    def snapshot(kind, extra=None):
        nonlocal logpos
        new = w.log[logpos:]
        logpos = len(w.log)
        conns = []
        for c in sorted(clients):
            conn = w.conns.get(c)
            if conn is not None:
                tracked = sorted(x.rid for x in list(conn.tracked_resources))
                inst = len(conn.pyroInstances)
            else:
                tracked, inst = [], 0
            conns.append({"c": c, "open": not server_closed(c), "tracked": tracked, "inst": inst})
        newly = sorted(c for c in clients if server_closed(c) and c not in sockclosed_seen)
        sockclosed_seen.update(newly)
        st = {"kind": kind, "t": round(time.time() - t0, 4), "hooks": sorted(e[1] for e in new if e[0] == "hook" and e[1] is not None),
              "closes": sorted(e[1] for e in new if e[0] == "close"),
              "execs": [list(e[1:]) for e in new if e[0] == "exec"],
              "sockclosed": newly, "slots": w.slots() - base_now(), "conns": conns, "dead_workers": w.dead_workers()}
        if extra:
            st.update(extra)
        steps.append(st)
        return st

    def expected_slots():
        return len(live())

    watch = {"live": [], "kind": None}

    def idle_guard():
        # thread server with COMMTIMEOUT: a connection idle for too long times out on its own -> timing-invalid run.
        # Judged on the connections that were live when the previous event STARTED (one that died of idleness during a
        # slow step is no longer live afterwards), except after a timeout event, which ends them on purpose.
        nonlocal valid
        if w.timeout and w.stype == "thread":
            now = time.time()
            prev = watch["live"] if watch["kind"] != "timeout" else []
            # a step (other than a deliberate timeout) that itself took that long may have let a connection it just
            # created or touched time out before the observation was taken
            if watch["kind"] not in (None, "timeout") and now - watch.get("t0", now) > 0.55 * COMMTIMEOUT:
                valid = False
            for c in set(live()) | set(x for x in prev if x not in ended_client):
                if now - last_act.get(c, now) > 0.55 * COMMTIMEOUT:
                    valid = False

    for ev in case["events"]:
        kind = ev[0]
        if not w.srv.loop_alive():
            stalled[0] = True         # the daemon's request loop is gone: nothing more can be played (reported by the oracle)
            stall_where.append("loop-dead@%d" % len(steps))
            break
        idle_guard()
        watch["live"], watch["kind"], watch["t0"] = live(), kind, time.time()
        if kind in ("req", "raise", "end", "owsend", "owrun") and ev[1] not in accepted:
            # the daemon never completed this connection's handshake: nothing can be asked of it (the model ignores
            # events on such a connection as well); an "end" just closes the client socket
            if kind == "end" and not clients[ev[1]].closed:
                clients[ev[1]].close()
            settle([], expected_slots)
            snapshot(kind)
            continue
        if kind == "connect":
            c, ok = ev[1], ev[2]
            gated = len(ev) > 3 and ev[3] == "gated" and w.stype == "thread"
            held = len(ev) > 3 and ev[3] == "held" and w.stype == "thread"
            if held:
                GATE.hold_arm()
            if gated:
                GATE.handed.clear()      # before the TCP connect: the accept loop dispatches on accept, not on the CONNECT message
            cl = rd.RawClient(w.srv.port, timeout=WAIT)
            clients[c] = cl
            cl.send(rd.connect_msg("P", handshake={"cid": c, "ok": bool(ok)}))
            if gated:
                # the accept loop has dispatched the connection to a worker (Pool.process returned) while the worker that
                # just went back to the pool is still parked; now let that worker continue
                if not GATE.handed.wait(WAIT):
                    stalled[0] = True
                    stall_where.append("gate-handed@%d" % len(steps))
                GATE.release()
            if gated:
                # wait for the handshake answer, but stop as soon as the worker the connection was given to is seen dead
                dl = time.time() + WAIT
                m = "TIMEOUT"
                while time.time() < dl:
                    m = cl.recv_msg(timeout=0.05)
                    if m != "TIMEOUT" or w.dead_workers() > 0:
                        break
            else:
                m = cl.recv_msg(timeout=rw())
            if m == "TIMEOUT" and gated and w.dead_workers() > 0:
                pass        # not a slow run: the worker the connection was given to has terminated; a genuine observation
            else:
                got_reply(m)
            acc = isinstance(m, dict) and m["type"] == protocol.MSG_CONNECTOK
            if acc:
                accepted.add(c)
                last_act[c] = time.time()
                settle([], expected_slots)
            else:
                expect_eof(c)
                settle([c], expected_slots)
            snapshot("connect", {"accepted": acc})
        elif kind == "req":
            c, tgt, act, r = ev[1:5]
            w.ctor_res = ev[5] if len(ev) > 5 else None
            cl = clients[c]
            cl.send(request_bytes(tgt, act, r, nextseq(c)))
            m = got_reply(cl.recv_msg(timeout=rw()))
            w.ctor_res = None
            last_act[c] = time.time()
            ok = isinstance(m, dict) and m["type"] == protocol.MSG_RESULT and (
                not (m["flags"] & protocol.FLAGS_EXCEPTION) or (act == "stream" and m["flags"] & protocol.FLAGS_ITEMSTREAMRESULT))
            reply = "result" if ok else ("error" if isinstance(m, dict) else str(m))
            settle([], expected_slots)
            snapshot("req", {"reply": reply})
        elif kind == "raise":
            c, tgt, what = ev[1:4]
            w.ctor_res = ev[4] if len(ev) > 4 else None
            cl = clients[c]
            meth = {"plain": "boom", "security": "sec", "callback": "cbboom"}[what]
            cl.send(rd.invoke_msg(tgt, meth, (), seq=nextseq(c)))
            m = got_reply(cl.recv_msg(timeout=rw()))
            w.ctor_res = None
            last_act[c] = time.time()
            reply = "error" if isinstance(m, dict) and (m["flags"] & protocol.FLAGS_EXCEPTION) else ("result" if isinstance(m, dict) else str(m))
            closed = expect_eof(c, 0.0 if what == "plain" else WAIT)
            settle([c] if closed else [], expected_slots)
            snapshot("raise", {"reply": reply})
        elif kind == "end":
            c, how = ev[1], ev[2]
            cl = clients[c]
            if how == "close":
                gated = len(ev) > 3 and ev[3] == "gated" and w.stype == "thread"
                held = len(ev) > 3 and ev[3] == "held" and w.stype == "thread"
                if gated:
                    GATE.arm()
                cl.close()
                ended_client.add(c)
                if held:
                    # the connection's own cleanup (hook, close) runs in its worker while the accept thread is still parked
                    # inside Pool.process; only then is the accept thread let go
                    dlh = t_end()
                    wait_for(lambda: hooked(c), dlh, 'hook')
                    wait_for(lambda: server_closed(c), dlh, 'sockclosed')
                    GATE.release()
                if gated and not GATE.reached.wait(WAIT):
                    stalled[0] = True
                    stall_where.append("gate-reached@%d" % len(steps))
            elif how == "reset":
                cl.reset()
                ended_client.add(c)
            elif how == "cut":
                k, tgt, act, r, mode = ev[3:8]
                w.ctor_res = ev[8] if len(ev) > 8 else None      # cleared after the step has settled
                data = request_bytes(tgt, act, r, nextseq(c))
                cl.send(data[:k])
                if k >= len(data) and mode == "close":
                    # let the complete request be served before the close, so that the run is deterministic
                    cl.recv_msg(timeout=rw())
                (cl.close if mode == "close" else cl.reset)()
                ended_client.add(c)
            elif how == "malformed":
                cl.send(malformed_bytes(ev[3], nextseq(c)))
                expect_eof(c)
            elif how == "badser":
                cl.send(badser_bytes(nextseq(c)))
                expect_eof(c)
            settle([c], expected_slots)
            w.ctor_res = None
            snapshot("end")
        elif kind == "owsend":
            _, c, act, r = ev
            GATE.ow_arm()
            clients[c].send(rd.invoke_msg("P", "oop", (act, r), seq=nextseq(c), flags=protocol.FLAGS_ONEWAY))
            if not GATE.ow_reached.wait(rw()):
                stalled[0] = True
                stall_where.append("oneway-thread@%d" % len(steps))
            last_act[c] = time.time()
            snapshot("owsend")
        elif kind == "owrun":
            _, c, act, r = ev
            mark = len(w.log)
            GATE.ow_armed = False
            GATE.ow_go.set()
            ran = wait_for(lambda: any(e[0] == "exec" and e[2] == act and e[3] == r for e in w.log[mark:]), t_end(), 'oneway-exec')
            settle([], expected_slots)
            snapshot("req", {"reply": "result" if ran else "none"})
        elif kind == "timeout":
            _, c, k = ev
            cl = clients[c]
            if k > 0:
                data = request_bytes("P", "nop", 0, nextseq(c))
                cl.send(data[:min(k, len(data) - 1)])
            victims = live() if w.stype == "thread" else ([c] if k > 0 else [])
            dl = time.time() + COMMTIMEOUT + WAIT
            time.sleep(COMMTIMEOUT)
            for v in victims:
                wait_for(lambda: server_closed(v), dl, 'timeout-close')
            time.sleep(0.03)
            settle(victims, expected_slots)
            snapshot("timeout")
        else:
            raise ValueError("unknown event %r" % (ev,))
    GATE.release()
    idle_guard()
    # probe: every connection the daemon still holds open must still serve, with its own session instance
    probes = {}
    w.ctor_res = None
    for c in sorted(live()):
        cl = clients[c]
        cl.send(rd.invoke_msg("S", "op", ("nop", 0), seq=nextseq(c)))
        m1 = got_reply(cl.recv_msg(timeout=rw()))
        cl.send(rd.invoke_msg("S", "op", ("nop", 0), seq=nextseq(c)))
        m2 = got_reply(cl.recv_msg(timeout=rw()))
        probes[c] = [m.get("value") if isinstance(m, dict) else str(m) for m in (m1, m2)]
    still = sorted(live())
    pre_teardown = snapshot("probe")
    # teardown: orderly close of everything left; the accounting must return to the base
    for c, cl in clients.items():
        if not cl.closed:
            cl.close()
            ended_client.add(c)
    settle(still, lambda: 0)
    if w.stype == "thread":
        time.sleep(0.002)
    td = snapshot("teardown")
    return {"steps": steps[:-2], "probe": pre_teardown, "probes": {str(k): v for k, v in probes.items()}, "still_open": still,
            "teardown": td, "valid": valid, "stalled": stalled[0], "stall_where": stall_where, "accepted": sorted(accepted),
            "loop_alive": w.srv.loop_alive()}


def run_chunk(args):
    """worker entry point (separate process): one configuration, many cases"""
    tree, stype, timeout, cases, stop_after = args
    if tree not in sys.path:
        sys.path.insert(0, tree)
    out = []
    world = World(stype, timeout)
    bad_streak = 0
    try:
        for case in cases:
            obs = None
            for attempt in range(3):
                try:
                    obs = run_case(world, case)
                except Exception as x:       # harness-level failure: rebuild the world and retry
                    GATE.release()
                    obs = {"error": "%s: %s" % (type(x).__name__, x), "valid": False}
                    with contextlib.suppress(Exception):
                        world.stop()
                    world = World(stype, timeout)
                    continue
                dirty = not obs.get("loop_alive", True) or obs["teardown"]["slots"] != 0
                if obs["valid"] and not (obs["stalled"] and attempt == 0):
                    break
                # timing guard tripped, a reply timed out, or an expected reaction did not come: once more on a fresh
                # daemon (a persistent stall is real, a load spike is not)
                with contextlib.suppress(Exception):
                    world.stop()
                world = World(stype, timeout)
            # a case that left the daemon unclean would poison the following ones: start a fresh daemon
            dirty = obs.get("error") or not obs.get("loop_alive", True) or obs["teardown"]["slots"] != 0
            out.append(obs)
            if dirty or obs.get("stalled") or not obs.get("valid", True):
                bad_streak += 1
                if stop_after and bad_streak >= stop_after:
                    break
            if dirty:
                with contextlib.suppress(Exception):
                    world.stop()
                world = World(stype, timeout)
    finally:
        with contextlib.suppress(Exception):
            world.stop()
    return out
