"""In-process loopback transport (DESIGN.md section 4.1).

A real `Pyro5.client.Proxy` talks to a real `Pyro5.server.Daemon` without the daemon's request
loop running: `Pyro5.socketutil.create_socket` is patched to hand the client a FakeSock whose
peer is driven synchronously.  Whenever the client has written a complete wire message the
server side runs the real `daemon._handshake(conn)` (first message) or `daemon.handleRequest(conn)`
(later messages) on its own `SocketConnection(FakeSock)`, with exactly the containment logic of
`svr_multiplex.SocketServer_Multiplex.handleRequest/_handleConnection` (exception -> disconnect
hook -> close).  Between the two sides a *fault script* decides, per client message, what the
network does.  Single-threaded and deterministic (except oneway calls when ONEWAY_THREADED is on).

    with Loopback(daemon) as net:
        net.script([{"kind": "deliver"}, {"kind": "drop_reply"}])     # one entry per client message
        p = Proxy(daemon.uriFor(obj)); p.method()

Fault kinds (one dict per client message, handshake CONNECT messages included unless
`net.script(..., skip_handshake=True)`, which applies entries to non-CONNECT messages only):
  deliver                          normal
  drop_request                     request lost; client read times out
  drop_reply                       request processed, reply lost; client read times out
  delay_reply                      request processed, reply arrives late: it is put into the client's
                                   receive buffer only when the client next sends on this connection
                                   (a correct client has dropped the connection by then)
  cut_reply (at=k)                 first k bytes of the reply arrive, then connection reset
  reset_before                     connection reset, request never processed
  reset_after                      request processed, then connection reset, no reply bytes
  stale_first (reply=bytes|None)   an earlier reply (default: the previous reply on this connection, else of
                                   any connection) is delivered in front of the real reply
  alter_seq (delta=d)              the reply's sequence field is changed by d (mod 2**16)
  replace_reply (data=bytes)       the reply is replaced by the given bytes
"""
import socket, struct, errno, contextlib

HEADER = 40


def msg_total_len(buf):
    """length of the wire message at the start of buf, or None if the header is incomplete / not Pyro"""
    if len(buf) < HEADER:
        return None
    data_len, = struct.unpack("!I", bytes(buf[12:16]))
    ann_len, = struct.unpack("!I", bytes(buf[16:20]))
    return HEADER + data_len + ann_len


def msg_type(buf):
    return buf[6]          # header '!4sHBBHHII16sHH': tag 0:4, version 4:6, type 6, serializer 7, flags 8:10, seq 10:12


def set_seq(msgbytes, seq):
    b = bytearray(msgbytes)
    b[10:12] = struct.pack("!H", seq & 0xffff)
    return bytes(b)


def get_seq(msgbytes):
    return struct.unpack("!H", bytes(msgbytes[10:12]))[0]


class Pipe:
    def __init__(self):
        self.buf = bytearray()
        self.eof = False      # orderly close by the writer
        self.reset = False    # connection reset: reader gets ECONNRESET once the buffer is drained


class FakeSock:
    family = socket.AF_INET

    def __init__(self, net, cid, side, rx, tx):
        self.net, self.cid, self.side, self.rx, self.tx = net, cid, side, rx, tx
        self.closed = False
        self._timeout = None
        self.sent_total = 0

    # --- reading
    def recv(self, n, flags=0):
        if self.closed:
            raise OSError(errno.EBADF, "bad file descriptor")
        if not self.rx.buf and self.side == "client":
            self.net.pump(self.cid)
        if self.rx.buf:
            k = min(n, len(self.rx.buf))
            frag = self.net.fragment(self, k)
            data = bytes(self.rx.buf[:frag])
            del self.rx.buf[:frag]
            return data
        if self.rx.reset:
            raise ConnectionResetError(errno.ECONNRESET, "connection reset by peer")
        if self.rx.eof:
            return b""
        raise socket.timeout("timed out")

    # --- writing
    def sendall(self, data):
        self.send(data)

    def send(self, data):
        if self.closed:
            raise OSError(errno.EBADF, "bad file descriptor")
        if self.tx.reset or self.tx.eof:
            raise BrokenPipeError(errno.EPIPE, "broken pipe")
        self.tx.buf += bytes(data)
        self.sent_total += len(data)
        if self.side == "client":
            self.net.on_client_sent(self.cid)
        return len(data)

    # --- misc socket API used by Pyro5
    def settimeout(self, t):
        self._timeout = t

    def gettimeout(self):
        return self._timeout

    def setblocking(self, b):
        pass

    def getpeername(self):
        return ("127.0.0.1", 40000 + self.cid if self.side == "server" else 50000)

    def getsockname(self):
        return ("127.0.0.1", 50000 if self.side == "server" else 40000 + self.cid)

    def setsockopt(self, *a):
        pass

    def getsockopt(self, *a):
        return 0

    def fileno(self):
        return 1000 + 2 * self.cid + (1 if self.side == "server" else 0)

    def shutdown(self, how):
        if self.closed:
            raise OSError(errno.ENOTCONN, "not connected")
        self._close_notify()

    def close(self):
        if not self.closed:
            self._close_notify()
            self.closed = True

    def _close_notify(self):
        if not self.tx.eof:
            self.tx.eof = True
            if self.side == "client":
                self.net.on_client_closed(self.cid)


class Conn:
    def __init__(self, cid):
        self.cid = cid
        self.c2s, self.s2c = Pipe(), Pipe()
        self.csock = self.ssock = self.sconn = None
        self.handshaken = False
        self.server_closed = False
        self.disconnect_hooked = False
        self.delayed = []           # reply bytes that arrive late
        self.replies = []           # every reply the server produced on this connection (bytes)
        self.requests = []          # every complete client message (bytes)
        self.pending_fault = None
        self.log = []               # (event, detail)


class Loopback:
    def __init__(self, daemon, fragment=None):
        self.daemon = daemon
        self.conns = {}
        self._next = 0
        self._script = []
        self._skip_handshake = False
        self.all_replies = []
        self.fragmenter = fragment       # callable(sock, available) -> how many bytes this recv returns
        self.events = []                 # global log: (cid, what, detail)
        self.on_request = None           # optional callable(conn, msgbytes) before the server sees a message

    # ---- context manager: patch create_socket
    def __enter__(self):
        import Pyro5.socketutil as su
        self._su = su
        self._orig = su.create_socket
        su.create_socket = self._create_socket
        return self

    def __exit__(self, *a):
        self._su.create_socket = self._orig
        for c in list(self.conns.values()):
            if not c.server_closed:
                self._server_close(c, hook=c.handshaken)

    def script(self, faults, skip_handshake=False):
        self._script = list(faults)
        self._skip_handshake = skip_handshake

    def fragment(self, sock, k):
        if self.fragmenter is None:
            return k
        return max(1, min(k, self.fragmenter(sock, k)))

    def _create_socket(self, bind=None, connect=None, **kw):
        if connect is None:
            return self._orig(bind=bind, connect=connect, **kw)
        return self.connect(timeout=kw.get("timeout"))

    def connect(self, timeout=None):
        """new client connection; returns the client-side FakeSock"""
        from Pyro5.socketutil import SocketConnection
        cid = self._next
        self._next += 1
        c = Conn(cid)
        c.csock = FakeSock(self, cid, "client", c.s2c, c.c2s)
        c.ssock = FakeSock(self, cid, "server", c.c2s, c.s2c)
        c.csock.settimeout(timeout)
        c.sconn = SocketConnection(c.ssock)
        self.conns[cid] = c
        self.events.append((cid, "connect", None))
        return c.csock

    # ---- network behaviour
    def _next_fault(self, c, msg):
        if self._skip_handshake and msg_type(msg) == 1:     # MSG_CONNECT
            return {"kind": "deliver"}
        if self._script:
            return self._script.pop(0)
        return {"kind": "deliver"}

    def on_client_sent(self, cid):
        c = self.conns[cid]
        # late replies show up now (the client should not be using this connection any more)
        for late in c.delayed:
            c.s2c.buf += late
        c.delayed = []
        self.pump(cid)

    def pump(self, cid):
        """let the server side process every complete message buffered on this connection"""
        c = self.conns[cid]
        while not c.server_closed:
            n = self._ready(c.c2s.buf)
            if n is None:
                return
            msg = bytes(c.c2s.buf[:n])
            c.requests.append(msg)
            fault = self._next_fault(c, msg) if len(msg) >= 6 else {"kind": "deliver"}
            kind = fault.get("kind", "deliver")
            self.events.append((cid, "request", kind))
            if self.on_request:
                self.on_request(c, msg)
            if kind in ("drop_request", "reset_before"):
                del c.c2s.buf[:len(msg)]
                if kind == "reset_before":
                    self._reset(c)
                return
            before = len(c.s2c.buf)
            self._serve_one(c)
            reply = bytes(c.s2c.buf[before:])
            del c.s2c.buf[before:]
            if reply:
                c.replies.append(reply)
                self.all_replies.append(reply)
            self._apply_reply_fault(c, fault, reply)

    @staticmethod
    def _ready(buf):
        """number of buffered bytes that form the next unit the server will look at, or None (wait for more)"""
        from Pyro5 import config
        if len(buf) >= 6 and bytes(buf[:4]) != b"PYRO":
            return len(buf)                 # garbage: rejected after the 6-byte prefix
        n = msg_total_len(buf)
        if n is None:
            return None
        if len(buf) >= n:
            return n
        if n - HEADER > config.MAX_MESSAGE_SIZE:
            return len(buf)                 # rejected after the header
        return None

    def _apply_reply_fault(self, c, fault, reply):
        kind = fault.get("kind", "deliver")
        if kind == "deliver":
            c.s2c.buf += reply
        elif kind == "drop_reply":
            pass
        elif kind == "delay_reply":
            c.delayed.append(reply)
        elif kind == "cut_reply":
            k = fault.get("at", max(0, len(reply) // 2))
            c.s2c.buf += reply[:k]
            self._reset(c)
        elif kind == "reset_after":
            self._reset(c)
        elif kind == "stale_first":
            stale = fault.get("reply")
            if stale is None:
                prev = c.replies[:-1] if reply else c.replies
                pool = prev or self.all_replies[:-1]
                stale = pool[-1] if pool else b""
            c.s2c.buf += bytes(stale) + reply
        elif kind == "alter_seq":
            if reply:
                reply = set_seq(reply, get_seq(reply) + fault.get("delta", 1))
            c.s2c.buf += reply
        elif kind == "replace_reply":
            c.s2c.buf += bytes(fault.get("data", b""))
        else:
            raise ValueError("unknown fault kind %r" % kind)

    def _reset(self, c):
        c.s2c.reset = True
        c.c2s.reset = True
        if not c.server_closed:
            self._server_close(c, hook=c.handshaken)

    def _serve_one(self, c):
        """exactly what SocketServer_Multiplex does with one readable event"""
        import Pyro5.errors as errors
        d = self.daemon
        if not c.handshaken:
            try:
                ok = d._handshake(c.sconn)
            except Exception as x:       # _handleConnection: any exception -> close, no hook
                ok = False
                c.log.append(("handshake-exception", repr(x)))
            if ok:
                c.handshaken = True
            else:
                self._server_close(c, hook=False)
            return
        try:
            d.handleRequest(c.sconn)
            return
        except (socket.error, errors.ConnectionClosedError, errors.SecurityError) as x:
            c.log.append(("request-closed", type(x).__name__))
        except Exception as x:
            c.log.append(("request-exception", type(x).__name__))
        self._server_close(c, hook=True)

    def _server_close(self, c, hook):
        if c.server_closed:
            return
        c.server_closed = True
        if hook and not c.disconnect_hooked:
            c.disconnect_hooked = True
            with contextlib.suppress(Exception):
                self.daemon._clientDisconnect(c.sconn)
        c.sconn.close()
        self.events.append((c.cid, "server-closed", hook))

    def on_client_closed(self, cid):
        c = self.conns[cid]
        self.events.append((cid, "client-closed", None))
        if not c.server_closed:
            # the server's next read sees end-of-stream: ConnectionClosedError -> disconnect handling
            self._server_close(c, hook=c.handshaken)

    # ---- conveniences
    def housekeeping(self):
        self.daemon._housekeeping()

    def live_server_conns(self):
        return [c for c in self.conns.values() if not c.server_closed]


class VirtualClock:
    """replaces the `time` module as seen by Pyro5.server (time.time / time.sleep) by a virtual clock"""
    def __init__(self, start=1000.0):
        self.now = start

    def time(self):
        return self.now

    def sleep(self, dt):
        self.now += dt

    def advance(self, dt):
        self.now += dt

    def __enter__(self):
        import Pyro5.server as srv, time as real
        self._srv, self._real = srv, srv.time
        shim = type("vtime", (), {})()
        for k in dir(real):
            if not k.startswith("__"):
                setattr(shim, k, getattr(real, k))
        shim.time = self.time
        shim.sleep = self.sleep
        srv.time = shim
        return self

    def __exit__(self, *a):
        self._srv.time = self._real


def make_daemon(**kw):
    """a real Daemon bound to a loopback port; its request loop is never started"""
    import Pyro5.server
    return Pyro5.server.Daemon(host="127.0.0.1", port=0, **kw)
