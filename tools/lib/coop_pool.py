"""Cooperative scheduler for the thread pool of Pyro5/svr_threads.py (C18; DESIGN 4.3).

Extends the idea of tools/lib/coop.py to threads that are created *by the code under test*
(Worker objects started from Pool.__init__ / Pool.process) and to schedules whose entries carry
a choice (which element an arbitrary `set.pop()` returns).  Real code, real threads, exactly one
runs at a time, and only between yield points placed before every primitive on the shared
objects: Pool.idle / Pool.busy (ordered set twin), Pool.closed, Pool.count_lock, Worker.job,
Worker.job_available, the start of a Worker, the refusal reply and the end of a job.

Nothing in the tree under test is replaced by a subclass (Worker.__init__ calls
super(Worker, self) through the module global); Worker.__init__/start/run/join and the Pool
attributes are patched in place and restored afterwards."""
import ast, sys, threading
from tools.lib import coop

TIMEOUT = 20.0

# primitive kind -> code (must equal mcode/wcode of coq/Model/Pool.v)
CODES = {"acquire": 1, "release": 2, "closed_read": 3, "closed_write": 4, "idle_bool": 5, "idle_pop": 6,
         "busy_len": 7, "idle_len": 8, "spawn": 9, "busy_add": 10, "slot_write": 11, "ev_set": 12, "wait": 13,
         "ev_clear": 14, "slot_read": 15, "jobend": 16, "busy_contains": 17, "busy_remove": 18, "idle_add": 19,
         "busy_iter": 20, "idle_iter": 21, "deny": 22, "swap_idle": 23, "swap_busy": 24}


class Kill(BaseException):
    pass


class Sem:
    """binary hand-off signal on a raw lock (much cheaper than threading.Semaphore, which is built on a Condition);
    every use here is a strict alternation of one release and one acquire"""
    def __init__(self):
        self.l = threading.Lock()
        self.l.acquire()

    def release(self):
        try:
            self.l.release()
        except RuntimeError:
            pass                     # already signalled (only happens while threads unwind at shutdown)

    def acquire(self, timeout=None):
        if timeout is None:
            return self.l.acquire()
        return self.l.acquire(timeout=timeout)


class T:
    def __init__(self, idx):
        self.idx = idx
        self.go = Sem()
        self.first = Sem()
        self.started = False
        self.pending = None
        self.done = False
        self.error = None
        self.killed = False
        self.obj = None
        self.thread = None


class Ctl:
    def __init__(self):
        self.threads = []
        self._local = threading.local()
        self._back = Sem()
        self.clock = 0
        self.choice = 0
        self.kill = False
        self.after_step = None       # callback(ctl) run by the controller after every effective step

    # -- identity
    def current(self):
        return getattr(self._local, "t", None)

    def quiet(self):
        ctl = self

        class Q:
            def __enter__(self_):
                ctl._local.quiet = getattr(ctl._local, "quiet", 0) + 1

            def __exit__(self_, *a):
                ctl._local.quiet -= 1
                return False
        return Q()

    # -- thread registration
    def new_thread(self, obj=None):
        t = T(len(self.threads))
        t.obj = obj
        self.threads.append(t)
        return t

    def enter(self, t):
        """first statement executed inside the new OS thread"""
        self._local.t = t

    def leave(self, t, error=None):
        if error is not None and not isinstance(error, Kill):
            t.error = error
        t.done = True
        t.pending = None
        if t.started:
            self._back.release()
        else:
            t.started = True
            t.first.release()

    def wait_parked(self, t):
        if not t.first.acquire(timeout=TIMEOUT):
            raise coop.HarnessStuck("a new thread did not reach its first yield point")

    def spawn_main(self, fn):
        t = self.new_thread("main")

        def body():
            self.enter(t)
            err = None
            try:
                self.yield_point("begin")      # parks; the pseudo-step is consumed by start_main()
                fn()
            except BaseException as x:  # noqa
                err = x
            finally:
                self.leave(t, err)
        t.thread = threading.Thread(target=body, daemon=True)
        t.thread.start()
        self.wait_parked(t)
        return t

    def start_main(self, t):
        """run main's local prologue up to its first real primitive"""
        t.go.release()
        self._wait_back()

    # -- yield points
    def yield_point(self, kind, obj=None):
        t = self.current()
        if t is None or getattr(self._local, "quiet", 0):
            return
        if self.kill:
            if t.killed:
                return
            t.killed = True
            raise Kill()
        t.pending = (kind, obj)
        if not t.started:
            t.started = True
            t.first.release()
        else:
            self._back.release()
        t.go.acquire()
        t.pending = None
        if self.kill:
            t.killed = True
            raise Kill()

    def _wait_back(self):
        if not self._back.acquire(timeout=TIMEOUT):
            raise coop.HarnessStuck("a controlled thread neither parked nor finished within %ss" % TIMEOUT)

    def enabled(self, i):
        if i >= len(self.threads):
            return False
        t = self.threads[i]
        if t.done or t.pending is None:
            return False
        kind, obj = t.pending
        if kind == "acquire" and obj.owner is not None:
            return False          # plain Lock: also blocks its own owner
        if kind == "wait" and not obj.is_set():
            return False
        if kind == "blocked":
            return False          # a blocking read on a socket without timeout whose peer never sends
        return True

    def step(self, i, choice=0):
        if not self.enabled(i):
            return 0
        t = self.threads[i]
        kind = t.pending[0]
        self.choice = choice
        self.clock += 1
        t.go.release()
        self._wait_back()
        if self.after_step is not None:
            self.after_step(self, i, kind)
        return CODES.get(kind, 99)

    def drain(self, bound=5000):
        """round-robin until no thread is enabled; returns number of steps"""
        n = 0
        while n < bound:
            progressed = False
            for i in range(len(self.threads)):
                if self.enabled(i):
                    self.step(i, 0)
                    n += 1
                    progressed = True
            if not progressed:
                break
        return n

    def shutdown(self):
        self.kill = True
        for t in self.threads:
            if not t.done:
                t.go.release()
        for t in self.threads:
            if t.thread is not None:
                t.thread.join(timeout=5.0)


class FakeEvent:
    def __init__(self, ctl):
        self.ctl, self.flag = ctl, False

    def is_set(self):
        return self.flag

    def set(self):
        self.ctl.yield_point("ev_set")
        self.flag = True

    def clear(self):
        self.ctl.yield_point("ev_clear")
        self.flag = False

    def wait(self, timeout=None):
        self.ctl.yield_point("wait", self)
        return True


class ISet(set):
    """ordered twin of a set: every primitive is a yield point; pop() takes the element the schedule chooses"""
    def __init__(self, ctl, name, loglines, filename, items=()):
        set.__init__(self)
        self._ctl, self._name, self._loglines, self._file = ctl, name, loglines, filename
        self._order = []
        self._detached = False
        self._owner = None
        self._iter_site = None
        for x in items:
            set.add(self, x)
            self._order.append(x)

    def _y(self, what):
        if not self._detached:
            self._ctl.yield_point(self._name + "_" + what)

    def __bool__(self):
        self._y("bool")
        return set.__len__(self) > 0

    def _cur(self):
        """the primitive is `self.<set>.<op>(...)`: attribute load and operation are ONE step, so an operation whose
        thread was parked across a swap of the attribute acts on the set that is current when it runs"""
        if self._detached and self._owner is not None:
            return self._owner.__dict__["_" + self._name]
        return self

    def __len__(self):
        f = sys._getframe(1)
        site = (id(f), f.f_lineno)
        if self._iter_site == site:          # the length hint taken by list(<set>) right after __iter__
            self._iter_site = None
            return set.__len__(self)
        g, depth = f, 0
        while g is not None and depth < 6:   # also when the len() is taken by a helper called from a logging statement
            if g.f_code.co_filename == self._file and g.f_lineno in self._loglines:
                return set.__len__(self)     # argument of a logging call: not a step
            g, depth = g.f_back, depth + 1
        self._y("len")
        return set.__len__(self._cur())

    def __contains__(self, x):
        self._y("contains")
        return set.__contains__(self._cur(), x)

    def __iter__(self):
        f = sys._getframe(1)
        self._y("iter")
        self._iter_site = (id(f), f.f_lineno)
        return iter(list(self._cur()._order))

    def add(self, x):
        self._y("add")
        t = self._cur()
        if not set.__contains__(t, x):
            set.add(t, x)
            t._order.append(x)

    def remove(self, x):
        self._y("remove")
        t = self._cur()
        set.remove(t, x)
        t._order.remove(x)

    def discard(self, x):
        # `s.discard(x)` is `if x in s: s.remove(x)`: kept at the model's granularity (two primitives); the atomic
        # discard of CPython is one of the interleavings this allows
        self._y("contains")
        if not set.__contains__(self._cur(), x):
            return
        self._y("remove")
        t = self._cur()
        if set.__contains__(t, x):
            set.remove(t, x)
            t._order.remove(x)

    def pop(self):
        self._y("pop")
        if not self._order:
            raise KeyError("pop from an empty set")
        x = self._order[self._ctl.choice % len(self._order)]
        set.remove(self, x)
        self._order.remove(x)
        return x

    def members(self):
        return list(self._order)


_LOG_LINES = {}


def log_lines(path):
    """line numbers covered by statements of the form log.<level>(...) (cached per file version)"""
    key = path
    if key not in _LOG_LINES:
        _LOG_LINES[key] = _log_lines(path)
    return _LOG_LINES[key]


def _log_lines(path):
    with open(path, encoding="utf-8") as f:
        mod = ast.parse(f.read())
    lines = set()
    for n in ast.walk(mod):
        if isinstance(n, ast.Expr) and isinstance(n.value, ast.Call) and isinstance(n.value.func, ast.Attribute) \
                and isinstance(n.value.func.value, ast.Name) and n.value.func.value.id == "log":
            lines.update(range(n.lineno, (n.end_lineno or n.lineno) + 1))
    return lines


class Instrument:
    """patches Pyro5.svr_threads in place for one controller; use as a context manager"""
    def __init__(self, ctl):
        from Pyro5 import svr_threads
        self.m = svr_threads
        self.ctl = ctl
        self.saved = {}
        fn = svr_threads.__file__
        self.file = fn
        self.loglines = log_lines(fn)

    def __enter__(self):
        m, ctl, inst = self.m, self.ctl, self
        W, P = m.Worker, m.Pool
        for k in ("__init__", "start", "run", "join"):
            self.saved[("W", k)] = W.__dict__.get(k)
        orig_init, orig_run = W.__init__, W.run

        def w_init(self_, pool):
            with ctl.quiet():
                orig_init(self_, pool)
                self_.job_available = FakeEvent(ctl)

        def w_start(self_):
            ctl.yield_point("spawn")
            t = ctl.new_thread(self_)
            self_._coop_t = t
            t.thread = self_
            threading.Thread.start(self_)
            ctl.wait_parked(t)

        def w_run(self_):
            t = self_._coop_t
            ctl.enter(t)
            err = None
            try:
                orig_run(self_)
            except BaseException as x:  # noqa
                err = x
            finally:
                ctl.leave(t, err)

        def w_join(self_, timeout=None):
            return None

        W.__init__, W.start, W.run, W.join = w_init, w_start, w_run, w_join

        def job_get(self_):
            ctl.yield_point("slot_read")
            return self_.__dict__.get("_job")

        def job_set(self_, v):
            ctl.yield_point("slot_write")
            self_.__dict__["_job"] = v
        W.job = property(job_get, job_set)

        def closed_get(self_):
            ctl.yield_point("closed_read")
            return self_.__dict__.get("_closed", False)

        def closed_set(self_, v):
            ctl.yield_point("closed_write")
            self_.__dict__["_closed"] = v
        P.closed = property(closed_get, closed_set)

        def mk_setprop(name):
            def g(self_):
                return self_.__dict__["_" + name]

            def s(self_, v):
                if not isinstance(v, ISet):
                    v = ISet(ctl, name, inst.loglines, inst.file, v)
                v._owner = self_
                old = self_.__dict__.get("_" + name)
                if old is not None:
                    ctl.yield_point("swap_" + name)
                    old._detached = True
                self_.__dict__["_" + name] = v
            return property(g, s)
        P.idle = mk_setprop("idle")
        P.busy = mk_setprop("busy")

        class FakeTime:
            @staticmethod
            def sleep(x):
                return None

            def __getattr__(self_, k):
                import time
                return getattr(time, k)
        self.saved[("m", "time")] = m.time
        m.time = FakeTime()
        return self

    def __exit__(self, *a):
        m = self.m
        W, P = m.Worker, m.Pool
        for k in ("__init__", "start", "run", "join"):
            v = self.saved[("W", k)]
            if v is None:
                try:
                    delattr(W, k)
                except AttributeError:
                    pass
            else:
                setattr(W, k, v)
        for k in ("job",):
            delattr(W, k)
        for k in ("closed", "idle", "busy"):
            delattr(P, k)
        m.time = self.saved[("m", "time")]
        return False
