"""Shared machinery of ./check (DESIGN.md section 2): proof re-check, cases-file
runner (models evaluated inside Coq by vm_compute), evidence, replays, findings."""
import glob, hashlib, json, os, random, re, shutil, subprocess, sys, time

VERIF = os.path.dirname(os.path.dirname(os.path.dirname(os.path.abspath(__file__))))
COQ = os.environ.get("VERIF_COQ_DIR") or os.path.join(VERIF, "coq")
OUT = os.environ.get("VERIF_OUT_DIR") or VERIF     # evidence/ and replays/ are written below this
CASES_DIR = os.path.join(COQ, "Cases")
SCRATCH = os.path.join(COQ, ".scratch")
NPROC = int(os.environ.get("VERIF_NPROC") or 0) or min(16, os.cpu_count() or 4)
FORBIDDEN = re.compile(r"\b(Admitted|admit|Axiom|Axioms|Parameter|Parameters|Conjecture|Conjectures|Hypothesis|Hypotheses|Variable|Variables)\b|Unset\s+Guard|bypass_check|type-in-type|impredicative-set|Admit\s+Obligations|Unset\s+Positivity|Unset\s+Universe")


class Ctx:
    def __init__(self, prop, tier, seed, tree):
        self.prop, self.tier, self.seed, self.tree = prop, tier, seed, tree
        self.t0 = time.time()
        self.rng = random.Random("%s/%d" % (prop, seed))
        self.scale = 1          # multiplied by 10 when a tie is broken and we search
        self.notes = []

    @property
    def quick(self):
        return self.tier == "quick"

    def n(self, quick, thorough):
        return (quick if self.quick else thorough) * self.scale


# ---------------------------------------------------------------- Coq side
def sh(cmd, timeout, cwd=None, env=None):
    try:
        p = subprocess.run(cmd, shell=isinstance(cmd, str), cwd=cwd, env=env, stdout=subprocess.PIPE,
                           stderr=subprocess.STDOUT, timeout=timeout, text=True, errors="replace")
        return p.returncode, p.stdout
    except subprocess.TimeoutExpired as x:
        out = x.stdout or ""
        if isinstance(out, bytes):
            out = out.decode(errors="replace")
        return 124, out + "\n[timeout after %ss]" % timeout


class build_lock:
    """serialises make / Gen regeneration of concurrent ./check runs that share one coq directory"""
    def __enter__(self):
        import fcntl
        self.f = open(os.path.join(COQ, ".buildlock"), "w")
        fcntl.flock(self.f, fcntl.LOCK_EX)

    def __exit__(self, *a):
        import fcntl
        fcntl.flock(self.f, fcntl.LOCK_UN)
        self.f.close()


def ensure_makefile():
    with build_lock():
        _ensure_makefile()


def _ensure_makefile():
    from tools import mkproject
    mkproject.write()
    mk = os.path.join(COQ, "Makefile")
    proj = os.path.join(COQ, "_CoqProject")
    if not os.path.exists(mk) or os.path.getmtime(mk) < os.path.getmtime(proj):
        rc, out = sh("coq_makefile -f _CoqProject -o Makefile", 120, cwd=COQ)
        if rc != 0:
            raise RuntimeError("coq_makefile failed:\n" + out)


def theorem_names(vfile):
    with open(vfile, encoding="utf-8") as f:
        src = f.read()
    names = re.findall(r"^\s*Theorem\s+([A-Za-z0-9_']+)", src, flags=re.M)
    printed = re.findall(r"^\s*Print\s+Assumptions\s+([A-Za-z0-9_']+)\s*\.", src, flags=re.M)
    return src, names, printed


def dep_closure(roots):
    """.v files (relative to COQ) that the given files transitively import from this development"""
    seen, todo = [], list(roots)
    while todo:
        rel = todo.pop()
        if rel in seen or not os.path.exists(os.path.join(COQ, rel)):
            continue
        seen.append(rel)
        with open(os.path.join(COQ, rel), encoding="utf-8") as f:
            text = re.sub(r"\(\*.*?\*\)", " ", f.read(), flags=re.S)
        for m in re.finditer(r"From\s+V\s+Require\s+(?:Import\s+|Export\s+)?(.*?)\.(?=\s|$)", text, flags=re.S):
            for mod in m.group(1).split():
                todo.append(mod.replace(".", "/") + ".v")
    return seen


def scan_forbidden(prop=None):
    """forbidden constructs in the files the property's theorems and harness depend on (the whole
    development when prop is None)"""
    hits = []
    if prop is None:
        paths = [os.path.relpath(p, COQ) for p in glob.glob(os.path.join(COQ, "**", "*.v"), recursive=True)]
    else:
        paths = dep_closure(["Props/%s.v" % prop, "Harness/H%s.v" % prop[1:]])
    for rel in paths:
        path = os.path.join(COQ, rel)
        if rel.startswith("Cases") or rel.startswith(".scratch"):
            continue
        with open(path, encoding="utf-8") as f:
            text = f.read()
        text = re.sub(r"\(\*.*?\*\)", " ", text, flags=re.S)
        in_section = 0
        for ln, line in enumerate(text.split("\n"), 1):
            if re.match(r"\s*Section\b", line):
                in_section += 1
            if re.match(r"\s*End\b", line) and in_section:
                in_section -= 1
            m = FORBIDDEN.search(line)
            if m:
                word = m.group(0)
                if word in ("Variable", "Variables", "Hypothesis", "Hypotheses") and in_section:
                    continue   # section variables are ordinary lambda-abstractions
                hits.append("%s:%d: %s" % (rel, ln, line.strip()[:100]))
    return hits


def build_props(prop, timeout=1500):
    """(re)build everything Props/<prop>.vo depends on from the current Gen files, then
    recompile the property file itself to capture the Print Assumptions output."""
    ensure_makefile()
    res = {"ok": False, "theorems": [], "assumptions": {}, "log": "", "broken": None, "forbidden": []}
    vfile = os.path.join(COQ, "Props", prop + ".v")
    src, names, printed = theorem_names(vfile)
    res["theorems"] = names
    targets = ["Props/%s.vo" % prop]
    if os.path.exists(os.path.join(COQ, "Harness", "H%s.v" % prop[1:])):
        targets.append("Harness/H%s.vo" % prop[1:])
    with build_lock():
        rc, out = sh(["make", "-j%d" % NPROC] + targets, timeout, cwd=COQ)
    res["log"] = out[-6000:]
    if rc != 0:
        res["broken"] = locate_failure(out, names, src)
        return res
    tmpdir = os.path.join(SCRATCH, "%s_%d" % (prop, os.getpid()))
    os.makedirs(tmpdir, exist_ok=True)
    tmpvo = os.path.join(tmpdir, prop + ".vo")
    rc, out = sh(["coqc", "-Q", ".", "V", "-o", tmpvo, "Props/%s.v" % prop], timeout, cwd=COQ)
    shutil.rmtree(tmpdir, ignore_errors=True)
    if rc != 0:
        res["log"] = out[-6000:]
        res["broken"] = locate_failure(out, names, src)
        return res
    blocks = split_assumptions(out)
    if len(blocks) != len(printed):
        res["broken"] = {"theorem": "Props/%s.v" % prop, "message": "Print Assumptions output count %d != %d" % (len(blocks), len(printed))}
        return res
    res["assumptions"] = dict(zip(printed, blocks))
    missing = [n for n in names if n not in printed]
    if missing:
        res["broken"] = {"theorem": "Props/%s.v:%s" % (prop, missing[0]), "message": "theorem without Print Assumptions"}
        return res
    res["forbidden"] = scan_forbidden(prop)
    if res["forbidden"]:
        res["broken"] = {"theorem": "development", "message": "forbidden construct: " + res["forbidden"][0]}
        return res
    res["ok"] = True
    return res


def run_coqchk(prop, timeout=1500):
    """independent re-check of Props/<prop>.vo and everything it depends on; returns (ok, summary text)"""
    rc, out = sh(["coqchk", "-silent", "-o", "-Q", ".", "V", "V.Props.%s" % prop], timeout, cwd=COQ)
    i = out.find("CONTEXT SUMMARY")
    summary = " ".join(out[i:].split()) if i >= 0 else out[-800:]
    m = re.search(r"\* Axioms:\s*(.*?)\s*\* Constants/Inductives relying on type-in-type:\s*(.*?)\s*\* Constants/Inductives relying on unsafe \(co\)fixpoints:\s*(.*?)\s*\* Inductives whose positivity is assumed:\s*(\S+)", summary)
    ok = rc == 0 and m is not None and all(g.strip() == "<none>" for g in m.groups())
    return ok, summary[:1200]


def split_assumptions(out):
    blocks, cur = [], None
    for line in out.split("\n"):
        if line.startswith("Closed under the global context"):
            if cur is not None:
                blocks.append(cur.strip())
                cur = None
            blocks.append("Closed under the global context")
        elif line.startswith("Axioms:"):
            if cur is not None:
                blocks.append(cur.strip())
            cur = "Axioms:"
        elif cur is not None:
            if line.strip() == "" or line.startswith("File ") or line.startswith("Warning"):
                blocks.append(cur.strip())
                cur = None
            else:
                cur += "\n" + line
    if cur is not None:
        blocks.append(cur.strip())
    return blocks


def locate_failure(out, names, src):
    m = re.search(r'File "\./?([^"]+)", line (\d+), characters [^\n]*\n(Error[^\n]*(?:\n[^\n]+){0,12})', out)
    if not m:
        return {"theorem": "build", "message": out[-1500:]}
    f, line, msg = m.group(1), int(m.group(2)), m.group(3)
    thm = f
    try:
        with open(os.path.join(COQ, f), encoding="utf-8") as fh:
            lines = fh.read().split("\n")
        for i in range(min(line, len(lines)) - 1, -1, -1):
            mm = re.match(r"\s*(Theorem|Lemma|Example|Definition|Fixpoint|Corollary)\s+([A-Za-z0-9_']+)", lines[i])
            if mm:
                thm = "%s:%s" % (f, mm.group(2))
                break
    except OSError:
        pass
    return {"theorem": thm, "file": f, "line": line, "message": msg[:1500]}


def run_cases(ctx, tag, imports, case_type, check_fn, cases, shard=300, timeout=900):
    """cases: list of Gallina terms (strings) of type case_type. check_fn : case_type -> bool.
    Returns the sorted list of indices for which check_fn is false."""
    if not cases:
        return []
    os.makedirs(CASES_DIR, exist_ok=True)
    base = "%s_%s_%d" % (ctx.prop, tag, os.getpid())
    files = []
    for k in range(0, len(cases), shard):
        name = "%s_%d" % (base, k // shard)
        path = os.path.join(CASES_DIR, name + ".v")
        with open(path, "w", encoding="utf-8") as f:
            f.write("From Coq Require Import List NArith ZArith Bool String.\nImport ListNotations.\n")
            f.write(imports + "\n")
            f.write("Definition cases : list (%s) := [\n" % case_type)
            f.write(";\n".join(cases[k:k + shard]))
            f.write("\n].\nEval vm_compute in (mismatches (%s) cases).\n" % check_fn)
        files.append((k, name))
    procs = []
    bad = []
    pending = list(files)
    running = []
    errors = []

    def launch(k, name):
        cmd = "ulimit -s unlimited 2>/dev/null; exec timeout %d coqc -Q %s V -o %s/%s.vo %s/%s.v" % (
            timeout, COQ, CASES_DIR, name, CASES_DIR, name)
        p = subprocess.Popen(["bash", "-c", cmd], stdout=subprocess.PIPE, stderr=subprocess.STDOUT, text=True, errors="replace")
        return (k, name, p)
    while pending or running:
        while pending and len(running) < NPROC:
            running.append(launch(*pending.pop(0)))
        k, name, p = running.pop(0)
        out, _ = p.communicate()
        m = re.search(r"=\s*\[(.*?)\]\s*:\s*list nat", out, flags=re.S)
        if p.returncode != 0 or not m:
            errors.append((name, out[-3000:]))
        else:
            body = m.group(1).strip()
            if body:
                for tok in body.split(";"):
                    bad.append(k + int(tok.strip().replace("%nat", "")))
        for ext in (".v", ".vo", ".vok", ".vos", ".glob"):
            try:
                if ext == ".v" and (p.returncode != 0 or not m):
                    continue  # keep the failing file for inspection
                os.remove(os.path.join(CASES_DIR, name + ext))
            except OSError:
                pass
        try:
            os.remove(os.path.join(CASES_DIR, "." + name + ".aux"))
        except OSError:
            pass
    if errors:
        raise CoqRunError("cases file did not evaluate: %s\n%s" % (errors[0][0], errors[0][1]))
    return sorted(bad)


class CoqRunError(Exception):
    pass


def eval_model(ctx, imports, expr, timeout=300):
    """Evaluate one Gallina expression with vm_compute and return Coq's printed answer."""
    os.makedirs(CASES_DIR, exist_ok=True)
    name = "%s_eval_%d_%d" % (ctx.prop, os.getpid(), random.randrange(10 ** 9))
    path = os.path.join(CASES_DIR, name + ".v")
    with open(path, "w", encoding="utf-8") as f:
        f.write("From Coq Require Import List NArith ZArith Bool String.\nImport ListNotations.\n" + imports +
                "\nEval vm_compute in (%s).\n" % expr)
    rc, out = sh(["bash", "-c", "ulimit -s unlimited 2>/dev/null; exec coqc -Q %s V -o %s/%s.vo %s" % (COQ, CASES_DIR, name, path)], timeout)
    for ext in (".v", ".vo", ".vok", ".vos", ".glob"):
        try:
            os.remove(os.path.join(CASES_DIR, name + ext))
        except OSError:
            pass
    try:
        os.remove(os.path.join(CASES_DIR, "." + name + ".aux"))
    except OSError:
        pass
    return out.strip()


# ---------------------------------------------------------------- Gallina literal printers
def cN(n):
    assert isinstance(n, int) and n >= 0, n
    return "%d%%N" % n


def cnat(n):
    assert isinstance(n, int) and 0 <= n
    if n > 5000:
        return "(N.to_nat %d%%N)" % n
    return "%d%%nat" % n


def cZ(n):
    return "(%d)%%Z" % n


def cbool(b):
    return "true" if b else "false"


def clist(items):
    return "[" + "; ".join(items) + "]"


def cbytes(b):
    return clist([cN(x) for x in bytes(b)])


def ctext(s):
    return clist([cN(ord(ch)) for ch in s])


def copt(x, f):
    return "None" if x is None else "(Some %s)" % f(x)


def cpair(a, b):
    return "(%s, %s)" % (a, b)


def cksum(b):
    acc = 0
    for x in bytes(b):
        acc = ((acc << 8) + acc + x + 1) & 1099511627775
    return (len(b), acc)


def pattern(a, c, length):
    return bytes(((a * i + c) & 255) for i in range(length))


# ---------------------------------------------------------------- findings / replays / evidence
def load_known():
    """known_findings.json (committed, never written at run time)"""
    path = os.path.join(VERIF, "known_findings.json")
    out = []
    if os.path.exists(path):
        with open(path, encoding="utf-8") as f:
            out = json.load(f)
    # per-property files findings/Cxx.json (same record format, committed) are merged in
    have = {(k.get("property"), k.get("signature")) for k in out}
    for fp in sorted(glob.glob(os.path.join(VERIF, "findings", "C*.json"))):
        with open(fp, encoding="utf-8") as f:
            for k in json.load(f):
                if (k.get("property"), k.get("signature")) not in have:
                    out.append(k)
    return out


def write_replay(ctx, payload):
    d = os.path.join(OUT, "replays")
    os.makedirs(d, exist_ok=True)
    body = json.dumps(payload, indent=1, sort_keys=True, default=repr)
    h = hashlib.sha256(body.encode()).hexdigest()[:10]
    path = os.path.join(d, "%s_%d_%s.json" % (ctx.prop, ctx.seed, h))
    with open(path, "w", encoding="utf-8") as f:
        f.write(body)
    return path


def write_evidence(ctx, coverage, assumptions, violations):
    os.makedirs(os.path.join(OUT, "evidence"), exist_ok=True)
    ev = {"property_id": ctx.prop, "tier": ctx.tier, "seed": ctx.seed, "level": "proof",
          "coverage": coverage, "assumptions": assumptions, "wall_s": round(time.time() - ctx.t0, 2),
          "violations": violations}
    path = os.path.join(OUT, "evidence", ctx.prop + ".json")
    with open(path + ".tmp", "w", encoding="utf-8") as f:
        json.dump(ev, f, indent=1, sort_keys=True, default=repr)
    os.replace(path + ".tmp", path)
    return path


def case_key(obj):
    return hashlib.sha256(json.dumps(obj, sort_keys=True, default=repr).encode()).hexdigest()


def load_corpus(prop):
    out = []
    for path in sorted(glob.glob(os.path.join(VERIF, "corpus", prop, "*.json"))):
        with open(path, encoding="utf-8") as f:
            data = json.load(f)
        out.extend(data if isinstance(data, list) else [data])
    return out


class Result:
    """What a harness run reports back to check.py."""
    def __init__(self):
        self.evaluations = 0
        self.keys = set()            # distinct non-trivial case keys
        self.rule = ""
        self.samples = []
        self.dist = {}               # input distribution counters
        self.mismatches = []         # [{case, impl, model?, component}]
        self.violations = []         # [{signature, what, case}]   oracle failures on the implementation
        self.quirks = {}             # quirk name -> bool (witness reproduced?)
        self.extra = {}              # additional coverage keys
        self.assumptions = []

    def count(self, key, n=1):
        self.dist[key] = self.dist.get(key, 0) + n

    def seen(self, case, nontrivial=True):
        self.evaluations += 1
        if nontrivial:
            self.keys.add(case_key(case))
