"""C07 implementation runner: one remote call that raises, through the in-process loopback
(tools/lib/loopback.py: real Proxy, real Daemon), and the canonical observation of what the
caller got.  Used by tools/harness/C07.py."""
import re
from tools.lib import loopback

SERIALIZERS = ["serpent", "marshal", "json", "msgpack"]
KINDS = ["plain", "attr", "setattr", "stream", "batch"]
DEPTHS = [0, 1, 10, 60, 200]
OPAQUE = {"$opaque": 1}


# ---------------------------------------------------------------- value encoding (JSON-able <-> python)
# unserialisable values:  {"$opaque": 1}                      a bare object()
#                         {"$bad": {"how": H, "raises": Q}}   an object whose serialisation hooks raise class Q
#                         {"$deep": n}                        a list nested n deep (recursion limits of the libraries)
BAD = {}          # id(object) -> spec, for the objects made by dec() (kept alive in BAD_KEEP)
BAD_KEEP = []
BAD_HOWS = ["getstate", "slots", "dictprop", "iter", "len"]
BAD_MSG = "c07 bad object"


def make_bad(how, raises):
    X = resolve_class(raises)

    def boom(*a, **k):
        raise X(BAD_MSG)
    if how == "getstate":
        class Bad(object):
            def __getstate__(self):
                boom()
    elif how == "slots":
        class Bad(object):
            __slots__ = ("x", "y")

            def __init__(self):
                self.x = 1       # y is never assigned: getattr raises AttributeError
    elif how == "dictprop":
        class Bad(object):
            __slots__ = ()
            __dict__ = property(boom)
    elif how == "iter":
        class Bad(dict):
            __iter__ = items = keys = values = __len__ = boom
    elif how == "len":
        class Bad(list):
            __iter__ = __len__ = __getitem__ = boom
    else:
        raise KeyError(how)
    Bad.__module__ = "c07mod"
    return Bad()


def dec(v):
    """JSON-able case value -> python value"""
    if isinstance(v, list):
        return [dec(x) for x in v]
    if isinstance(v, dict):
        if "$opaque" in v:
            return object()
        if "$bad" in v or "$deep" in v:
            if "$bad" in v:
                o = make_bad(v["$bad"]["how"], v["$bad"]["raises"])
            else:
                o = []
                for _ in range(v["$deep"]):
                    o = [o]
            BAD[id(o)] = v
            BAD_KEEP.append(o)
            return o
        return {k: dec(x) for k, x in v["$dict"]}
    return v


def enc(v):
    """python value -> JSON-able case value; raises ValueError outside the modelled domain"""
    if id(v) in BAD:
        return BAD[id(v)]
    if v is None or isinstance(v, (bool, int, str)):
        return v
    if type(v) is list:
        return [enc(x) for x in v]
    if type(v) is dict:
        if not all(isinstance(k, str) for k in v):
            raise ValueError("non-string dict key")
        return {"$dict": [[k, enc(v[k])] for k in sorted(v)]}
    if type(v) is object:
        return dict(OPAQUE)
    raise ValueError("value outside the modelled domain: %r" % type(v))


def has_opaque(v):
    if isinstance(v, list):
        return any(has_opaque(x) for x in v)
    if isinstance(v, dict):
        if "$opaque" in v or "$bad" in v or "$deep" in v:
            return True
        return any(has_opaque(x) for _, x in v["$dict"])
    return False


def has_class_key(v):
    if isinstance(v, list):
        return any(has_class_key(x) for x in v)
    if isinstance(v, dict) and "$dict" in v:
        return any(k == "__class__" or has_class_key(x) for k, x in v["$dict"])
    return False


def probe_dumps(ser, exc):
    """the serializer library's verdict on this exception object, measured directly (no daemon involved):
    None if it serialises, else the class of the error dumps raises"""
    import Pyro5.serializers
    try:
        Pyro5.serializers.serializers[ser].dumps(exc)
        return None
    except BaseException as x:
        return {"cls": qn(type(x)), "mro": [qn(b) for b in type(x).__mro__ if b is not object], "args_repr": repr(x.args)[:300]}


# ---------------------------------------------------------------- classes unknown to the receiver
class UserError(Exception):
    """defined only here: the receiving side has no such class in its whitelist"""


UserError.__module__ = "c07mod"


class DunderModuleError(Exception):
    pass


DunderModuleError.__module__ = "__main__"


class UserValueError(ValueError):
    """subclass of a builtin: still unknown to the receiver"""


UserValueError.__module__ = "c07mod"

USER_CLASSES = {"c07mod.UserError": UserError, "__main__.DunderModuleError": DunderModuleError, "c07mod.UserValueError": UserValueError}


def qn(cls):
    return cls.__module__ + "." + cls.__name__


def resolve_class(q):
    import builtins
    import Pyro5.errors
    if q in USER_CLASSES:
        return USER_CLASSES[q]
    mod, name = q.rsplit(".", 1)
    if mod == "builtins":
        return getattr(builtins, name)
    if mod == "Pyro5.errors":
        return getattr(Pyro5.errors, name)
    raise KeyError(q)


def whitelisted(q):
    return q.startswith("builtins.") or q.startswith("Pyro5.errors.")


def build_exception(case):
    """construct the exception the server method will raise.  Returns (exc, canonical) or (None, reason).
    canonical = {"cls": qualified name of the actual class, "mro": [...], "args": [...], "attrs": [[k, v]...]}"""
    BAD.clear()
    del BAD_KEEP[:]
    cls = resolve_class(case["cls"])
    args = [dec(a) for a in case["args"]]
    try:
        e = cls(*args)
        a1 = e.args
        e2 = type(e)(*a1)
        if type(e2) is not type(e) or e2.args != a1:
            return None, "ctor-not-faithful"
    except BaseException as x:
        return None, "ctor-rejects:" + type(x).__name__
    try:
        import traceback
        traceback.format_exception_only(type(e), e)
    except BaseException:
        # e.g. SyntaxError("m", "boom"): Python's own traceback module cannot format it, so neither can
        # errors.format_traceback inside the daemon's handler; not a property of Pyro's exception transport
        return None, "unformattable"
    for k, v in case["attrs"]:
        try:
            if hasattr(type(e), k):
                return None, "attr-name-is-class-member"     # a slot / descriptor of the class, not a custom attribute
            if k == "__notes__" and isinstance(v, list) and v and all(isinstance(n, str) for n in v) and hasattr(e, "add_note"):
                for n in v:
                    e.add_note(n)                             # PEP 678: notes live in vars(e)["__notes__"]
            else:
                e.__dict__[k] = dec(v)                        # any string can be a key of __dict__
        except BaseException as x:
            return None, "setattr-rejects:" + type(x).__name__
    try:
        canon = {"cls": qn(type(e)), "mro": [qn(b) for b in type(e).__mro__ if b is not object],
                 "args": [enc(a) for a in e.args], "attrs": [[k, enc(v)] for k, v in vars(e).items()],
                 "str": str(e), "typerepr": str(type(e))}
    except ValueError as x:
        return None, "outside-domain"
    except BaseException as x:
        return None, "str-fails:" + type(x).__name__
    return e, canon


# ---------------------------------------------------------------- server object
STATE = {"exc": None, "calls": 0}


ENTRY_NAMES = ["boom_batch", "boom", "prop", "stream_body", "next_item"]
ENTRY_RE = re.compile(r"\bin (%s)\b" % "|".join(ENTRY_NAMES))
RAISE_FN = "c07_raise_site"
RAISE_LINE = 'raise STATE["exc"]  # C07-RAISE-LINE'


def c07_raise_site():
    raise STATE["exc"]  # C07-RAISE-LINE


def c07_descend(n):
    """the exception is raised n calls below the entry point (plus the raise site itself)"""
    if n <= 0:
        c07_raise_site()
    else:
        c07_descend(n - 1)


def entry_of(kind, exc):
    """name of the server-side function the daemon dispatches to for this call kind"""
    if kind == "stream":
        return "next_item" if isinstance(exc, StopIteration) else "stream_body"
    return {"plain": "boom", "attr": "prop", "setattr": "prop", "batch": "boom_batch"}[kind]


def tb_token(tb):
    """reduce traceback text to (entry point of the call it describes, raise site): the frames of the current call
    come first (frames left on a re-raised instance by earlier raises follow them); the raise site must show up
    - function name and source line - between this call's entry point and the next entry point, if any"""
    if not tb:
        return None
    text = "".join(tb) if isinstance(tb, (list, tuple)) and all(isinstance(t, str) for t in tb) else str(tb)
    m = ENTRY_RE.search(text)
    if not m:
        return "TB:?@?"
    rest = text[m.end():]
    m2 = ENTRY_RE.search(rest)
    seg = rest[:m2.start()] if m2 else rest
    i = seg.find("in " + RAISE_FN)
    site = RAISE_FN if i >= 0 and RAISE_LINE in seg[i:] else "?"
    return "TB:%s@%s" % (m.group(1), site)


def expected_token(entry):
    return "TB:%s@%s" % (entry, RAISE_FN)


def make_server(hooks=False):
    import Pyro5.api as api

    def fail():
        c07_descend(STATE.get("depth", 0))

    class RaisingIterator(object):
        def __init__(self):
            self.n = 0

        def __iter__(self):
            return self

        def next_item(self):
            fail()

        def __next__(self):
            self.n += 1
            if self.n == 1:
                return 1
            self.next_item()

    @api.expose
    class Base(object):
        def ok(self, k=1):
            STATE["calls"] += 1
            return k

        def boom(self):
            STATE["calls"] += 1
            fail()

        def boom_batch(self):
            STATE["calls"] += 1
            fail()

        @property
        def prop(self):
            fail()

        @prop.setter
        def prop(self, value):
            fail()

        @property
        def okprop(self):
            return 42

        def gen(self):
            if isinstance(STATE["exc"], StopIteration):
                return RaisingIterator()      # a generator would turn it into RuntimeError (PEP 479) on the server

            def stream_body():
                yield 1
                fail()
            return stream_body()

    if hooks:
        class Target(Base):
            """a class with attribute hooks: a lookup fallback and a recording __setattr__"""
            def __getattr__(self, name):
                if name.startswith("_"):
                    raise AttributeError(name)
                return "fallback:" + name

            def __setattr__(self, name, value):
                self.__dict__[name] = value
    else:
        class Target(Base):
            pass
    return Target()


class Net(loopback.Loopback):
    """the shared loopback catches `Exception` around handleRequest like the multiplex server does; an
    exception that is not an `Exception` (SystemExit, KeyboardInterrupt, ...) leaves handleRequest and
    the thread server's per-connection loop (`finally`: disconnect hook, close). Reproduce that instead of
    letting it fly into the client code that happens to be further up the same stack."""
    def _serve_one(self, c):
        try:
            return super()._serve_one(c)
        except BaseException as x:
            c.log.append(("request-baseexception", type(x).__name__))
            self._server_close(c, hook=True)


class Rig:
    def __init__(self):
        from Pyro5 import config
        config.MAX_RETRIES = 0
        self.daemon = loopback.make_daemon()
        self.target = make_server(False)
        self.uri = self.daemon.register(self.target, "c07target")
        self.target_hooks = make_server(True)
        self.uri_hooks = self.daemon.register(self.target_hooks, "c07hooks")

    def uri_for(self, case):
        return self.uri_hooks if case.get("hooks") else self.uri

    def close(self):
        self.daemon.close()


def describes_original(x, canon):
    """is x a generic error ABOUT the original exception (not the original itself)?  Its only argument is a text that
    contains the original's class (as str(type(e))) and its message (str(e)); the wording around them is incidental"""
    if not canon or len(x.args) != 1 or not isinstance(x.args[0], str):
        return False
    if qn(type(x)) == canon["cls"] and repr(x.args) == repr(tuple(dec_plain(a) for a in canon["args"])):
        return False
    return canon["typerepr"] in x.args[0] and canon["str"] in x.args[0]

SER_MSGS = ("don't know how to serialize class", "unmarshallable object")


def dec_plain(v):
    try:
        return dec(v) if not has_opaque(v) else object()
    except Exception:
        return object()


def classify(x, sent_any, canon=None, unanswered=True):
    """observed client-side exception -> outcome dict"""
    import Pyro5.errors as errors
    q = qn(type(x))
    tb = getattr(x, "_pyroTraceback", None)
    has_tb = bool(tb)
    msg = str(x.args[0]) if x.args and isinstance(x.args[0], str) else ""
    if has_tb:
        if describes_original(x, canon):
            return {"o": "fallback", "cls": q, "orig": canon["cls"], "tb": True, "tbtok": tb_token(tb)}
        if any(s in msg for s in SER_MSGS) and len(x.args) == 1:
            return {"o": "sererr", "cls": q}
        probe = (canon or {}).get("serr")
        if probe and q == probe["cls"] and not (q == canon["cls"] and repr(x.args) == repr(tuple(dec_plain(a) for a in canon["args"]))):
            return {"o": "sererr", "cls": q}     # the error the serializer library raises for this content (measured by probe_dumps)
        try:
            attrs = [[k, (tb_token(v) if k == "_pyroTraceback" else enc(v))] for k, v in vars(x).items()]
            return {"o": "raised", "cls": q, "args": [enc(a) for a in x.args], "attrs": attrs}
        except ValueError:
            return {"o": "raised-outside-domain", "cls": q, "repr": repr(x)[:200]}
    if sent_any and describes_original(x, canon) and any(qn(b) == "Pyro5.errors.PyroError" for b in type(x).__mro__):
        return {"o": "fallback", "cls": q, "orig": canon["cls"], "tb": False}
    if not sent_any:
        return {"o": "local", "cls": q}
    if type(x) is errors.ConnectionClosedError and unanswered:
        return {"o": "lost"}
    if type(x) is errors.TimeoutError and unanswered:
        # the loopback socket raises its read timeout only when nothing arrived AND the server side is still open
        return {"o": "hang"}
    return {"o": "client", "cls": q, "msg": msg[:200]}


def do_call(p, kind, before, obs):
    import Pyro5.api as api
    if kind == "plain":
        obs["values"].append(p.boom())
    elif kind == "attr":
        obs["values"].append(p.prop)
    elif kind == "setattr":
        p.prop = 7
        obs["values"].append("assigned")
    elif kind == "stream":
        it = p.gen()
        obs["it"] = it
        first = it.__next__()
        if first != 1:
            obs["values"].append(first)
        obs["values"].append(it.__next__())
    elif kind == "batch":
        b = api.BatchProxy(p)
        for i in range(before):
            b.ok(100 + i)
        b.boom_batch()
        b.ok(999)
        for r in b():
            if r == 100 + obs["before"] and obs["before"] < before:
                obs["before"] += 1
            else:
                obs["values"].append(r)
    else:
        raise ValueError(kind)


def run_prior(rig, case, exc):
    """history: the same exception INSTANCE is first raised by an earlier call of another kind (own proxy)"""
    import Pyro5.api as api
    STATE["exc"] = exc
    STATE["depth"] = case.get("prior_depth", 0)
    with Net(rig.daemon):
        p = api.Proxy(rig.uri_for(case))
        p._pyroSerializer = case.get("prior_ser", case["ser"])
        p._pyroTimeout = 1
        o = {"before": 0, "values": []}
        try:
            do_call(p, case["prior"], 1, o)
        except BaseException:
            pass
        finally:
            if o.get("it") is not None:
                o["it"].proxy = None
            p._pyroRelease()
    STATE["exc"] = None


class DumpsGate:
    """deterministic two-worker interleaving inside Daemon._sendExceptionResponse, without timing: the worker that
    answers the main call is stopped at the moment it hands the exception instance to serializer.dumps (it has
    already stored this call's traceback on the object); a second client, in its own thread (own thread-local call
    context, as a second pool worker has), then makes a complete call that raises the SAME exception instance and
    gets its whole error reply; only then does the first worker go on to serialise.  One thread runs at a time."""
    def __init__(self, rig, case, canon):
        import Pyro5.serializers
        self.rig, self.case, self.canon = rig, case, canon
        self.ser = Pyro5.serializers.serializers[case["ser"]]
        self.fired = False
        self.nested = None

    def __enter__(self):
        orig = self.ser.dumps

        def gated(data):
            if data is STATE["exc"] and not self.fired:
                self.fired = True
                import threading
                t = threading.Thread(target=self.second_client, daemon=True)
                t.start()
                t.join(20)
                if t.is_alive():
                    self.nested = {"o": "did-not-finish"}
            return orig(data)
        self.ser.dumps = gated
        return self

    def __exit__(self, *a):
        del self.ser.dumps

    def second_client(self):
        import Pyro5.api as api
        p = api.Proxy(self.rig.uri_for(self.case))
        p._pyroSerializer = self.case["ser"]
        p._pyroTimeout = 1
        o = {"before": 0, "values": []}
        try:
            do_call(p, self.case["kind"], 0, o)
            self.nested = {"o": "returned"}
        except BaseException as x:
            self.nested = classify(x, True, self.canon)
        finally:
            if o.get("it") is not None:
                o["it"].proxy = None
            p._pyroRelease()


def run_call(rig, case, exc, canon=None):
    """perform the call of case["kind"] with serializer case["ser"]; the server raises `exc`."""
    import Pyro5.api as api
    import contextlib
    STATE["exc"] = exc
    STATE["depth"] = case.get("depth", 0)
    obs = {"before": 0, "values": []}
    gate = DumpsGate(rig, case, canon) if case.get("concurrent") else None
    with Net(rig.daemon) as net, (gate or contextlib.nullcontext()):
        p = api.Proxy(rig.uri_for(case))
        p._pyroSerializer = case["ser"]
        p._pyroTimeout = 1
        try:
            p._pyroBind()
            c = net.conns[max(net.conns)]
            nreq, nrep = len(c.requests), len(c.replies)
            try:
                do_call(p, case["kind"], case.get("before", 0), obs)
                obs["out"] = {"o": "returned", "values": repr(obs["values"])[:200]}
            except BaseException as x:
                obs["out"] = classify(x, len(c.requests) > nreq, canon, unanswered=(len(c.requests) - nreq) > (len(c.replies) - nrep))
                obs["exc_is_pyroerror"] = any(qn(b) == "Pyro5.errors.PyroError" for b in type(x).__mro__)
                obs["exc_str"] = str(x)[:20000]
            obs["client_conn"] = p._pyroConnection is not None
            obs["server_open"] = not c.server_closed
            if gate is not None:
                obs["nested"] = gate.nested
            try:
                obs["next_ok"] = (p.ok(5) == 5)
            except BaseException as x:
                obs["next_ok"] = False
                obs["next_exc"] = qn(type(x))
        finally:
            it = obs.pop("it", None)
            if it is not None:
                it.proxy = None
            p._pyroRelease()
    STATE["exc"] = None
    return obs


def probe_quirks(rig):
    """which variant of the model does this tree match?"""
    import Pyro5.api as api
    import Pyro5.core, Pyro5.serializers
    q = {}
    with Net(rig.daemon):
        p = api.Proxy(rig.uri)
        p._pyroSerializer = "marshal"
        try:
            q["q_marshal_none_kwargs"] = not (p.okprop == 42)
        except AttributeError:
            q["q_marshal_none_kwargs"] = True
        finally:
            p._pyroRelease()
    try:
        Pyro5.serializers.serializers["marshal"].dumps([1, Pyro5.core._ExceptionWrapper(ValueError("x"))])
        q["q_marshal_shallow"] = False
    except ValueError:
        q["q_marshal_shallow"] = True
    return q
