"""C05 driver: a real daemon (tools/lib/rawdrv.py) with server-side recording, hostile message
families, and a scenario player.

Recording (all from outside, nothing in the tree is edited):
  * a `threading.settrace` tracer on the 13 functions of the exception-routing skeleton logs every *fresh*
    exception object the first time it surfaces in one of them: (function, line -> innermost protecting try
    site according to the Gen tables of the tree under test, mro of its class);
  * wrappers around protocol.recv_stub (episode boundaries, request flags), SocketConnection.__init__/send/close
    (connections, reply kinds actually sent, closes), the daemon's clientDisconnect hook and the target object's
    methods.
From the log the server-side history is rebuilt as a list of *episodes* (one per recv_stub call that got
something): that is the input of the Coq event machine; what the daemon did (reply sent, closed, hook, final
accounting, loop alive) is what the machine has to predict.
"""
import os, random, struct, sys, threading, time, contextlib
from tools.lib import rawdrv as rd

MODELLED = {"FHandshake", "FHandleRequest", "FSendExc", "FJobCall", "FMuxEvents", "FMuxHandleReq"}
FILTERED = {"FMuxHandleReq"}     # modelled, but exceptions one of its own handlers contains (getpeername in a handler) are noise
MAXMSG = 1 << 20
CURRENT = None          # the active Recorder (wrappers are installed once per process)
HANGS = [0]             # unanswered waits seen in this process: a systematic hang must cost seconds per case, not minutes


def cname_of(cls):
    m, n = cls.__module__, cls.__qualname__
    if m == "builtins":
        return n
    if m == "Pyro5.errors":
        return "errors." + n
    if m == "Pyro5.svr_threads":
        return "svr_threads." + n
    s = "%s.%s" % (m, n)
    return "".join(ch if (32 < ord(ch) < 127 and ch != '"') else "_" for ch in s)


def mro_of(exc):
    return [cname_of(c) for c in type(exc).__mro__ if c is not object]


class Recorder:
    def __init__(self, info, tree):
        # re-entrant: the cyclic GC may run SocketConnection.__del__ (-> close wrapper -> add) inside add()
        self.lock = threading.RLock()
        self.log = []
        self.seen = set()
        self.serial = self.serial0 = 0
        self.arm_handover = False
        self.handed_back, self.dispatched = threading.Event(), threading.Event()
        self.conns = []          # weakrefs to the SocketConnection objects of this scenario
        self.sites = {c: {x["ord"]: x for x in f["sites"]} for c, f in (info or {"funcs": {}})["funcs"].items()}
        self.hook_raise = set()
        self.codes = {}
        self.by_key = {}
        info = info or {"funcs": {}}
        root = os.path.realpath(os.path.join(tree, "Pyro5"))
        for cname, f in info["funcs"].items():
            recv = [a["line"] for a in f["anchors"] if a["kind"] == "KRecvStub"]
            self.by_key[(os.path.join(root, f["file"]), f["name"], f["firstlineno"])] = (
                cname, {int(k): v for k, v in f["lines"].items()}, recv[0] if recv else None)
            for h in f.get("helpers", []):      # private helpers the extractor read as part of this function
                self.by_key.setdefault((os.path.join(root, f["file"]), h["name"], h["firstlineno"]),
                                       (cname, {int(k): v for k, v in h["lines"].items()}, None))

    def reset(self):
        with self.lock:
            # serials stay unique for the life of the process: a wrapper of an earlier scenario may be closed by the GC later
            self.log, self.seen, self.conns, self.serial0 = [], set(), [], self.serial
        self.arm_handover = False
        self.hook_raise = set()
        self.dispatched.set()          # release a worker that may still be parked from the previous scenario
        self.handed_back, self.dispatched = threading.Event(), threading.Event()

    def live_conns(self):
        """server-side connection objects whose socket is still open"""
        n = 0
        with self.lock:
            refs = list(self.conns)
        for r in refs:
            o = r()
            try:
                if o is not None and o.sock.fileno() != -1:
                    n += 1
            except Exception:
                pass
        return n

    def port_open(self, port):
        with self.lock:
            refs = list(self.conns)
        for r in refs:
            o = r()
            try:
                if o is not None and getattr(o, "_c05_port", None) == port and o.sock.fileno() != -1:
                    return True
            except Exception:
                pass
        return False

    def locally_contained(self, cname, site, mro):
        """does a handler of the same function contain the exception (Python twin of route_in, used only to drop
        exceptions that never leave a frame the model does not look into)"""
        sites = self.sites.get(cname, {})
        n = 0
        while site is not None and n < 50:
            n += 1
            st = sites.get(site)
            if st is None:
                return False
            hit = None
            for classes, act, g in st["handlers"]:
                if g != "GAlways":
                    continue
                if any(c in mro for c in classes):
                    hit = act
                    break
            if hit is not None and hit not in ("AReraise", "ARaiseNew"):
                return True
            site = st["outer"]
        return False

    def add(self, *entry):
        with self.lock:
            self.log.append(entry)

    # -- tracer
    def global_trace(self, frame, event, arg):
        if event != "call":
            return None
        code = frame.f_code
        ent = self.codes.get(code, 0)
        if ent == 0:
            ent = self.by_key.get((os.path.realpath(code.co_filename), code.co_name, code.co_firstlineno))
            self.codes[code] = ent
        return self.local_trace if ent else None

    def local_trace(self, frame, event, arg):
        if event == "exception":
            exc = arg[1]
            fresh = not getattr(exc, "_c05_seen", False)
            if fresh:
                try:
                    exc._c05_seen = True
                except Exception:
                    with self.lock:
                        fresh = id(exc) not in self.seen
                        self.seen.add(id(exc))
            if fresh:
                cname, lines, recvline = self.codes[frame.f_code]
                self.add("fault", threading.get_ident(), cname, lines.get(frame.f_lineno), mro_of(exc), frame.f_lineno,
                         frame.f_lineno == recvline)
        return self.local_trace


def install_wrappers():
    from Pyro5 import protocol, socketutil
    if getattr(protocol, "_c05_patched", False):
        return
    protocol._c05_patched = True
    orig_recv = protocol.recv_stub

    def recv_stub(connection, accepted_msgtypes=None):
        r = CURRENT
        if r is None:
            return orig_recv(connection, accepted_msgtypes)
        port = getattr(connection, "_c05_port", None)
        tid = threading.get_ident()
        r.add("recv", tid, port, list(accepted_msgtypes or []) == [protocol.MSG_CONNECT])
        msg = orig_recv(connection, accepted_msgtypes)
        r.add("recvok", tid, port, msg.flags, msg.type)
        return msg
    protocol.recv_stub = recv_stub
    SC = socketutil.SocketConnection
    o_init, o_send, o_close = SC.__init__, SC.send, SC.close

    def __init__(self, sock, *a, **k):
        o_init(self, sock, *a, **k)
        # identity of the connection in the log: a serial number (peer ports are reused at once after a reset)
        self._c05_port = None
        r = CURRENT
        if r is not None:
            import weakref
            with r.lock:
                r.serial += 1
                self._c05_port = r.serial
                r.conns.append(weakref.ref(self))
            r.add("new", self._c05_port)

    def send(self, data):
        r = CURRENT
        if r is None:
            return o_send(self, data)
        b = bytes(data[:12])
        kind = None
        if len(b) >= 10 and b[:4] == b"PYRO":
            t, fl = b[6], struct.unpack("!H", b[8:10])[0]
            kind = {protocol.MSG_CONNECTOK: "ConnOk", protocol.MSG_CONNECTFAIL: "ConnFail", protocol.MSG_PING: "RepNormal"}.get(t)
            if t == protocol.MSG_RESULT:
                kind = "RepError" if fl & protocol.FLAGS_EXCEPTION else "RepNormal"
        # logged before the bytes leave: the peer may react before this thread runs again
        r.add("sent", threading.get_ident(), getattr(self, "_c05_port", None), kind)
        try:
            o_send(self, data)
        except BaseException:
            r.add("unsent", getattr(self, "_c05_port", None))
            raise

    def close(self):
        first = not getattr(self, "_c05_closed", False) and not self.keep_open
        if first:
            self._c05_closed = True
        o_close(self)
        r = CURRENT
        if first and r is not None:
            r.add("close", getattr(self, "_c05_port", None))
    SC.__init__, SC.send, SC.close = __init__, send, close
    from Pyro5 import svr_threads
    o_done, o_process = svr_threads.Pool.notify_done, svr_threads.Pool.process

    def notify_done(self, worker):
        o_done(self, worker)
        r = CURRENT
        if r is not None and r.arm_handover and not r.handed_back.is_set():
            # schedule: the accept loop dispatches the next connection now, this worker thread resumes afterwards
            r.arm_handover = False
            ev = r.dispatched
            r.handed_back.set()
            ev.wait(3.0)

    def process(self, job):
        o_process(self, job)
        r = CURRENT
        if r is not None and r.handed_back.is_set():
            r.dispatched.set()
    svr_threads.Pool.notify_done, svr_threads.Pool.process = notify_done, process


# ---------------------------------------------------------------- the target object and its exception zoo
class Plain(Exception):
    pass


class Unser(Exception):              # cannot be serialised: fallback PyroError reply
    def __init__(self, *a):
        super().__init__(threading.Lock())


class BadStr(Exception):             # cannot be serialised and cannot be printed: the fallback itself raises
    def __init__(self, *a):
        super().__init__(threading.Lock())

    def __str__(self):
        raise RuntimeError("no str")


class BadStrOnly(Exception):         # serialisable, but str() raises: only eager formatting of it can fail
    def __str__(self):
        raise RuntimeError("no str")


def zoo():
    from Pyro5 import errors

    class BadStrProto(errors.ProtocolError):      # a communication error (never answered, always re-raised) that cannot be printed
        def __str__(self):
            raise RuntimeError("no str")

    class BadStrTimeout(errors.TimeoutError):
        def __str__(self):
            raise RuntimeError("no str")

    class SecOS(errors.SecurityError, OSError):
        pass

    class ClosedSub(errors.ConnectionClosedError):
        pass

    class OSSub(OSError):
        pass
    z = {"ValueError": ValueError, "KeyError": KeyError, "OSError": OSError, "ConnectionResetError": ConnectionResetError,
         "TimeoutError": TimeoutError, "ZeroDivisionError": ZeroDivisionError, "AssertionError": AssertionError,
         "UnicodeDecodeError": lambda *a: UnicodeDecodeError("ascii", b"\xff", 0, 1, "x"),
         "SecurityError": errors.SecurityError, "ConnectionClosedError": errors.ConnectionClosedError,
         "CommunicationError": errors.CommunicationError, "PyroTimeoutError": errors.TimeoutError,
         "ProtocolError": errors.ProtocolError, "SerializeError": errors.SerializeError,
         "MessageTooLargeError": errors.MessageTooLargeError, "DaemonError": errors.DaemonError,
         "NamingError": errors.NamingError, "PyroError": errors.PyroError,
         "Plain": Plain, "Unser": Unser, "BadStr": BadStr, "SecOS": SecOS, "ClosedSub": ClosedSub, "OSSub": OSSub,
         "BadStrOnly": BadStrOnly, "BadStrProto": BadStrProto, "BadStrTimeout": BadStrTimeout}
    return z


ZOO_NAMES = ["ValueError", "KeyError", "OSError", "ConnectionResetError", "TimeoutError", "ZeroDivisionError", "AssertionError",
             "UnicodeDecodeError", "SecurityError", "ConnectionClosedError", "CommunicationError", "PyroTimeoutError",
             "ProtocolError", "SerializeError", "MessageTooLargeError", "DaemonError", "NamingError", "PyroError",
             "Plain", "Unser", "BadStr", "SecOS", "ClosedSub", "OSSub", "BadStrOnly", "BadStrProto", "BadStrTimeout"]


def make_target(rec):
    import Pyro5.api as api
    Z = zoo()

    def boom(name):
        f = Z.get(name, ValueError)
        raise f("boom " + str(name))

    @api.expose
    class Target(object):
        def echo(self, x):
            rec.add("method", threading.get_ident(), "echo")
            return x + 1

        def raise_(self, name):
            rec.add("method", threading.get_ident(), "raise_")
            boom(name)

        @api.oneway
        def ow(self, x):
            return None

        @api.oneway
        def ow_raise(self, name):
            boom(name)

        @api.callback
        def cb(self, name):
            rec.add("method", threading.get_ident(), "cb")
            boom(name)

        def slow(self, x):
            rec.add("method", threading.get_ident(), "slow")
            time.sleep(0.15)
            return x + 1

        def numbers(self, n):
            rec.add("method", threading.get_ident(), "numbers")
            return (i for i in range(int(n)))

        def big(self, n):
            rec.add("method", threading.get_ident(), "big")
            return "x" * int(n)

        def _private(self):
            return 1

        def unexposed_marker(self):
            return 2
    return Target(), Z


# ---------------------------------------------------------------- framing as the server will see it
def framing(b, phase):
    """how recv_stub will consume b as the next message: ("short", n_missing>0) — it blocks waiting for more;
    ("bad", consumed) — rejected after `consumed` bytes; ("ok", consumed) — a whole message was read"""
    from Pyro5 import protocol
    if len(b) < 6:
        if len(b) >= 4 and b[:4] != b"PYRO":
            return ("short", 6 - len(b))
        return ("short", 6 - len(b))
    if b[:4] != b"PYRO" or b[4:6] != protocol.PROTOCOL_VERSION.to_bytes(2, "big"):
        return ("bad", 6)
    if len(b) < 40:
        return ("short", 40 - len(b))
    typ = b[6]
    ds, az = struct.unpack("!II", b[12:20])
    if b[38:40] != protocol._magic_number.to_bytes(2, "big") or ds + az > MAXMSG:
        return ("bad", 40)
    accepted = [protocol.MSG_CONNECT] if phase == "pre" else [protocol.MSG_INVOKE, protocol.MSG_PING]
    if typ not in accepted:
        return ("bad", 40)
    if len(b) < 40 + ds + az:
        return ("short", 40 + ds + az - len(b))
    return ("ok", 40 + ds + az)


def blocks_server(b, phase):
    """does the byte string leave the server waiting for more bytes (so the peer has to disconnect)?"""
    while True:
        v, n = framing(b, phase)
        if v == "short":
            return len(b) > 0 or True
        if v == "bad":
            return False          # connection gets closed; surplus is never read
        b = b[n:]
        if not b:
            return False
        # a further pipelined message; the phase may or may not have advanced — be conservative
        v2, _ = framing(b, "post" if phase == "pre" else phase)
        if v2 == "short":
            return True
        phase = "post"


# ---------------------------------------------------------------- hostile message families
FIELDS = [("tag", 0, 4), ("ver", 4, 2), ("type", 6, 1), ("ser", 7, 1), ("flags", 8, 2), ("seq", 10, 2),
          ("dsize", 12, 4), ("asize", 16, 4), ("corr", 20, 16), ("reserved", 36, 2), ("magic", 38, 2)]


def set_field(msg, name, value):
    for n, off, w in FIELDS:
        if n == name:
            if isinstance(value, int):
                value = (value % (1 << (8 * w))).to_bytes(w, "big")
            assert len(value) == w
            return msg[:off] + value + msg[off + w:]
    raise KeyError(name)


def get_field(msg, name):
    for n, off, w in FIELDS:
        if n == name:
            return int.from_bytes(msg[off:off + w], "big")


# signed / unsigned boundary values of a 32-bit length field
LEN_BOUNDARY = [0, 1, 7, 8, 2 ** 31 - 1, 2 ** 31, 2 ** 32 - 1, 2 ** 32 - 8, 2 ** 32 - 4, 2 ** 32 - 7, 2 ** 32 - 9, 2 ** 32 - 12,
                2 ** 32 - 16, 2 ** 31 + 8, 2 ** 31 - 8]


def ann_message(base, chunks, with_data=True):
    """message with the header fields of `base`, the given annotation chunks (id, claimed length, actual bytes) and base's
    data; the OUTER sizes are consistent with the bytes that follow, only chunk lengths may lie"""
    from Pyro5 import protocol
    az0 = get_field(base, "asize")
    data = base[40 + az0:] if with_data else b""
    ann = b"".join(i + (l % (1 << 32)).to_bytes(4, "big") + d for i, l, d in chunks)
    m = set_field(set_field(base[:40], "dsize", len(data)), "asize", len(ann))
    return m + ann + data


def chunk_layouts(rng, value):
    """annotation sections in which one chunk length field holds `value` (an int, or ("rel", delta) = true length + delta,
    or ("neg", k) = 2**32 - 8 - true length - k)"""
    out = []
    for actual, where in ((b"", "only"), (b"wxyz", "only"), (b"wxyz", "second"), (b"wxyz", "first"), (b"0123456789abcdef", "only")):
        if isinstance(value, tuple):
            v = len(actual) + value[1] if value[0] == "rel" else (1 << 32) - 8 - len(actual) - value[1]
        else:
            v = value
        bad = (b"EVIL", v, actual)
        good = (b"GOOD", 3, b"abc")
        out.append({"only": [bad], "second": [good, bad], "first": [bad, good]}[where])
    return out


CHUNK_VALUES = LEN_BOUNDARY + [("rel", 1), ("rel", -1), ("rel", 8), ("rel", -8), ("neg", 0), ("neg", 8), ("neg", 11)]


def boundary_values(rng, msg, name):
    w = [x for x in FIELDS if x[0] == name][0][2]
    cur = get_field(msg, name)
    top = (1 << (8 * w)) - 1
    vals = {0, 1, top, top - 1, cur + 1, max(cur - 1, 0), cur ^ 1, (1 << (8 * w - 1)), rng.randrange(top + 1)}
    if name in ("dsize", "asize"):
        other = get_field(msg, "asize" if name == "dsize" else "dsize")
        vals |= {MAXMSG, MAXMSG + 1, MAXMSG - other, MAXMSG - other + 1, cur + 8, 5, 7, 8, 9} | set(LEN_BOUNDARY)
    if name == "type":
        vals |= set(range(0, 9))
    if name == "ser":
        vals |= {0, 1, 2, 3, 4, 5, 99}
    if name == "flags":
        vals |= {1 << i for i in range(16)} | {cur | 2, cur | 4, cur | 8, cur | 32, cur | 64}
    if name == "tag":
        return [b"PYRX", b"pyro", b"\0\0\0\0", b"PYR\0", b"XYRO", b"GET ", b"\xff\xff\xff\xff"]
    vals.discard(cur)
    return sorted(v for v in vals if 0 <= v <= top)


SERIALIZERS = ["serpent", "json", "marshal", "msgpack"]


def base_connect(rng, objid="t", handshake="hello", serializer=None, **kw):
    return rd.connect_msg(objid, serializer or rng.choice(SERIALIZERS), handshake=handshake, seq=rng.choice([0, 1, 7, 65535]), **kw)


def base_invoke(rng, method="echo", vargs=(3,), serializer=None, objid="t", flags=0, **kw):
    return rd.invoke_msg(objid, method, vargs, {}, seq=rng.choice([1, 2, 77, 65535]), serializer=serializer or rng.choice(SERIALIZERS),
                         flags=flags, **kw)


def hostile(rng, phase):
    """one hostile (or plain valid) message for the given phase: (family, bytes)"""
    from Pyro5 import protocol
    base = base_connect(rng) if phase == "pre" else base_invoke(rng)
    other = base_invoke(rng) if phase == "pre" else base_connect(rng)
    r = rng.random()
    if r < 0.07:
        b = rng.choice([base, base, base, other])
        return "chunklen", ann_message(b, rng.choice(chunk_layouts(rng, rng.choice(CHUNK_VALUES))), with_data=rng.random() < 0.7)
    if r < 0.20:
        name = rng.choice([f[0] for f in FIELDS])
        b = rng.choice([base, base, base, other])
        return "field:" + name, set_field(b, name, rng.choice(boundary_values(rng, b, name)))
    if r < 0.34:
        k = rng.choice([0, 1, 3, 4, 5, 6, 7, 20, 38, 39, 40, 41, len(base) - 1, rng.randrange(len(base)), rng.randrange(len(base))])
        return "truncate", base[:min(k, len(base) - 1)]
    if r < 0.42:
        n = rng.choice([1, 2, 5, 6, 7, 39, 40, 41, 64, 200])
        g = bytes(rng.randrange(256) for _ in range(n))
        if rng.random() < 0.4:
            g = (b"PYRO" + protocol.PROTOCOL_VERSION.to_bytes(2, "big") + g)[:max(n, 6)]
        return "garbage", g
    if r < 0.50:
        # length fields inconsistent with what follows
        ds = get_field(base, "dsize")
        which = rng.choice(["d+", "d-", "a+", "a-tile", "swap", "extra"])
        if which == "d+":
            return "len:data-longer", set_field(base, "dsize", ds + rng.choice([1, 7, 1000]))
        if which == "d-":
            return "len:data-shorter", set_field(base, "dsize", max(0, ds - rng.choice([1, 2, ds])))
        if which == "a+":
            return "len:ann-phantom", set_field(base, "asize", rng.choice([1, 7, 8, 9, 12, 4000]))
        if which == "a-tile":
            m = set_field(base, "asize", 12)
            return "len:ann-nontiling", m[:40] + b"ABCD" + (rng.choice([0, 5, 4, 3, 2 ** 31, 2 ** 32 - 1])).to_bytes(4, "big") + b"wxyz" + m[40:]
        if which == "swap":
            return "len:swap", set_field(set_field(base, "dsize", 0), "asize", ds)
        return "len:extra-garbage", base + bytes(rng.randrange(256) for _ in range(rng.choice([1, 6, 40, 50])))
    if r < 0.56:
        body = bytes(rng.randrange(256) for _ in range(rng.choice([0, 1, 10, 60])))
        t = protocol.MSG_CONNECT if phase == "pre" else protocol.MSG_INVOKE
        fl = rng.choice([0, 0, protocol.FLAGS_COMPRESSED, protocol.FLAGS_BATCH, protocol.FLAGS_KEEPSERIALIZED, protocol.FLAGS_ONEWAY])
        ann = rng.choice([None, None, {"ABCD": b"123"}, {"\xe9\xe9\xe9\xe9": b"1"}]) if rng.random() < 0.5 else None
        try:
            m = rd.raw_msg(t, fl, 3, rd.ser(rng.choice(SERIALIZERS)).serializer_id, body, ann)
        except Exception:
            m = rd.raw_msg(t, fl, 3, 1, body)
        if fl == protocol.FLAGS_COMPRESSED:
            m = set_field(m, "flags", protocol.FLAGS_COMPRESSED)
        return "payload:undecodable", m
    if phase == "pre":
        if r < 0.64:
            return "connect:validator-raises", base_connect(rng, handshake={"raise": rng.choice(ZOO_NAMES)}, serializer=rng.choice(["serpent", "json", "msgpack"]))
        if r < 0.69:
            return "connect:unknown-object", base_connect(rng, objid=rng.choice(["nope", "", "Pyro.Daemon2"]))
        if r < 0.74:
            s = rd.ser(rng.choice(SERIALIZERS))
            data = s.dumps(rng.choice([[1, 2], "str", 5, {"handshake": "x"}, {"object": "t"}, None]))
            return "connect:bad-structure", base_connect(rng, payload=data)
        if r < 0.78:
            return "connect:hook-raises", base_connect(rng, handshake={"hook": 1}, serializer="serpent")
        if r < 0.82:
            return "connect:compressed", zlib_variant(base)
        return "connect:valid", base
    # post phase
    if r < 0.72:
        fl = rng.choice([0, 0, 0, protocol.FLAGS_ONEWAY])
        meth = rng.choice(["raise_", "raise_", "raise_", "cb", "ow_raise"])
        return "invoke:raises", base_invoke(rng, meth, (rng.choice(ZOO_NAMES),), flags=fl if meth != "cb" else 0)
    if r < 0.78:
        which = rng.choice(["obj", "member", "private", "dunder", "args", "getattr", "oneway-unknown"])
        if which == "obj":
            return "invoke:unknown-object", base_invoke(rng, objid="nope")
        if which == "member":
            return "invoke:unknown-member", base_invoke(rng, "nosuch")
        if which == "private":
            return "invoke:private-member", base_invoke(rng, rng.choice(["_private", "__class__", "__init__"]))
        if which == "dunder":
            return "invoke:setattr", base_invoke(rng, "__setattr__", ("x", 1))
        if which == "args":
            return "invoke:wrong-args", base_invoke(rng, "echo", (1, 2, 3))
        if which == "getattr":
            return "invoke:getattr", base_invoke(rng, "__getattr__", rng.choice([(), ("nope",)]))
        return "invoke:oneway-unknown", base_invoke(rng, "nosuch", objid=rng.choice(["t", "nope"]), flags=protocol.FLAGS_ONEWAY)
    if r < 0.83:
        s = rng.choice(["serpent", "json", "msgpack"])
        calls = [("echo", (1,), {}), ("raise_", (rng.choice(ZOO_NAMES),), {}), ("echo", (2,), {})]
        rng.shuffle(calls)
        return "invoke:batch", rd.invoke_msg("t", "<batch>", calls, {}, seq=9, serializer=s, flags=protocol.FLAGS_BATCH)
    if r < 0.87:
        return "invoke:oneway", base_invoke(rng, "ow", (1,), flags=protocol.FLAGS_ONEWAY)
    if r < 0.91:
        return "ping", rd.ping_msg(seq=rng.choice([0, 5, 65535]))
    if r < 0.94:
        return "invoke:compressed", zlib_variant(base_invoke(rng, "echo", (5,)))
    return "invoke:valid", base


def zlib_variant(msg):
    import zlib
    from Pyro5 import protocol
    ds, az = get_field(msg, "dsize"), get_field(msg, "asize")
    body = zlib.compress(msg[40 + az:40 + az + ds])
    m = msg[:40 + az] + body
    m = set_field(m, "dsize", len(body))
    return set_field(m, "flags", get_field(m, "flags") | protocol.FLAGS_COMPRESSED)


# ---------------------------------------------------------------- scenarios
def gen_scenario(rng, cfg):
    """cfg = {"server","pool","timeout"}; returns {"cfg","steps"}; steps are replayable literally"""
    steps = []
    natt = rng.choice([1, 1, 2, 2, 3])
    wseq = [10]

    def wit():
        if rng.random() < 0.55:
            x = rng.randrange(1000)
            steps.append(["wcall", x])
        elif rng.random() < 0.3:
            steps.append(["wping"])
    open_att = []
    for k in range(natt):
        steps.append(["open", k])
        phase = "pre"
        alive = True
        if rng.random() < 0.5:
            steps.append(["send", k, base_connect(rng).hex(), "connect:valid"])
            steps.append(["read", k])
            phase = "post"
            wit()
        for _ in range(rng.choice([1, 1, 2, 3])):
            fam, msg = hostile(rng, phase)
            if not msg:
                steps.append([rng.choice(["close", "reset"]), k])
                alive = False
                break
            steps.append(["send", k, msg.hex(), fam])
            if blocks_server(msg, phase):
                steps.append([rng.choice(["close", "reset", "reset"]), k])
                alive = False
                wit()
                break
            act = rng.choice(["read", "read", "read", "read", "reset", "reset", "close"])
            if act == "read" and phase == "post" and framing(msg, phase)[0] == "ok" and len(msg) >= 40 \
                    and get_field(msg, "flags") & 4 and msg[6] == 4:
                # a oneway call is not answered: probe with a ping and read that answer instead
                steps.append(["send", k, rd.ping_msg(seq=9).hex(), "ping"])
            steps.append([act, k])
            wit()
            if act != "read":
                alive = False
                break
            if fam == "connect:valid" or fam == "connect:compressed" or fam == "connect:hook-raises":
                phase = "post"
        if alive:
            if rng.random() < 0.5:
                steps.append([rng.choice(["close", "reset"]), k])
            else:
                open_att.append(k)     # stays connected while the next attacker works
        wit()
    steps.append(["wcall", rng.randrange(1000)])
    return {"cfg": cfg, "steps": steps}


def clean_context():
    """The message builders use the real SendingMessage, which copies the CALLING thread's current_context.correlation_id into
    the header (+ FLAGS_CORR_ID).  Other properties' Gen plugins probe call-context code in the check process and may leave an
    id behind in this thread: the harness must build its messages from a clean context, or every message (the witness's
    included) would carry that id."""
    try:
        from Pyro5 import callcontext
        callcontext.current_context.correlation_id = None
    except Exception:
        pass


def complete_message_corr_id(raw):
    """the correlation id of a COMPLETE, well-framed message that asks for it (FLAGS_CORR_ID set), else None: only such an id
    is ever adopted by the daemon"""
    if len(raw) < 40 or raw[:4] != b"PYRO":
        return None
    ds, az = struct.unpack("!II", raw[12:20])
    fl = struct.unpack("!H", raw[8:10])[0]
    if len(raw) < 40 + ds + az or not fl & 64 or not any(raw[20:36]):
        return None
    return bytes(raw[20:36])


class WClient(rd.RawClient):
    """RawClient that also keeps the header of the last message it read (rawdrv's parser drops the correlation id)"""
    last_header = b""

    def recv_msg(self, timeout=None):
        timeout = self.timeout if timeout is None else timeout
        st = self._fill(rd.HEADER, timeout)
        if not st and self.buf[:4] == b"PYRO":
            self.last_header = bytes(self.buf[:rd.HEADER])
        return rd.RawClient.recv_msg(self, timeout)


def patient(client, first=3.0, more=7.0, alive=None):
    """read one message; a machine under heavy load may be slow, which is not what the property is about: keep
    waiting for the outstanding answer before calling it missing — but not once the request loop is known to be dead"""
    t_end = time.time() + first + more
    while True:
        r = client.recv_msg(timeout=min(0.5, max(0.05, t_end - time.time())))
        if r != "TIMEOUT" or time.time() >= t_end or (alive is not None and not alive()):
            return r


def kill_other_threads():
    """recovery after a hang: raise SystemExit asynchronously in every other thread of this (harness worker) process — the
    thrown-away daemon's loop, workers, housekeeper — so that a handler spinning in pure Python stops eating the CPU"""
    import ctypes
    me = threading.get_ident()
    for t in threading.enumerate():
        if t.ident is not None and t.ident != me and t is not threading.main_thread():
            ctypes.pythonapi.PyThreadState_SetAsyncExc(ctypes.c_ulong(t.ident), ctypes.py_object(SystemExit))
    time.sleep(0.05)


class Player:
    def __init__(self, cfg, info, tree):
        self.cfg, self.info, self.tree = cfg, info, tree
        self.rec = Recorder(info, tree)
        self.srv = None
        self.opened = 0

    # -- server life cycle
    def start(self):
        global CURRENT
        install_wrappers()
        CURRENT = self.rec
        rec = self.rec
        Z = zoo()

        def validator(conn, data):
            if isinstance(data, dict):
                if "raise" in data:
                    raise Z.get(data["raise"], ValueError)("denied " + str(data["raise"]))
                if "hook" in data:
                    rec.hook_raise.add(getattr(conn, "_c05_port", None))
            return "hello"
        self.srv = rd.Server(self.cfg["server"], commtimeout=self.cfg.get("timeout"), pool_size=self.cfg.get("pool", 4), pool_min=1,
                             validator=validator, config_overrides=self.overrides())
        threading.settrace(rec.global_trace)     # applies to threads started from now on: loop thread, workers
        self.srv.start()
        target, _ = make_target(rec)
        self.srv.register(target, "t")

        def hook(conn):
            port = getattr(conn, "_c05_port", None)
            rec.add("hook", port)
            if port in rec.hook_raise:
                raise ValueError("hook failed")
        self.srv.daemon.clientDisconnect = hook

    def overrides(self):
        over = {"MAX_MESSAGE_SIZE": MAXMSG}
        if self.cfg.get("stream") is not None:
            # item streams: [ITER_STREAM_LIFETIME, ITER_STREAM_LINGER]; housekeeping period = POLLTIMEOUT (multiplex: idle loop
            # rounds and after every event; thread server: the Housekeeper thread, min(POLLTIMEOUT, max(COMMTIMEOUT, 5)))
            over.update({"ITER_STREAMING": True, "ITER_STREAM_LIFETIME": self.cfg["stream"][0], "ITER_STREAM_LINGER": self.cfg["stream"][1],
                         "POLLTIMEOUT": self.cfg.get("poll", 0.4)})
        return over

    def stop(self, kill=False):
        global CURRENT
        threading.settrace(None)
        self.rec.dispatched.set()
        if kill:
            # first: a loop / worker spinning in a handler would make the orderly shutdown below wait for its time-outs
            kill_other_threads()
        if self.srv is not None:
            with contextlib.suppress(Exception):
                self.srv.stop()
        self.srv = None
        CURRENT = None
        if kill:
            kill_other_threads()

    def acct(self):
        a = self.srv.accounting()
        return a["busy"] if self.cfg["server"] == "thread" else a["registered"]

    def settle(self, expect=None, timeout=2.0):
        """wait until the accounting equals the number of server-side connection objects not yet closed
        (and `expect`, if given); True iff reached"""
        t0 = time.time()
        n = 0
        while True:
            livec = self.rec.live_conns()
            a = self.acct()
            # every connection this harness opened has to have been accepted by the daemon first (a connection still in the
            # kernel's accept queue is invisible to the accounting); give that one second, a reset one may never show up
            pending = self.rec.serial - self.rec.serial0 < self.opened and time.time() - t0 < 1.0
            if not pending and a == livec and (expect is None or a == expect):
                n += 1
                if n >= 2:
                    return True
            else:
                n = 0
            if time.time() - t0 > timeout or not self.srv.loop_alive():
                return False
            time.sleep(0.001)

    # -- one scenario
    def play(self, sc, want_case=True):
        """returns {"violations": [(sig, what)], "case": coq-case dict or None, "dist": [...]}.
        Watchdog: every wait is bounded; an unanswered witness / fresh client ends the scenario at once, the daemon under test is
        thrown away (its threads are killed, a spinning handler included) and the next scenario gets a new one; after two hangs
        in this process the patience shrinks so that a systematic hang costs seconds per case."""
        from Pyro5 import protocol
        clean_context()
        if self.srv is None or not self.srv.loop_alive():
            self.stop()
            self.start()
        srv, rec = self.srv, self.rec
        viol, dist = [], []
        rec.reset()
        base = self.acct()
        if base != 0:
            self.stop(kill=True)
            self.start()
            srv, rec = self.srv, self.rec
            base = self.acct()
        impatient = HANGS[0] >= 2
        first, more, long = (3.0, 7.0, 6.0) if HANGS[0] < 2 else (2.0, 2.0, 3.0) if HANGS[0] < 5 else (1.0, 1.0, 1.5)
        stype = self.cfg["server"]
        self.opened = 1
        w = WClient(srv.port, timeout=3.0)
        w.send(rd.connect_msg("t", "serpent"))
        m = patient(w, first, more)
        foreign = set()      # correlation ids other connections put into their messages
        if not (isinstance(m, dict) and m.get("type") == protocol.MSG_CONNECTOK):
            viol.append(("witness-handshake-failed", "the witness could not connect to a fresh daemon: %r" % (m,)))
            self.stop(kill=True)
            return {"violations": viol, "case": None, "dist": dist}
        self.settle(expect=1)
        clients, dead, streams = {}, set(), {}
        wseq = [100]
        wlast, wgap = [time.time()], [0.0]
        stuck = [False]

        def wtouch():
            now = time.time()
            wgap[0] = max(wgap[0], now - wlast[0])
            wlast[0] = now

        def noreply(what, r):
            stuck[0] = True
            if r == "TIMEOUT":
                HANGS[0] += 1
                viol.append(("daemon-unresponsive:" + stype, "%s was not answered within %.0f s although the connection is open "
                             "(the thread serving it is blocked or spinning)" % (what, first + more)))
            else:
                viol.append(("witness-disconnected:" + stype, "%s got %s instead of a reply" % (what, r)))

        def own_context(what, r):
            # the witness never sends a correlation id: whatever id THIS answer (header just read on the witness socket) carries
            # must not be one that another connection sent in a complete message
            h = w.last_header
            w.last_header = b""
            if isinstance(r, dict) and len(h) >= 36 and (r.get("flags", 0) & protocol.FLAGS_CORR_ID) and bytes(h[20:36]) in foreign:
                viol.append(("witness-foreign-correlation-id:" + stype, "%s was answered under the correlation id %r that ANOTHER "
                             "connection had sent in its message header" % (what, bytes(h[20:36]))))

        def wcall(x):
            wseq[0] = (wseq[0] + 1) % 65536
            wtouch()
            wmsg = rd.invoke_msg("t", "echo", (x,), seq=wseq[0])
            foreign.discard(complete_message_corr_id(wmsg))      # (cannot happen with a clean context; never blame the witness's own id)
            w.last_header = b""
            err = w.send(wmsg)
            r = patient(w, first, more, srv.loop_alive)
            own_context("witness call echo(%d)" % x, r)
            if err or not isinstance(r, dict):
                noreply("witness call echo(%d)" % x, err or r)
            elif r.get("type") != protocol.MSG_RESULT or r.get("flags", 0) & protocol.FLAGS_EXCEPTION or r.get("seq") != wseq[0] \
                    or r.get("value") != x + 1:
                viol.append(("witness-wrong-reply", "witness call echo(%d) seq %d answered %r" % (x, wseq[0], {k: r.get(k) for k in ("type", "flags", "seq", "value")})))

        pending = []

        def wsend_slow(x):
            # the witness keeps the serving thread busy for 150 ms (multiplex: the whole loop): what the other clients do
            # meanwhile is reported to the server in ONE select round
            wseq[0] = (wseq[0] + 1) % 65536
            wtouch()
            w.send(rd.invoke_msg("t", "slow", (x,), seq=wseq[0]))
            pending.append((x, wseq[0]))

        def wrecv():
            if not pending:
                return
            x, sq = pending.pop(0)
            r = patient(w, first, more, srv.loop_alive)
            if not isinstance(r, dict):
                noreply("witness call slow(%d)" % x, r)
            elif r.get("type") != protocol.MSG_RESULT or r.get("flags", 0) & protocol.FLAGS_EXCEPTION or r.get("seq") != sq or r.get("value") != x + 1:
                viol.append(("witness-wrong-reply", "witness call slow(%d) seq %d answered %r" % (x, sq, {k: r.get(k) for k in ("type", "flags", "seq", "value")})))

        def wping():
            wseq[0] = (wseq[0] + 1) % 65536
            wtouch()
            err = w.send(rd.ping_msg(seq=wseq[0]))
            r = patient(w, first, more, srv.loop_alive)
            if err or not isinstance(r, dict):
                noreply("witness ping", err or r)
            elif r.get("type") != protocol.MSG_PING or r.get("seq") != wseq[0]:
                viol.append(("witness-wrong-reply", "witness ping seq %d answered %r" % (wseq[0], {k: r.get(k) for k in ("type", "flags", "seq")})))

        def fresh(sig, need_ok, budget):
            """a new well-behaved client: connect, handshake (+ ping); returns (violations, refusal text or None)"""
            fv, refusal = [], None
            try:
                self.opened += 1
                f = rd.RawClient(srv.port, timeout=3.0)
                f.send(rd.connect_msg("t", "serpent"))
                m = patient(f, first, budget, srv.loop_alive)
                if not isinstance(m, dict) or m.get("type") not in (protocol.MSG_CONNECTOK, protocol.MSG_CONNECTFAIL):
                    if m == "TIMEOUT":
                        HANGS[0] += 1
                    fv.append((sig + ":" + stype, "a new client's CONNECT got %r instead of an answer within %.0f s" % (m, first + budget)))
                elif m.get("type") == protocol.MSG_CONNECTFAIL:
                    refusal = str(m.get("value"))
                    if need_ok:
                        fv.append(("fresh-handshake-failed:" + stype, "a new client's handshake was refused: %r" % (refusal,)))
                else:
                    f.send(rd.ping_msg(seq=4))
                    m2 = patient(f, first, budget, srv.loop_alive)
                    if not (isinstance(m2, dict) and m2.get("type") == protocol.MSG_PING and m2.get("seq") == 4):
                        fv.append(("fresh-ping-failed:" + stype, "a new client's ping got %r" % (m2,)))
                f.close()
            except OSError as x:
                fv.append(("fresh-connection-failed:" + stype, "a new client could not connect: %r" % (x,)))
            return fv, refusal

        def give_up():
            with contextlib.suppress(Exception):
                w.close()
            for c in clients.values():
                with contextlib.suppress(Exception):
                    c.close()
            self.stop(kill=True)
            return {"violations": viol, "case": None, "dist": dist}

        for st in sc["steps"]:
            op = st[0]
            if not srv.loop_alive() or stuck[0]:
                break
            if op == "wcall":
                wcall(st[1])
            elif op == "wping":
                wping()
            elif op == "wslow":
                wsend_slow(st[1])
                time.sleep(0.03)          # the server is inside the method now
            elif op == "wrecv":
                wrecv()
            elif op == "open_now":
                try:
                    clients[st[1]] = rd.RawClient(srv.port, timeout=2.0)
                    self.opened += 1
                except OSError:
                    dead.add(st[1])
            elif op == "arm":
                rec.arm_handover = True
            elif op == "idle":
                time.sleep(float(st[1]))      # nobody talks: item streams expire, housekeeping passes run
            elif op == "stall":
                # the peers keep their connections open and stay silent; the witness keeps talking (COMMTIMEOUT applies to it too)
                t_end = time.time() + float(st[1])
                while time.time() < t_end and not stuck[0] and srv.loop_alive():
                    wping()
                    time.sleep(0.3)
            elif op == "fresh":
                fv, _ = fresh(st[1] if len(st) > 1 else "new-connection-unanswered", False, more if impatient else 6.0)
                viol += fv
                if fv:
                    stuck[0] = True
            elif op == "open":
                if not self.settle(timeout=min(5.0, 2 * long)) and srv.loop_alive() and self.acct() > rec.live_conns():
                    time.sleep(0.2)
                    a, lc = self.acct(), rec.live_conns()
                    if a > lc:
                        # no use carrying on: whoever holds the slot is not serving a connection any more
                        HANGS[0] += 1
                        stuck[0] = True
                        viol.append((("worker-stranded:thread" if stype == "thread" else "accounting-not-restored:multiplex"),
                                     "%s is %d while only %d connection(s) are open: %s" % (
                                         "Pool.busy" if stype == "thread" else "the number of selector registrations", a, lc,
                                         "a worker never returned to the pool" if stype == "thread" else "a closed connection is still registered")))
                        break
                try:
                    clients[st[1]] = rd.RawClient(srv.port, timeout=2.0)
                    self.opened += 1
                except OSError:
                    dead.add(st[1])
            elif st[1] in dead or st[1] not in clients:
                continue
            elif op == "send":
                dist.append(st[3] if len(st) > 3 else "send")
                raw = bytes.fromhex(st[2])
                cid = complete_message_corr_id(raw)
                if cid is not None:
                    foreign.add(cid)
                clients[st[1]].send(raw)
            elif op in ("snext", "sclose"):
                # consume items of / close the last item stream this client was given (DaemonObject methods)
                sid = streams.get(st[1])
                if sid is None:
                    continue
                for _ in range(int(st[2]) if op == "snext" else 1):
                    clients[st[1]].send(rd.invoke_msg("Pyro.Daemon", "get_next_stream_item" if op == "snext" else "close_stream", (sid,),
                                                      seq=55, serializer="serpent"))
                    dist.append("stream:" + op)
                    r = clients[st[1]].recv_msg()
                    if not isinstance(r, dict):
                        if r == "TIMEOUT":
                            clients[st[1]].reset()
                        else:
                            clients[st[1]].close()
                        dead.add(st[1])
                        break
            elif op == "read":
                r = clients[st[1]].recv_msg()
                if isinstance(r, dict) and r.get("annotations", {}).get("STRM"):
                    streams[st[1]] = r["annotations"]["STRM"].decode()
                if not isinstance(r, dict):
                    if r == "TIMEOUT":
                        # neither an answer nor a close: only legitimate after a oneway call / when more bytes are awaited
                        dist.append("read-timeout")
                        clients[st[1]].reset()
                    else:
                        clients[st[1]].close()
                    dead.add(st[1])
            elif op == "close":
                clients[st[1]].close()
                dead.add(st[1])
            elif op == "reset":
                clients[st[1]].reset()
                dead.add(st[1])
        while pending and srv.loop_alive() and not stuck[0]:
            wrecv()
        if not srv.loop_alive():
            # everything else (unanswered new clients, accounting) follows from this
            viol.append(("request-loop-died:" + stype, "the daemon's request loop ended with %r" % (srv.loop_exception,)))
            return give_up()
        if stuck[0]:
            return give_up()
        for k, c in clients.items():
            if k not in dead:
                c.close()
        wtouch()
        if stype == "thread" and self.cfg.get("timeout") and wgap[0] > 0.4 * self.cfg["timeout"]:
            # the machine was so slow that the idle witness may legitimately have hit COMMTIMEOUT: says nothing
            w.close()
            self.stop(kill=True)
            return {"violations": [], "case": None, "dist": dist, "inconclusive": True}
        self.settle(expect=1, timeout=long)
        a = self.acct()
        for _ in range(1 if impatient else 2):
            if a == 1 or not srv.loop_alive():
                break
            time.sleep(0.2)               # a straggler still being served: look again
            self.settle(expect=1, timeout=min(3.0, long))
            a = self.acct()
        if not srv.loop_alive():
            viol.append(("request-loop-died:" + stype, "the daemon's request loop ended with %r" % (srv.loop_exception,)))
            return give_up()
        hk = getattr(srv.daemon.transportServer, "housekeeper", None) if stype == "thread" else None
        if hk is not None and not hk.is_alive():
            viol.append(("housekeeper-died:thread", "the daemon's Housekeeper thread ended (an exception left Daemon._housekeeping): "
                         "abandoned item streams are never cleaned up again"))
            return give_up()
        if a != 1:
            if stype == "thread" and a > 1:
                HANGS[0] += 1
                viol.append(("worker-stranded:thread", "after every attacking connection has ended Pool.busy is %d with only the witness "
                             "connected (pre-attack value 1): %d worker(s) never returned to the pool" % (a, a - 1)))
            else:
                viol.append(("accounting-not-restored:" + stype,
                             "after the attacking connections ended %s is %d, with only the witness connected (pre-attack value 1)" % (
                                 "Pool.busy" if stype == "thread" else "the number of selector registrations", a)))
            return give_up()
        # a fresh client (a refusal for lack of workers while a straggler is still served is legitimate: look again)
        refused_ok = stype == "thread" and self.cfg.get("pool", 4) <= 1
        for attempt in range(4):
            fv, refusal = fresh("fresh-connection-unanswered", not refused_ok, more)
            if refused_ok and not fv and refusal is None:
                fv.append(("fresh-connection-unanswered:" + stype, "a new connection was served although the only worker is taken"))
            self.settle(expect=1, timeout=3.0)
            busy_refusal = bool(fv) and refusal is not None and "no free workers" in refusal
            if not busy_refusal or not srv.loop_alive():
                break
            time.sleep(0.3)
        viol += fv
        if any(v[0].startswith("fresh-connection-unanswered") for v in fv):
            return give_up()
        wcall(4242)
        if stuck[0]:
            return give_up()
        self.settle(expect=1, timeout=long)
        case = None
        if want_case:
            case = self.build_case(srv.loop_alive(), self.acct())
        w.close()
        ok0 = self.settle(expect=0, timeout=long)
        if not ok0 and not viol:
            viol.append(("accounting-not-restored:" + stype, "after every client has gone the accounting is %d, not 0" % self.acct()))
        if viol:
            self.stop(kill=True)       # next scenario gets a fresh daemon
        return {"violations": viol, "case": case, "dist": dist}

    # -- server-side history -> model input and expected output
    def build_case(self, alive, acct):
        with self.rec.lock:
            log = list(self.rec.log)
        eps, cur, closed, hooked, anomalies = [], {}, set(), set(), []
        for i, e in enumerate(log):
            k = e[0]
            if k == "recv":
                ep = {"port": e[2], "connect": e[3], "flags": 0, "faults": [], "sent": [], "method": None, "act": None, "ok": False}
                cur[e[1]] = ep
                eps.append(ep)
            elif k == "recvok":
                ep = cur.get(e[1])
                if ep is not None:
                    ep["flags"], ep["ok"] = e[3], True
                    ep["act"] = i if ep["act"] is None else ep["act"]
            elif k == "fault":
                ep = cur.get(e[1])
                if (e[2] not in MODELLED or e[2] in FILTERED) and self.rec.locally_contained(e[2], e[3], e[4]):
                    continue
                if e[2] not in MODELLED or ep is None:
                    anomalies.append("fresh exception %s surfacing in %s line %d outside the modelled points" % (e[4][0], e[2], e[5]))
                    continue
                ep["faults"].append((e[2], e[3], e[4], bool(e[6])))
                ep["act"] = i if ep["act"] is None else ep["act"]
            elif k == "sent":
                for ep in reversed(eps):
                    if ep["port"] == e[2]:
                        ep["sent"].append(e[3])
                        break
            elif k == "unsent":
                for ep in reversed(eps):
                    if ep["port"] == e[1]:
                        if ep["sent"]:
                            ep["sent"].pop()
                        break
            elif k == "method":
                ep = cur.get(e[1])
                if ep is not None:
                    ep["method"] = e[2]
            elif k == "close":
                closed.add(e[1])
            elif k == "hook":
                hooked.add(e[1])
        done = sorted([ep for ep in eps if ep["act"] is not None], key=lambda ep: ep["act"])
        ids, last = {}, {}
        for ep in done:
            ids.setdefault(ep["port"], len(ids))
            last[ep["port"]] = ep
        events, obs = [], []
        from Pyro5 import protocol
        for ep in done:
            c = ids[ep["port"]]
            is_last = last[ep["port"]] is ep
            if len(ep["sent"]) > 1:
                anomalies.append("more than one message sent in one episode: %r" % (ep["sent"],))
            events.append({"conn": c, "connect": ep["connect"], "oneway": bool(ep["flags"] & protocol.FLAGS_ONEWAY),
                           "callback": ep["method"] == "cb", "faults": ep["faults"],
                           "stream": ep["method"] == "numbers" and not (ep["flags"] & protocol.FLAGS_ONEWAY)})
            obs.append({"conn": c, "reply": ep["sent"][-1] if ep["sent"] else None,
                        "open": (ep["port"] not in closed and self.rec.port_open(ep["port"])) if is_last else True,
                        "hook": (ep["port"] in hooked) if is_last else False})
        return {"server": self.cfg["server"], "pool": self.cfg.get("pool", 4), "events": events, "obs": obs,
                "alive": alive, "acct": acct, "anomalies": anomalies}
