"""Real-socket driver (DESIGN.md section 4.2): a real Daemon running its real request loop
(thread-pool or multiplex transport server) on 127.0.0.1, and raw client sockets that play
event scripts strictly sequentially (send, then wait for reply / EOF / quiescence).

    srv = Server("thread" | "multiplex", commtimeout=None, pool_size=4, pool_min=1)
    srv.register(obj, "objid")          # before or after start()
    srv.start()
    c = RawClient(srv.port); c.send(connect_msg("objid")); m = c.recv_msg()
    c.send(invoke_msg("objid", "method", (1,), {}, seq=1)); m = c.recv_msg()
    srv.wait_quiet(); srv.accounting(); srv.loop_alive(); srv.stop()

Observations kept by the Server: `srv.disconnects` (list of peer ports for which the daemon's
clientDisconnect hook ran, in order), `srv.handshakes` (peer port, accepted?) in order.
Everything the registered objects want to log they log themselves.
"""
import socket, struct, threading, time, select, errno, contextlib

HEADER = 40


class Server:
    def __init__(self, servertype="thread", commtimeout=None, pool_size=4, pool_min=1, validator=None,
                 daemon_kwargs=None, config_overrides=None):
        self.servertype, self.commtimeout = servertype, commtimeout
        self.pool_size, self.pool_min = pool_size, pool_min
        self.validator = validator          # callable(conn, data) -> response, may raise
        self.daemon_kwargs = daemon_kwargs or {}
        self.config_overrides = config_overrides or {}
        self.disconnects, self.handshakes = [], []
        self.daemon = self.thread = None
        self.loop_exception = None
        self._saved = {}

    def start(self):
        from Pyro5 import config
        import Pyro5.server
        over = {"SERVERTYPE": self.servertype, "COMMTIMEOUT": self.commtimeout or 0.0,
                "THREADPOOL_SIZE": self.pool_size, "THREADPOOL_SIZE_MIN": self.pool_min, "POLLTIMEOUT": 0.05}
        over.update(self.config_overrides)
        for k, v in over.items():
            self._saved[k] = getattr(config, k)
            setattr(config, k, v)
        outer = self

        class RecDaemon(Pyro5.server.Daemon):
            def validateHandshake(self, conn, data):
                try:
                    port = conn.sock.getpeername()[1]
                except Exception:
                    port = None
                try:
                    r = outer.validator(conn, data) if outer.validator else "hello"
                except BaseException:
                    outer.handshakes.append((port, False))
                    raise
                outer.handshakes.append((port, True))
                return r

            def clientDisconnect(self, conn):
                try:
                    port = conn.sock.getpeername()[1]
                except Exception:
                    port = getattr(conn, "_rawdrv_port", None)
                outer.disconnects.append(port)

        self.daemon = RecDaemon(host="127.0.0.1", port=0, **self.daemon_kwargs)
        self.port = self.daemon.sock.getsockname()[1]
        self._stop = False

        def loop():
            try:
                self.daemon.requestLoop(lambda: not self._stop)
            except BaseException as x:      # the request loop died: exactly what C05 forbids
                self.loop_exception = x
        self.thread = threading.Thread(target=loop, name="rawdrv-daemon-loop", daemon=True)
        self.thread.start()
        return self

    def register(self, obj, objid=None, **kw):
        return self.daemon.register(obj, objid, **kw)

    def loop_alive(self):
        return self.thread.is_alive() and self.loop_exception is None

    def accounting(self):
        ts = self.daemon.transportServer
        if self.servertype == "thread":
            pool = ts.pool
            return {"busy": len(pool.busy), "idle": len(pool.idle)}
        return {"registered": len(ts.selector.get_map()) - 1}

    def wait_quiet(self, expect=None, timeout=3.0):
        """wait until the accounting equals `expect` (dict subset) or stops changing"""
        t0 = time.time()
        last, stable = None, 0
        while time.time() - t0 < timeout:
            a = self.accounting()
            if expect is not None:
                if all(a.get(k) == v for k, v in expect.items()):
                    return a
            else:
                if a == last:
                    stable += 1
                    if stable >= 4:
                        return a
                else:
                    stable = 0
                last = a
            time.sleep(0.02)
        return self.accounting()

    def stop(self):
        from Pyro5 import config
        self._stop = True
        try:
            with contextlib.suppress(Exception):
                self.daemon.shutdown()
            self.thread.join(3)
            with contextlib.suppress(Exception):
                self.daemon.close()
        finally:
            for k, v in self._saved.items():
                setattr(config, k, v)


# ---------------------------------------------------------------- message builders (real encoder)
def raw_msg(msgtype, flags, seq, serializer_id, payload, annotations=None):
    from Pyro5 import protocol
    return bytes(protocol.SendingMessage(msgtype, flags, seq, serializer_id, payload, annotations=annotations or {}).data)


def ser(name):
    from Pyro5 import serializers
    return serializers.serializers[name]


def connect_msg(objid, serializer="serpent", handshake="hello", seq=0, annotations=None, payload=None, flags=0):
    from Pyro5 import protocol
    s = ser(serializer)
    data = s.dumps({"handshake": handshake, "object": objid}) if payload is None else payload
    return raw_msg(protocol.MSG_CONNECT, flags, seq, s.serializer_id, data, annotations)


def invoke_msg(objid, method, vargs=(), kwargs=None, seq=1, serializer="serpent", flags=0, annotations=None, payload=None):
    from Pyro5 import protocol
    s = ser(serializer)
    data = s.dumpsCall(objid, method, vargs, kwargs or {}) if payload is None else payload
    return raw_msg(protocol.MSG_INVOKE, flags, seq, s.serializer_id, data, annotations)


def ping_msg(seq=1, serializer="serpent", annotations=None):
    from Pyro5 import protocol
    return raw_msg(protocol.MSG_PING, 0, seq, ser(serializer).serializer_id, b"ping", annotations)


def parse_msg(data):
    """decode one complete wire message with the real decoder → dict (payload decoded when possible)"""
    from Pyro5 import protocol, serializers
    m = protocol.ReceivingMessage(data[:HEADER], data[HEADER:])
    out = {"type": m.type, "flags": m.flags, "seq": m.seq, "serializer_id": m.serializer_id,
           "annotations": {k: bytes(v) for k, v in m.annotations.items()}, "raw_len": len(data)}
    try:
        out["value"] = serializers.serializers_by_id[m.serializer_id].loads(m.data)
    except Exception as x:
        out["value_error"] = repr(x)
    return out


class RawClient:
    def __init__(self, port, timeout=2.0):
        self.sock = socket.create_connection(("127.0.0.1", port), timeout=timeout)
        self.sock.setsockopt(socket.IPPROTO_TCP, socket.TCP_NODELAY, 1)
        self.port = self.sock.getsockname()[1]
        self.timeout = timeout
        self.buf = b""
        self.closed = False

    def send(self, data):
        """returns None, or the name of the socket error (peer already closed)"""
        try:
            self.sock.sendall(data)
            return None
        except OSError as x:
            return type(x).__name__

    def _fill(self, n, timeout):
        deadline = time.time() + timeout
        while len(self.buf) < n:
            left = deadline - time.time()
            if left <= 0:
                return "TIMEOUT"
            r, _, _ = select.select([self.sock], [], [], left)
            if not r:
                return "TIMEOUT"
            try:
                chunk = self.sock.recv(65536)
            except ConnectionResetError:
                return "RESET"
            except OSError as x:
                return "ERR:" + type(x).__name__
            if not chunk:
                return "EOF"
            self.buf += chunk
        return None

    def recv_msg(self, timeout=None):
        """next complete message as dict, or one of "EOF" / "TIMEOUT" / "RESET" / "GARBAGE"."""
        timeout = self.timeout if timeout is None else timeout
        st = self._fill(HEADER, timeout)
        if st:
            return st if not self.buf or st != "EOF" else "EOF"
        if self.buf[:4] != b"PYRO":
            return "GARBAGE"
        dl, al = struct.unpack("!II", self.buf[12:20])
        st = self._fill(HEADER + dl + al, timeout)
        if st:
            return st
        data, self.buf = self.buf[:HEADER + dl + al], self.buf[HEADER + dl + al:]
        try:
            return parse_msg(data)
        except Exception as x:
            return {"undecodable": repr(x)}

    def expect_eof(self, timeout=None):
        """True iff the server closes the connection (EOF or reset) within the timeout without sending anything more"""
        st = self._fill(len(self.buf) + 1, self.timeout if timeout is None else timeout)
        return st in ("EOF", "RESET")

    def close(self):
        if not self.closed:
            self.closed = True
            with contextlib.suppress(OSError):
                self.sock.shutdown(socket.SHUT_RDWR)
            self.sock.close()

    def reset(self):
        """abortive close: the server's next send/recv on this connection gets ECONNRESET"""
        if not self.closed:
            self.closed = True
            self.sock.setsockopt(socket.SOL_SOCKET, socket.SO_LINGER, struct.pack("ii", 1, 0))
            self.sock.close()


def handshake(port, objid, serializer="serpent", **kw):
    """connected + handshaken RawClient, or (client, reply) if the handshake was refused"""
    c = RawClient(port, **kw)
    c.send(connect_msg(objid, serializer))
    m = c.recv_msg()
    return c, m
