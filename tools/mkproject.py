#!/usr/bin/env python3
"""Writes coq/_CoqProject from the files present (Gen, Model, Proofs, Harness, Props)."""
import glob, os
COQ = os.environ.get("VERIF_COQ_DIR") or os.path.join(os.path.dirname(os.path.dirname(os.path.abspath(__file__))), "coq")


def write():
    files = []
    for d in ("Gen", "Model", "Proofs", "Harness", "Props"):
        files += sorted(os.path.relpath(p, COQ) for p in glob.glob(os.path.join(COQ, d, "*.v")))
    text = "-Q . V\n" + "\n".join(files) + "\n"
    path = os.path.join(COQ, "_CoqProject")
    old = open(path).read() if os.path.exists(path) else None
    if old != text:
        with open(path, "w") as f:
            f.write(text)
    return files


if __name__ == "__main__":
    print("\n".join(write()))
