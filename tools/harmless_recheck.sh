#!/bin/bash
# tools/harmless_recheck.sh <name> [checks...]: re-run the named quick checks (default: the property in the name)
# against a kept property-preserving change; rewrites the "runs" of seeded_harmless/<name>/result.json.
name="$1"; shift; here="$(cd "$(dirname "$0")/.." && pwd)"; d="$here/seeded_harmless/$name"
pid="${name%%_*}"; checks="${*:-$pid}"
for c in $checks; do
  out=$("$here/tools/mutant_run.sh" "$d/patch.diff" "$c" quick 2>&1); rc=$?
  viol=$(echo "$out" | grep -c "^VIOLATION"); nofail=$(echo "$out" | grep "^VIOLATION" | grep -c "no-failing-input-found")
  echo "$out" | grep -E "^(VIOLATION|$c )" | head -4
  first=$(echo "$out" | grep "^VIOLATION" | head -1)
  python3 - "$d" "$c" "$rc" "$viol" "$nofail" "$first" <<'PY'
import json,sys
d,c,rc,v,nf,first=sys.argv[1],sys.argv[2],int(sys.argv[3]),int(sys.argv[4]),int(sys.argv[5]),sys.argv[6]
j=json.load(open(d+"/result.json")); j["runs"]=[r for r in j.get("runs",[]) if r["check"]!=c]
j["runs"].append({"check":c,"check_cmd":"tools/mutant_run.sh seeded_harmless/%s/patch.diff %s quick"%(d.split('/')[-1],c),"exit":rc,"violation_lines":v,"no_failing_input_found":nf,"silent":rc==0 and v==0})
j["silent"]=all(r["silent"] for r in j["runs"])
json.dump(j,open(d+"/result.json","w"),indent=1)
PY
done
cat "$d/result.json" | tr -d '\n' | cut -c1-500; echo
