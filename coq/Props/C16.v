(* C16 — property theorems only.  Model/Registry.v is the daemon's registry; [quirks_none] is the
   behaviour with fixes/C16_all.diff, each quirk switch is one repaired defect.  Histories are
   arbitrary lists of events (register object/class, explicit/generated/reserved id, force, weak;
   unregister by object / id; uriFor; proxyFor; call; return-object; gc; registered()). *)
From Coq Require Import List Arith Bool.
Import ListNotations.
From V Require Import Model.Registry Proofs.Registry.

(* registry_refines_map, part 1 — "for as long as registered": after a successful registration of t
   under i, whatever happens next that is not aimed at that id or that object (unregister of i or t,
   forced registration under i, another registration of t, collection of t), a call to i runs on t
   and t returned from a remote method arrives as a proxy for i that reaches t itself. *)
Theorem C16_registered_until_disturbed : forall h1 t r f w i h2 o,
  snd (step quirks_none (final quirks_none h1) (Register t r f w)) = RUri i ->
  forallb (fun e => negb (disturbs i t e)) h2 = true ->
  let s := final quirks_none (h1 ++ Register t r f w :: h2) in
  snd (step quirks_none s (Call i)) = RReached (Some t) /\
  (t = PObj o -> snd (step quirks_none s (Return o)) = RProxy i (Some (PObj o))).
Proof. exact registered_until_disturbed. Qed.
Print Assumptions C16_registered_until_disturbed.

(* registry_refines_map, part 2 — an id reaches something only because of a registration under it. *)
Theorem C16_known_only_by_registration : forall s e i en,
  lookup i (reg (fst (step quirks_none s e))) = Some en ->
  lookup i (reg s) = Some en \/ exists t r f w, e = Register t r f w /\ snd (step quirks_none s e) = RUri i.
Proof. exact known_only_by_registration. Qed.
Print Assumptions C16_known_only_by_registration.

(* registered() lists exactly the ids a call can reach. *)
Theorem C16_registered_lists_exactly : forall s i,
  exists l, snd (step quirks_none s Registered) = RIds l /\
  (In i l <-> exists x, snd (step quirks_none s (Call i)) = RReached x).
Proof. exact registered_lists_exactly. Qed.
Print Assumptions C16_registered_lists_exactly.

(* a second registration under an id in use is refused (state unchanged) unless forced; an unforced
   registration that goes through used a free id and leaves every other id alone. *)
Theorem C16_duplicate_id_refused_unless_forced : forall s t r w,
  (r = RDaemon \/ exists n, r = RNamed n) -> mem (req_ident 0 r) (reg s) = true ->
  exists e, step quirks_none s (Register t r false w) = (s, RErr e).
Proof. exact duplicate_id_refused. Qed.
Print Assumptions C16_duplicate_id_refused_unless_forced.

Theorem C16_unforced_registration_adds_only : forall s t r w i,
  snd (step quirks_none s (Register t r false w)) = RUri i ->
  lookup i (reg s) = None /\
  forall j, j <> i -> lookup j (reg (fst (step quirks_none s (Register t r false w)))) = lookup j (reg s).
Proof. exact unforced_registration_adds_only. Qed.
Print Assumptions C16_unforced_registration_adds_only.

(* the daemon's own id is registered after every history, and what it reaches changes only by an
   explicit forced registration under that very name (reading: force is not "silent"). *)
Theorem C16_daemon_always_registered : forall h, lookup IdDaemon (reg (final quirks_none h)) <> None.
Proof. exact daemon_always_registered. Qed.
Print Assumptions C16_daemon_always_registered.

Theorem C16_daemon_object_replaced_only_by_force : forall s e,
  lookup IdDaemon (reg s) <> None ->
  lookup IdDaemon (reg (fst (step quirks_none s e))) <> lookup IdDaemon (reg s) ->
  exists t w, e = Register t RDaemon true w.
Proof. exact daemon_entry_changes_only_by_force. Qed.
Print Assumptions C16_daemon_object_replaced_only_by_force.

(* proxy_iff_registered, soundness half, all histories (force, aliases, weak, gc included):
   a returned object that arrives as a proxy is registered under that id and calls reach that very object;
   an object that is not registered arrives by value; returning an object never raises. *)
Theorem C16_proxy_reaches_same_object : forall h o i x,
  snd (step quirks_none (final quirks_none h) (Return o)) = RProxy i x ->
  x = Some (PObj o) /\ registered_at (final quirks_none h) i (PObj o).
Proof. exact proxy_reaches_same_object. Qed.
Print Assumptions C16_proxy_reaches_same_object.

Theorem C16_unregistered_travels_by_value : forall h o,
  ~ is_registered (final quirks_none h) (PObj o) ->
  snd (step quirks_none (final quirks_none h) (Return o)) = RValue.
Proof. exact unregistered_travels_by_value. Qed.
Print Assumptions C16_unregistered_travels_by_value.

Theorem C16_return_never_fails : forall h o e,
  snd (step quirks_none (final quirks_none h) (Return o)) <> RErr e.
Proof. exact return_never_fails. Qed.
Print Assumptions C16_return_never_fails.

(* after unregistration the id is unknown (by id), and the object travels by value (by object). *)
Theorem C16_unregister_by_id_forgets : forall s i, i <> IdDaemon ->
  snd (step quirks_none (fst (step quirks_none s (UnregId i))) (Call i)) = RErr EUnknownObject.
Proof. exact unregister_by_id_forgets. Qed.
Print Assumptions C16_unregister_by_id_forgets.

Theorem C16_unregister_object_forgets : forall s o,
  snd (step quirks_none s (UnregObj (PObj o))) = ROk ->
  snd (step quirks_none (fst (step quirks_none s (UnregObj (PObj o)))) (Return o)) = RValue
  \/ pid s (PObj o) = Some IdDaemon
  \/ exists i, pid s (PObj o) = Some i /\ lookup i (reg s) = None.
Proof. exact unregister_object_forgets. Qed.
Print Assumptions C16_unregister_object_forgets.

(* (1) the weak-finalizer repair as a positive theorem, all histories: when pool object o is collected
   (its last reference is dropped and nothing holds it strongly), no id (other than the daemon's reserved
   name, which the daemon never forgets) reaches o any more, every registration of anything else is exactly
   as before, nothing new appears, and the slot travels by value.  With C16_registered_lists_exactly:
   registered() no longer lists those ids.  A strongly registered object is not collected at all. *)
Theorem C16_gc_forgets_collected_object : forall h o,
  let s := final quirks_none h in
  snd (step quirks_none s (Gc o)) = RGc true ->
  let s' := fst (step quirks_none s (Gc o)) in
  (forall i, i <> IdDaemon -> snd (step quirks_none s' (Call i)) <> RReached (Some (PObj o))) /\
  (forall i e, lookup i (reg s) = Some e -> holds e (PObj o) = false -> lookup i (reg s') = Some e) /\
  (forall i e, lookup i (reg s') = Some e -> lookup i (reg s) = Some e) /\
  snd (step quirks_none s' (Return o)) = RValue.
Proof. exact gc_forgets_collected_object. Qed.
Print Assumptions C16_gc_forgets_collected_object.

Theorem C16_gc_keeps_strongly_registered : forall s o,
  strongly_held s o = true -> step quirks_none s (Gc o) = (s, RGc false).
Proof. exact gc_keeps_strongly_registered. Qed.
Print Assumptions C16_gc_keeps_strongly_registered.

(* (3) proxy_iff_registered, full equivalence, for every history in which the object is never aliased
   ([unaliased]: no forced registration of it while it is registered under a different id): it is registered
   under i exactly when, returned from a remote method, it arrives as a proxy for i that reaches itself;
   and it has at most one id. *)
Theorem C16_proxy_iff_registered : forall h o i, unaliased (PObj o) h = true ->
  (registered_at (final quirks_none h) i (PObj o) <->
   snd (step quirks_none (final quirks_none h) (Return o)) = RProxy i (Some (PObj o))).
Proof. exact proxy_iff_registered. Qed.
Print Assumptions C16_proxy_iff_registered.

Theorem C16_unaliased_one_id : forall h t i j, unaliased t h = true ->
  registered_at (final quirks_none h) i t -> registered_at (final quirks_none h) j t -> i = j.
Proof. exact unaliased_one_id. Qed.
Print Assumptions C16_unaliased_one_id.

(* (2) a second registration of the same object or class (registered strongly or weakly, under whatever id)
   without force is refused: DaemonError (TypeError for a malformed request), state unchanged. *)
Theorem C16_second_registration_of_object_refused : forall h t r w,
  unaliased t h = true -> is_registered (final quirks_none h) t ->
  exists e, step quirks_none (final quirks_none h) (Register t r false w) = (final quirks_none h, RErr e) /\
            (r <> RBad -> is_class t && w = false -> e = EDaemonError).
Proof. exact second_registration_refused. Qed.
Print Assumptions C16_second_registration_of_object_refused.

(* (4) register(o) without an id: the generated id was not in use, reaches o afterwards, and no other id
   is affected (even with force); all theorems above then apply to it like to any other id. *)
Theorem C16_generated_id_fresh : forall h t f w i,
  let s := final quirks_none h in
  snd (step quirks_none s (Register t RGen f w)) = RUri i ->
  lookup i (reg s) = None /\
  registered_at (fst (step quirks_none s (Register t RGen f w))) i t /\
  (forall j, j <> i -> lookup j (reg (fst (step quirks_none s (Register t RGen f w)))) = lookup j (reg s)).
Proof. exact generated_id_fresh. Qed.
Print Assumptions C16_generated_id_fresh.

(* what uriFor(obj) / proxyFor(obj) hand out, every state: only an id under which that very object (or class) is
   registered - never the id the object once had and that reaches something else by now. *)
Theorem C16_uri_names_own_registration : forall s t i,
  (snd (step quirks_none s (UriObj t)) = RUri i \/ snd (step quirks_none s (ProxyObj t)) = RUri i) ->
  registered_at s i t.
Proof. exact uri_names_own_registration. Qed.
Print Assumptions C16_uri_names_own_registration.

(* ---- the defects: each quirk alone breaks the statement it names (witnesses replayed on the code) ---- *)
Definition only_unreg_id := mk_quirks true false false false false false.
Definition only_unreg_obj := mk_quirks false true false false false false.
Definition only_force := mk_quirks false false true false false false.
Definition only_weak := mk_quirks false false false true false false.
Definition only_finalizer := mk_quirks false false false false true false.
Definition only_uri := mk_quirks false false false false false true.

Theorem C16_unregister_by_id_keeps_mark_refuted : exists h o,
  ~ is_registered (final only_unreg_id h) (PObj o) /\
  snd (step only_unreg_id (final only_unreg_id h) (Return o)) = RErr EDaemonError.
Proof.
  exists [Register (PObj 0) (RNamed 0) false false; UnregId (IdName 0)], 0.
  split; [|vm_compute; reflexivity]. intros [i [w H]]. vm_compute in H.
  destruct i; try discriminate.
Qed.
Print Assumptions C16_unregister_by_id_keeps_mark_refuted.

Theorem C16_force_keeps_displaced_marks_refuted : exists h o,
  ~ is_registered (final only_force h) (PObj o) /\
  snd (step only_force (final only_force h) (Return o)) = RErr EDaemonError /\
  snd (step (mk_quirks false false true false false true) (final only_force h) (Return o)) = RProxy (IdName 0) (Some (PObj 1)).
Proof.
  exists [Register (PObj 0) (RNamed 0) false false; Register (PObj 1) (RNamed 0) true false], 0.
  split; [|split; vm_compute; reflexivity]. intros [i [w H]]. vm_compute in H.
  destruct i as [|[|n]|n]; try discriminate.
Qed.
Print Assumptions C16_force_keeps_displaced_marks_refuted.

Theorem C16_weak_double_register_refuted : exists h t i,
  is_registered (final only_weak h) t /\
  snd (step only_weak (final only_weak h) (Register t (RNamed 1) false false)) = RUri i.
Proof.
  exists [Register (PObj 0) (RNamed 0) false true], (PObj 0), (IdName 1).
  split; [exists (IdName 0), true; vm_compute; reflexivity | vm_compute; reflexivity].
Qed.
Print Assumptions C16_weak_double_register_refuted.

Theorem C16_stale_finalizer_refuted : exists h1 t r f w i h2,
  snd (step only_finalizer (final only_finalizer h1) (Register t r f w)) = RUri i /\
  forallb (fun e => negb (disturbs i t e)) h2 = true /\
  snd (step only_finalizer (final only_finalizer (h1 ++ Register t r f w :: h2)) (Call i)) = RErr EUnknownObject.
Proof.
  exists [Register (PObj 0) (RNamed 0) false true; UnregObj (PObj 0)], (PObj 1), (RNamed 0), false, false, (IdName 0), [Gc 0].
  repeat split; vm_compute; reflexivity.
Qed.
Print Assumptions C16_stale_finalizer_refuted.

Theorem C16_unregister_object_stale_id_refuted : exists h1 t r f w i h2,
  snd (step only_unreg_obj (final only_unreg_obj h1) (Register t r f w)) = RUri i /\
  forallb (fun e => negb (disturbs i t e)) h2 = true /\
  snd (step only_unreg_obj (final only_unreg_obj (h1 ++ Register t r f w :: h2)) (Call i)) = RErr EUnknownObject.
Proof.
  exists [Register (PObj 0) (RNamed 0) false false; UnregId (IdName 0)], (PObj 1), (RNamed 0), false, false, (IdName 0), [UnregObj (PObj 0)].
  repeat split; vm_compute; reflexivity.
Qed.
Print Assumptions C16_unregister_object_stale_id_refuted.

Theorem C16_uri_trusts_stale_id_refuted : exists h t i,
  snd (step only_uri (final only_uri h) (UriObj t)) = RUri i /\ ~ registered_at (final only_uri h) i t.
Proof.
  exists [Register (PObj 0) (RNamed 0) false false; UnregId (IdName 0); Register (PCls 1) (RNamed 0) false false], (PObj 0), (IdName 0).
  split; [vm_compute; reflexivity|]. intros [w H]. vm_compute in H. discriminate.
Qed.
Print Assumptions C16_uri_trusts_stale_id_refuted.

(* open finding (not repaired; tests/test_daemon.py::testRegisterTwiceForced pins the aliasing): the
   completeness half "registered => arrives as a proxy" fails, even for the repaired behaviour, once an
   object has been force-registered under a second id and its latest id is unregistered. *)
Theorem C16_proxy_iff_registered_alias_refuted : exists h o,
  is_registered (final quirks_none h) (PObj o) /\
  snd (step quirks_none (final quirks_none h) (Return o)) = RValue.
Proof.
  exists [Register (PObj 0) (RNamed 0) false false; Register (PObj 0) (RNamed 1) true false; UnregObj (PObj 0)], 0.
  split; [exists (IdName 0), false; vm_compute; reflexivity | vm_compute; reflexivity].
Qed.
Print Assumptions C16_proxy_iff_registered_alias_refuted.

(* non-vacuity *)
Example C16_nonvacuous_history :
  results quirks_none [Register (PObj 0) RGen false true; Call (IdGen 0); Return 0; Register (PObj 1) RDaemon false false;
                       Register (PObj 0) (RNamed 2) false false; Gc 0; Call (IdGen 0); Return 0; Registered]
  = [RUri (IdGen 0); RReached (Some (PObj 0)); RProxy (IdGen 0) (Some (PObj 0)); RErr EDaemonError;
     RErr EDaemonError; RGc true; RErr EUnknownObject; RValue; RIds [IdDaemon]].
Proof. vm_compute. reflexivity. Qed.
Example C16_nonvacuous_until_disturbed :
  snd (step quirks_none (final quirks_none [Register (PObj 1) (RNamed 0) false false]) (Register (PObj 0) (RNamed 1) true true)) = RUri (IdName 1) /\
  forallb (fun e => negb (disturbs (IdName 1) (PObj 0) e)) [Register (PObj 1) (RNamed 2) true false; UnregId (IdName 0); Gc 1; UnregObj (PObj 1)] = true.
Proof. vm_compute. auto. Qed.
(* an un-aliased history with force, weak registration, displacement and collection; the open finding's witness is aliased *)
Example C16_nonvacuous_unaliased :
  let h := [Register (PObj 0) RGen false true; Register (PObj 1) (RNamed 0) false false; UnregId (IdGen 0);
            Register (PObj 0) (RNamed 0) true false; Gc 1; Register (PObj 1) RGen true true] in
  unaliased (PObj 0) h = true /\ unaliased (PObj 1) h = true /\
  registered_at (final quirks_none h) (IdName 0) (PObj 0) /\ registered_at (final quirks_none h) (IdGen 1) (PObj 1) /\
  snd (step quirks_none (final quirks_none h) (Gc 1)) = RGc true /\
  unaliased (PObj 0) [Register (PObj 0) (RNamed 0) false false; Register (PObj 0) (RNamed 1) true false; UnregObj (PObj 0)] = false.
Proof. vm_compute. repeat split; try reflexivity; eexists; reflexivity. Qed.
