(* C08 — nothing is invoked on a connection before an accepted handshake.
   Property theorems only: each is closed by [exact] of a lemma of Proofs/HandshakeGate.v,
   instantiated at the configuration generated from the source on this run
   (Gen/GenHandshake.v: accepted message types of _handshake / handleRequest, the guards
   around the request loop / selector registration, the truthiness of _handshake's result).
   [gen_cfg q1 q2 q3] is the machine the correspondence harness runs against the real daemon;
   q1/q2 are the two repaired quirks (false = repaired), q3 the open BaseException finding
   (true = the code as it is).  Events: a classified message arrives / the peer goes away /
   the peer is silent beyond COMMTIMEOUT; a connection may have been denied by a full thread pool.
   The application's register / unregister calls (by id, by object, collection of a weak registration) are
   events of the history too; "object known" is evaluated against the registry of that moment.
   [fresh g sty pre c]: connection c is new after the history pre and the daemon is serving.
   [reg_after g sty pre]: the registry after pre; by C08_registry_is_applications it is exactly what the
   application's own calls in pre say (connection events never change it). *)
From Coq Require Import List NArith Arith Bool.
Import ListNotations.
From V Require Import Model.HandshakeGate Proofs.HandshakeGateHs Proofs.HandshakeGate Gen.GenHandshake Gen.GenProtocol Harness.H08.

(* The structural facts, re-checked by computation over the tables extracted from the source:
   _handshake accepts exactly [MSG_CONNECT]; handleRequest accepts exactly [MSG_INVOKE; MSG_PING];
   thread server: request loop only under a truthy handleConnection, which is truthy only under a
   truthy _handshake; multiplex server: selector registration likewise; _handshake truthy only for CONNECTOK. *)
Theorem C08_gen_structure : forall q1 q2 q3, cfg_ok (gen_cfg q1 q2 q3) = true.
Proof. intros [] [] []; vm_compute; reflexivity. Qed.
Print Assumptions C08_gen_structure.

(* In every trace of every event list (any number of connections, any interleaving, messages, peers going
   away, silences, denied connections, registrations and unregistrations in between), on both server types and
   for every quirk variant: an execution on behalf of connection c — on an application object or on the daemon's
   built-in object — is preceded by the CONNECTOK answer to c. *)
Theorem C08_no_exec_before_handshake : forall q1 q2 q3 sty evs t1 c t tok t2,
  trace (gen_cfg q1 q2 q3) sty evs = t1 ++ Exec c t tok :: t2 ->
  exists s i, In (Reply c RConnectOk s i) t1.
Proof. intros q1 q2 q3 sty. exact (no_exec_before_handshake (gen_cfg q1 q2 q3) sty (C08_gen_structure q1 q2 q3)). Qed.
Print Assumptions C08_no_exec_before_handshake.

(* ... and CONNECTOK is only ever the answer to the first event of a fresh connection that was not denied,
   when that event is a well-formed CONNECT with a known serializer which the validator accepted, for an
   object id that is registered at that moment. *)
Theorem C08_connectok_only_for_accepted_connect : forall q1 q2 q3 sty pre e c s i,
  let g := gen_cfg q1 q2 q3 in
  In (Reply c RConnectOk s i) (outs_of g sty pre e) ->
  exists ce, e = EvConn ce /\ e_conn ce = c /\ fresh g sty pre c /\
    is_accepted_connect g sty (reg_after g sty pre) ce = true.
Proof. intros q1 q2 q3 sty. exact (connectok_only_for_accepted_connect (gen_cfg q1 q2 q3) sty (C08_gen_structure q1 q2 q3)). Qed.
Print Assumptions C08_connectok_only_for_accepted_connect.

(* The registry the machine consults is exactly what the application's own calls made it ... *)
Theorem C08_registry_is_applications : forall q1 q2 q3 sty pre,
  reg_after (gen_cfg q1 q2 q3) sty pre = reg_of_history reg_init pre.
Proof. intros q1 q2 q3 sty. exact (reg_after_spec (gen_cfg q1 q2 q3) sty). Qed.
Print Assumptions C08_registry_is_applications.

(* ... so an accepted CONNECT names an object id that is the daemon's own, or that the application registered
   earlier and has not removed since — neither by id, nor by object, nor by the collection of a weak registration. *)
Theorem C08_accepted_connect_object_registered : forall q1 q2 q3 sty pre ce,
  is_accepted_connect (gen_cfg q1 q2 q3) sty (reg_after (gen_cfg q1 q2 q3) sty pre) ce = true ->
  exists m n, e_in ce = InMsg m /\ m_hs m = HsFull (ObjId n) /\ reg_of_history reg_init pre n = true /\
    (n = daemon_oid \/
     exists p1 p2, pre = p1 ++ EvApp (Register n) :: p2 /\ forall a, In (EvApp a) p2 -> removes a n = false).
Proof. intros q1 q2 q3 sty. exact (accepted_connect_object_registered (gen_cfg q1 q2 q3) sty). Qed.
Print Assumptions C08_accepted_connect_object_registered.

(* Event form: whatever is executed is executed for an INVOKE message of the connection itself,
   and that connection's first event was a CONNECT accepted against the registry of that moment (answered CONNECTOK). *)
Theorem C08_exec_needs_accepted_connect : forall q1 q2 q3 sty pre e c t tok,
  let g := gen_cfg q1 q2 q3 in
  In (Exec c t tok) (outs_of g sty pre e) ->
  (exists ce, e = EvConn ce /\ e_conn ce = c /\ exists m, e_in ce = InMsg m /\ m_type m = t_invoke) /\
  exists p1 ce0 p2, pre = p1 ++ EvConn ce0 :: p2 /\ e_conn ce0 = c /\ fresh g sty p1 c /\
    is_accepted_connect g sty (reg_after g sty p1) ce0 = true /\
    exists m0, e_in ce0 = InMsg m0 /\
      outs_of g sty p1 (EvConn ce0) = [Reply c RConnectOk (m_seq m0) (m_ser m0)].
Proof. intros q1 q2 q3 sty. exact (exec_needs_accepted_connect (gen_cfg q1 q2 q3) sty (C08_gen_structure q1 q2 q3)). Qed.
Print Assumptions C08_exec_needs_accepted_connect.

(* A failing first event of a fresh connection (anything that is not an accepted CONNECT: another type,
   malformed, unknown serializer, bad payload, validator raises, object id not registered at that moment — never
   registered, or unregistered in whatever way —, peer gone, silence, denied by the full pool): at most one reply,
   and it is a CONNECTFAIL; then the socket is closed — except when the validator raises a BaseException-only
   class (open finding): then no reply at all comes out (and the socket is closed only in one sub-case, by a
   destructor).  In every case no later event of that connection yields any reply or execution, whatever is
   pipelined behind. *)
Theorem C08_failed_handshake_closes : forall q1 q2 q3 sty pre ce c,
  let g := gen_cfg q1 q2 q3 in
  e_conn ce = c -> fresh g sty pre c -> is_accepted_connect g sty (reg_after g sty pre) ce = false ->
  ((validator_aborts g sty ce = true /\
    (outs_of g sty pre (EvConn ce) = [] \/ outs_of g sty pre (EvConn ce) = [SockClosed c])) \/
   (validator_aborts g sty ce = false /\
    exists rs, outs_of g sty pre (EvConn ce) = rs ++ [SockClosed c] /\
               (rs = [] \/ exists r s i, rs = [Reply c (RConnectFail r) s i]))) /\
  (forall mid ce', e_conn ce' = c -> outs_of g sty (pre ++ EvConn ce :: mid) (EvConn ce') = []).
Proof. intros q1 q2 q3 sty. exact (failed_handshake_closes (gen_cfg q1 q2 q3) sty (C08_gen_structure q1 q2 q3)). Qed.
Print Assumptions C08_failed_handshake_closes.

(* The failure answer carries the reason: (a) first message well-framed but not a CONNECT, (b) the validator
   raises an Exception, (c) the object id is not registered according to the application's own calls so far,
   (d) no free worker in the thread pool, (e) silence beyond COMMTIMEOUT. *)
Theorem C08_failure_reason_carried : forall q1 q2 q3 sty pre ce c,
  let g := gen_cfg q1 q2 q3 in
  e_conn ce = c -> fresh g sty pre c ->
  (forall m, e_in ce = InMsg m -> m_wf m <> WfBadHeader -> m_type m <> t_connect ->
     outs_of g sty pre (EvConn ce) = [Reply c (RConnectFail RsnOther) 0%N marshal_id; SockClosed c]) /\
  (forall m o cc, e_in ce = InMsg m -> denied_applies sty ce = false ->
     m_wf m = WfOk -> m_type m = t_connect -> m_ser_known m = true ->
     m_hs m = HsFull o -> m_val m = VRaise cc -> cc && q2 = false ->
     outs_of g sty pre (EvConn ce) = [Reply c (RConnectFail RsnValidator) (m_seq m) (m_ser m); SockClosed c]) /\
  (forall m n s, e_in ce = InMsg m -> denied_applies sty ce = false ->
     m_wf m = WfOk -> m_type m = t_connect -> m_ser_known m = true ->
     m_hs m = HsFull (ObjId n) -> reg_of_history reg_init pre n = false -> m_val m = VAccept s ->
     outs_of g sty pre (EvConn ce) = [Reply c (RConnectFail RsnUnknownObject) (m_seq m) (m_ser m); SockClosed c]) /\
  (forall m, e_in ce = InMsg m -> denied_applies sty ce = true -> m_wf m = WfOk -> m_type m = t_connect ->
     outs_of g sty pre (EvConn ce) = [Reply c (RConnectFail RsnDenied) (m_seq m) marshal_id; SockClosed c]) /\
  (e_in ce = InSilence ->
     outs_of g sty pre (EvConn ce) = [Reply c (RConnectFail RsnOther) 0%N marshal_id; SockClosed c]).
Proof. intros q1 q2 q3 sty. exact (failure_reason_carried (gen_cfg q1 q2 q3) sty (C08_gen_structure q1 q2 q3)). Qed.
Print Assumptions C08_failure_reason_carried.

(* The code as it is (two quirks repaired): every failing first event of a fresh connection is answered with
   exactly one CONNECTFAIL before the close — with the two honest exceptions: a peer that has already gone
   away cannot be answered, and the validator raising a BaseException-only class (see below). *)
Theorem C08_failed_handshake_always_answered : forall q3 sty pre ce c,
  let g := gen_cfg false false q3 in
  e_conn ce = c -> fresh g sty pre c -> is_accepted_connect g sty (reg_after g sty pre) ce = false ->
  peer_gone ce = false -> validator_aborts g sty ce = false ->
  exists r s i, outs_of g sty pre (EvConn ce) = [Reply c (RConnectFail r) s i; SockClosed c].
Proof.
  intros q3 sty.
  exact (failed_handshake_always_answered (gen_cfg false false q3) sty (C08_gen_structure false false q3) eq_refl eq_refl).
Qed.
Print Assumptions C08_failed_handshake_always_answered.

(* A peer that goes away before completing its first message is closed, nothing else. *)
Theorem C08_peer_gone_first : forall q1 q2 q3 sty pre ce c,
  e_conn ce = c -> fresh (gen_cfg q1 q2 q3) sty pre c -> e_in ce = InPeerGone ->
  outs_of (gen_cfg q1 q2 q3) sty pre (EvConn ce) = [SockClosed c].
Proof. intros q1 q2 q3 sty. exact (peer_gone_first (gen_cfg q1 q2 q3) sty (C08_gen_structure q1 q2 q3)). Qed.
Print Assumptions C08_peer_gone_first.

(* The validator raises SystemExit / KeyboardInterrupt (any BaseException that is not an Exception): what still
   holds — nothing is executed, neither for this event nor for anything the connection sends later (and, on the
   multiplex server, for nothing any connection sends later: the daemon's request loop has ended) — and what does
   not: no connect-failure is sent (the output contains no Reply), and on the thread server the socket is not
   closed either (the output is empty); on the multiplex server it is closed only when the class is a
   KeyboardInterrupt (loop() catches it and the dropped connection object's destructor closes the socket). *)
Theorem C08_validator_abort_outcome : forall q1 q2 q3 sty pre ce c,
  let g := gen_cfg q1 q2 q3 in
  e_conn ce = c -> fresh g sty pre c -> validator_aborts g sty ce = true ->
  (outs_of g sty pre (EvConn ce) = [] \/ outs_of g sty pre (EvConn ce) = [SockClosed c]) /\
  (sty = Thread -> outs_of g sty pre (EvConn ce) = []) /\
  (forall mid ce', e_conn ce' = c -> outs_of g sty (pre ++ EvConn ce :: mid) (EvConn ce') = []) /\
  (sty = Multiplex -> forall mid e', outs_of g sty (pre ++ EvConn ce :: mid) e' = []).
Proof. intros q1 q2 q3 sty. exact (validator_abort_outcome (gen_cfg q1 q2 q3) sty (C08_gen_structure q1 q2 q3)). Qed.
Print Assumptions C08_validator_abort_outcome.

(* A connection nobody wrote to that is nevertheless not fresh: only on the multiplex server, only after such a
   validator ended the request loop; nothing is served (hence nothing executed) for it. *)
Theorem C08_loop_killed_nothing_served : forall q1 q2 q3 sty pre c,
  let g := gen_cfg q1 q2 q3 in
  (forall x, In x pre -> ev_conn x <> Some c) -> ~ fresh g sty pre c ->
  sty = Multiplex /\ (exists ce, In (EvConn ce) pre /\ validator_aborts g sty ce = true) /\
  forall mid ce', e_conn ce' = c -> outs_of g sty (pre ++ mid) (EvConn ce') = [].
Proof. intros q1 q2 q3 sty. exact (loop_killed_nothing_served (gen_cfg q1 q2 q3) sty (C08_gen_structure q1 q2 q3)). Qed.
Print Assumptions C08_loop_killed_nothing_served.

(* The proxy's end of the handshake.  What a Proxy makes of the daemon's answer is a function of the answer alone —
   not of the serializer the proxy is configured with, nor of the one the daemon chose (its fallback serializer for early
   refusals: no free worker, unaccepted serializer id, malformed or missing first message): the answer's payload is read
   with the serializer named in the answer's own header. *)
Theorem C08_client_outcome_of_answer : forall q1 q2 q3 cs k s i,
  client_reads (gen_cfg q1 q2 q3) cs (Some (k, s, i)) =
  match k with RConnectOk => CConnected | RConnectFail r => CRejected r | _ => CProtocol end.
Proof. intros q1 q2 q3. exact (client_outcome_of_answer (gen_cfg q1 q2 q3) (C08_gen_structure q1 q2 q3)). Qed.
Print Assumptions C08_client_outcome_of_answer.

(* End to end: a proxy whose CONNECT (in its own serializer m_ser) is refused — for whatever reason, answered through
   whatever serializer — gets the rejection carrying the very reason the daemon put into its CONNECTFAIL. *)
Theorem C08_proxy_learns_reason : forall q3 sty pre ce c m,
  let g := gen_cfg false false q3 in
  e_conn ce = c -> fresh g sty pre c -> e_in ce = InMsg m ->
  is_accepted_connect g sty (reg_after g sty pre) ce = false -> validator_aborts g sty ce = false ->
  exists r s i, outs_of g sty pre (EvConn ce) = [Reply c (RConnectFail r) s i; SockClosed c] /\
    client_reads g (m_ser m) (answer_of c (outs_of g sty pre (EvConn ce))) = CRejected r.
Proof.
  intros q3 sty.
  exact (proxy_learns_reason (gen_cfg false false q3) sty (C08_gen_structure false false q3) eq_refl eq_refl).
Qed.
Print Assumptions C08_proxy_learns_reason.

Theorem C08_proxy_connected_iff_accepted : forall q1 q2 q3 sty pre ce c m,
  let g := gen_cfg q1 q2 q3 in
  e_conn ce = c -> fresh g sty pre c -> e_in ce = InMsg m ->
  is_accepted_connect g sty (reg_after g sty pre) ce = true ->
  client_reads g (m_ser m) (answer_of c (outs_of g sty pre (EvConn ce))) = CConnected.
Proof. intros q1 q2 q3 sty. exact (proxy_connected_iff_accepted (gen_cfg q1 q2 q3) sty (C08_gen_structure q1 q2 q3)). Qed.
Print Assumptions C08_proxy_connected_iff_accepted.

(* The defective variants: a failing first event that does not get "one CONNECTFAIL, then closed". *)
Definition wit_msg (known : bool) (o : N) (v : vb) : msg :=
  {| m_type := t_connect; m_wf := WfOk; m_ser := (if known then 1 else 99)%N; m_ser_known := known; m_seq := 7%N;
     m_oneway := false; m_hs := HsFull (ObjId o); m_call := CpFail DfKeep; m_val := v |}.
Definition ev (c : nat) (m : msg) : event := EvConn {| e_conn := c; e_in := InMsg m; e_denied := false |}.
Definition cev (c : nat) (m : msg) : cevent := {| e_conn := c; e_in := InMsg m; e_denied := false |}.

Theorem C08_silent_unknown_serializer_refuted :
  exists sty e, is_accepted_connect (gen_cfg true false false) sty reg_init e = false /\
    ~ exists r s i, outs_of (gen_cfg true false false) sty [] (EvConn e) = [Reply (e_conn e) (RConnectFail r) s i; SockClosed (e_conn e)].
Proof.
  exists Thread, (cev 0 (wit_msg false 0 (VAccept true))). split.
  - vm_compute. reflexivity.
  - intros (r & s & i & H). vm_compute in H. discriminate H.
Qed.
Print Assumptions C08_silent_unknown_serializer_refuted.

Theorem C08_silent_validator_connclosed_refuted :
  exists sty e, is_accepted_connect (gen_cfg false true false) sty reg_init e = false /\
    ~ exists r s i, outs_of (gen_cfg false true false) sty [] (EvConn e) = [Reply (e_conn e) (RConnectFail r) s i; SockClosed (e_conn e)].
Proof.
  exists Multiplex, (cev 0 (wit_msg true 0 (VRaise true))). split.
  - vm_compute. reflexivity.
  - intros (r & s & i & H). vm_compute in H. discriminate H.
Qed.
Print Assumptions C08_silent_validator_connclosed_refuted.

(* open finding: the code as it is (q3 = true), validator raising a BaseException-only class *)
Theorem C08_validator_baseexception_unanswered_refuted :
  forall sty, exists e, is_accepted_connect (gen_cfg false false true) sty reg_init e = false /\
    ~ exists r s i, outs_of (gen_cfg false false true) sty [] (EvConn e) = [Reply (e_conn e) (RConnectFail r) s i; SockClosed (e_conn e)].
Proof.
  intros sty. exists (cev 0 (wit_msg true 0 (VAbort false))). split.
  - destruct sty; vm_compute; reflexivity.
  - intros (r & s & i & H). destruct sty; vm_compute in H; discriminate H.
Qed.
Print Assumptions C08_validator_baseexception_unanswered_refuted.

(* non-vacuity: an accepted handshake followed by an executed call (application object and daemon object);
   a refused handshake with an INVOKE pipelined behind it that is not executed; two interleaved connections;
   a denied connection; a silent one; a peer that goes away; the BaseException outcome on both server types;
   the registry: connect to an id before it is registered, after, and after it was unregistered again while an
   older connection to it is still open *)
Definition ex_call (o : N) (t : target) (tok : N) : msg :=
  {| m_type := t_invoke; m_wf := WfOk; m_ser := 1%N; m_ser_known := true; m_seq := 3%N; m_oneway := false;
     m_hs := HsNoHandshakeKey; m_call := CpCall (Some o) t MReturns tok; m_val := VAccept true |}.
Definition reg1 : event := EvApp (Register 1%N).
Example C08_nonvacuous_exec :
  trace (gen_cfg false false true) Thread
    [ reg1; ev 0 (wit_msg true 1 (VAccept true)); ev 0 (ex_call 1 TUser 42%N); ev 0 (ex_call 0 TDaemon 43%N) ]
  = [Reply 0 RConnectOk 7%N 1%N; Exec 0 TUser 42%N; Reply 0 RResult 3%N 1%N; Exec 0 TDaemon 43%N; Reply 0 RResult 3%N 1%N].
Proof. vm_compute. reflexivity. Qed.
Example C08_nonvacuous_refused :
  trace (gen_cfg false false true) Multiplex
    [ reg1; ev 1 (wit_msg true 1 (VRaise false)); ev 0 (wit_msg true 1 (VAccept true));
      ev 1 (ex_call 1 TUser 5%N); ev 0 (ex_call 1 TUser 6%N) ]
  = [Reply 1 (RConnectFail RsnValidator) 7%N 1%N; SockClosed 1; Reply 0 RConnectOk 7%N 1%N;
     Exec 0 TUser 6%N; Reply 0 RResult 3%N 1%N].
Proof. vm_compute. reflexivity. Qed.
Example C08_nonvacuous_invoke_first :
  trace (gen_cfg false false true) Thread [ reg1; ev 0 (ex_call 0 TDaemon 9%N); ev 0 (ex_call 1 TUser 10%N) ]
  = [Reply 0 (RConnectFail RsnOther) 0%N marshal_id; SockClosed 0].
Proof. vm_compute. reflexivity. Qed.
Example C08_nonvacuous_transport :
  trace (gen_cfg false false true) Thread
    [ reg1; EvConn {| e_conn := 0; e_in := InMsg (wit_msg true 1 (VAccept true)); e_denied := true |}; ev 0 (ex_call 1 TUser 1%N);
      EvConn {| e_conn := 1; e_in := InSilence; e_denied := false |}; ev 1 (ex_call 1 TUser 2%N);
      EvConn {| e_conn := 2; e_in := InPeerGone; e_denied := false |};
      ev 3 (wit_msg true 1 (VAccept true)); EvConn {| e_conn := 3; e_in := InSilence; e_denied := false |}; ev 3 (ex_call 1 TUser 3%N) ]
  = [Reply 0 (RConnectFail RsnDenied) 7%N marshal_id; SockClosed 0;
     Reply 1 (RConnectFail RsnOther) 0%N marshal_id; SockClosed 1; SockClosed 2;
     Reply 3 RConnectOk 7%N 1%N; SockClosed 3].
Proof. vm_compute. reflexivity. Qed.
Example C08_nonvacuous_abort :
  trace (gen_cfg false false true) Thread
    [ reg1; ev 0 (wit_msg true 1 (VAccept true)); ev 1 (wit_msg true 1 (VAbort true)); ev 1 (ex_call 1 TUser 1%N); ev 0 (ex_call 1 TUser 2%N) ]
  = [Reply 0 RConnectOk 7%N 1%N; Exec 0 TUser 2%N; Reply 0 RResult 3%N 1%N] /\
  trace (gen_cfg false false true) Multiplex
    [ reg1; ev 0 (wit_msg true 1 (VAccept true)); ev 1 (wit_msg true 1 (VAbort false)); ev 1 (ex_call 1 TUser 1%N); ev 0 (ex_call 1 TUser 2%N) ]
  = [Reply 0 RConnectOk 7%N 1%N] /\
  trace (gen_cfg false false true) Multiplex
    [ reg1; ev 0 (wit_msg true 1 (VAccept true)); ev 1 (wit_msg true 1 (VAbort true)); ev 1 (ex_call 1 TUser 1%N); ev 0 (ex_call 1 TUser 2%N) ]
  = [Reply 0 RConnectOk 7%N 1%N; SockClosed 1].
Proof. repeat split; vm_compute; reflexivity. Qed.
Example C08_nonvacuous_registry :
  trace (gen_cfg false false true) Multiplex
    [ reg1; ev 0 (wit_msg true 2 (VAccept true));                       (* id 2 not registered yet: refused *)
      EvApp (Register 2%N); ev 1 (wit_msg true 2 (VAccept true)); ev 1 (ex_call 2 TUser 5%N);
      EvApp (UnregisterById 2%N);
      ev 2 (wit_msg true 2 (VAccept true)); ev 2 (ex_call 1 TUser 6%N);    (* a new peer naming the removed id: refused, nothing runs *)
      ev 1 (ex_call 2 TUser 7%N); ev 1 (ex_call 1 TUser 8%N) ]           (* the older connection: id 2 is gone, id 1 still served *)
  = [Reply 0 (RConnectFail RsnUnknownObject) 7%N 1%N; SockClosed 0;
     Reply 1 RConnectOk 7%N 1%N; Exec 1 TUser 5%N; Reply 1 RResult 3%N 1%N;
     Reply 2 (RConnectFail RsnUnknownObject) 7%N 1%N; SockClosed 2;
     Reply 1 RError 3%N 1%N; Exec 1 TUser 8%N; Reply 1 RResult 3%N 1%N].
Proof. vm_compute. reflexivity. Qed.

(* a serpent proxy refused by a full thread pool: the answer comes through marshal, the proxy still learns the reason *)
Example C08_nonvacuous_proxy :
  let e := {| e_conn := 0; e_in := InMsg (wit_msg true 1 (VAccept true)); e_denied := true |} in
  outs_of (gen_cfg false false true) Thread [reg1] (EvConn e) = [Reply 0 (RConnectFail RsnDenied) 7%N marshal_id; SockClosed 0] /\
  client_reads (gen_cfg false false true) 1%N (answer_of 0 (outs_of (gen_cfg false false true) Thread [reg1] (EvConn e))) = CRejected RsnDenied.
Proof. split; vm_compute; reflexivity. Qed.
