(* C08 — nothing is invoked on a connection before an accepted handshake.
   Property theorems only: each is closed by [exact] of a lemma of Proofs/HandshakeGate.v,
   instantiated at the configuration generated from the source on this run
   (Gen/GenHandshake.v: accepted message types of _handshake / handleRequest, the guards
   around the request loop / selector registration, the truthiness of _handshake's result).
   [gen_cfg q1 q2] is the machine the correspondence harness runs against the real daemon;
   q1/q2 are the two quirk switches (false false = the repaired behaviour). *)
From Coq Require Import List NArith Arith Bool.
Import ListNotations.
From V Require Import Model.HandshakeGate Proofs.HandshakeGate Gen.GenHandshake Gen.GenProtocol Harness.H08.

(* The structural facts, re-checked by computation over the tables extracted from the source:
   _handshake accepts exactly [MSG_CONNECT]; handleRequest accepts exactly [MSG_INVOKE; MSG_PING];
   thread server: request loop only under a truthy handleConnection, which is truthy only under a
   truthy _handshake; multiplex server: selector registration likewise; _handshake truthy only for CONNECTOK. *)
Theorem C08_gen_structure : forall q1 q2, cfg_ok (gen_cfg q1 q2) = true.
Proof. intros [] []; vm_compute; reflexivity. Qed.
Print Assumptions C08_gen_structure.

(* In every trace of every event list (any number of connections, any interleaving), on both
   server types and for every quirk variant: an execution on behalf of connection c is preceded
   by the CONNECTOK answer to c. *)
Theorem C08_no_exec_before_handshake : forall q1 q2 sty evs t1 c tok t2,
  trace (gen_cfg q1 q2) sty evs = t1 ++ Exec c tok :: t2 ->
  exists s i, In (Reply c RConnectOk s i) t1.
Proof. intros q1 q2 sty. exact (no_exec_before_handshake (gen_cfg q1 q2) sty (C08_gen_structure q1 q2)). Qed.
Print Assumptions C08_no_exec_before_handshake.

(* ... and CONNECTOK is only ever the answer to the connection's first event, when that is a
   well-formed CONNECT with a known serializer for a registered object which the validator accepted. *)
Theorem C08_connectok_only_for_accepted_connect : forall q1 q2 sty pre e c s i,
  In (Reply c RConnectOk s i) (outs_of (gen_cfg q1 q2) sty pre e) ->
  e_conn e = c /\ (forall x, In x pre -> e_conn x <> c) /\
  is_accepted_connect (gen_cfg q1 q2) (e_msg e) = true.
Proof. intros q1 q2 sty. exact (connectok_only_for_accepted_connect (gen_cfg q1 q2) sty (C08_gen_structure q1 q2)). Qed.
Print Assumptions C08_connectok_only_for_accepted_connect.

(* Event form: whatever is executed is executed for an INVOKE message of the connection itself,
   and that connection's first event was an accepted CONNECT (answered CONNECTOK). *)
Theorem C08_exec_needs_accepted_connect : forall q1 q2 sty pre e c tok,
  In (Exec c tok) (outs_of (gen_cfg q1 q2) sty pre e) ->
  e_conn e = c /\ m_type (e_msg e) = t_invoke /\
  exists p1 e0 p2, pre = p1 ++ e0 :: p2 /\ e_conn e0 = c /\
    (forall x, In x p1 -> e_conn x <> c) /\
    is_accepted_connect (gen_cfg q1 q2) (e_msg e0) = true /\
    outs_of (gen_cfg q1 q2) sty p1 e0 = [Reply c RConnectOk (m_seq (e_msg e0)) (m_ser (e_msg e0))].
Proof. intros q1 q2 sty. exact (exec_needs_accepted_connect (gen_cfg q1 q2) sty (C08_gen_structure q1 q2)). Qed.
Print Assumptions C08_exec_needs_accepted_connect.

(* A failing first event (anything that is not an accepted CONNECT): at most one reply, and it is a
   CONNECTFAIL; then the socket is closed; and no later event of that connection yields any reply
   or execution, whatever is pipelined behind. *)
Theorem C08_failed_handshake_closes : forall q1 q2 sty pre e c,
  e_conn e = c -> (forall x, In x pre -> e_conn x <> c) ->
  is_accepted_connect (gen_cfg q1 q2) (e_msg e) = false ->
  (exists rs, outs_of (gen_cfg q1 q2) sty pre e = rs ++ [SockClosed c] /\
              (rs = [] \/ exists r s i, rs = [Reply c (RConnectFail r) s i])) /\
  (forall mid e', e_conn e' = c -> outs_of (gen_cfg q1 q2) sty (pre ++ e :: mid) e' = []).
Proof. intros q1 q2 sty. exact (failed_handshake_closes (gen_cfg q1 q2) sty (C08_gen_structure q1 q2)). Qed.
Print Assumptions C08_failed_handshake_closes.

(* The failure answer carries the reason for the three causes the property names:
   (a) first message well-framed but not a CONNECT, (b) the validator raises, (c) unknown object. *)
Theorem C08_failure_reason_carried : forall q1 q2 sty pre e c,
  e_conn e = c -> (forall x, In x pre -> e_conn x <> c) ->
  let g := gen_cfg q1 q2 in
  let m := e_msg e in
  (m_wf m <> WfBadHeader -> m_type m <> t_connect ->
     outs_of g sty pre e = [Reply c (RConnectFail RsnOther) 0%N marshal_id; SockClosed c]) /\
  (forall o cc, m_wf m = WfOk -> m_type m = t_connect -> m_ser_known m = true ->
     m_hs m = HsFull o -> m_val m = VRaise cc -> cc && q2 = false ->
     outs_of g sty pre e = [Reply c (RConnectFail RsnValidator) (m_seq m) (m_ser m); SockClosed c]) /\
  (forall s, m_wf m = WfOk -> m_type m = t_connect -> m_ser_known m = true ->
     m_hs m = HsFull ObjUnknown -> m_val m = VAccept s ->
     outs_of g sty pre e = [Reply c (RConnectFail RsnUnknownObject) (m_seq m) (m_ser m); SockClosed c]).
Proof. intros q1 q2 sty. exact (failure_reason_carried (gen_cfg q1 q2) sty (C08_gen_structure q1 q2)). Qed.
Print Assumptions C08_failure_reason_carried.

(* Repaired behaviour (both quirks off): EVERY failing first event is answered with exactly one
   CONNECTFAIL before the close. *)
Theorem C08_failed_handshake_always_answered : forall sty pre e c,
  e_conn e = c -> (forall x, In x pre -> e_conn x <> c) ->
  is_accepted_connect (gen_cfg false false) (e_msg e) = false ->
  exists r s i, outs_of (gen_cfg false false) sty pre e = [Reply c (RConnectFail r) s i; SockClosed c].
Proof.
  intros sty.
  exact (failed_handshake_always_answered (gen_cfg false false) sty (C08_gen_structure false false) eq_refl eq_refl).
Qed.
Print Assumptions C08_failed_handshake_always_answered.

(* The two defective variants (findings of C08): a failing first event that is closed without any answer. *)
Definition wit_msg (known : bool) (v : vb) : msg :=
  {| m_type := t_connect; m_wf := WfOk; m_ser := (if known then 1 else 99)%N; m_ser_known := known; m_seq := 7%N;
     m_oneway := false; m_hs := HsFull ObjKnown; m_call := CpFail DfKeep; m_val := v |}.

Theorem C08_silent_unknown_serializer_refuted :
  exists sty e, is_accepted_connect (gen_cfg true false) (e_msg e) = false /\
    ~ exists r s i, outs_of (gen_cfg true false) sty [] e = [Reply (e_conn e) (RConnectFail r) s i; SockClosed (e_conn e)].
Proof.
  exists Thread, {| e_conn := 0; e_msg := wit_msg false (VAccept true) |}. split.
  - vm_compute. reflexivity.
  - intros (r & s & i & H). vm_compute in H. discriminate H.
Qed.
Print Assumptions C08_silent_unknown_serializer_refuted.

Theorem C08_silent_validator_connclosed_refuted :
  exists sty e, is_accepted_connect (gen_cfg false true) (e_msg e) = false /\
    ~ exists r s i, outs_of (gen_cfg false true) sty [] e = [Reply (e_conn e) (RConnectFail r) s i; SockClosed (e_conn e)].
Proof.
  exists Multiplex, {| e_conn := 0; e_msg := wit_msg true (VRaise true) |}. split.
  - vm_compute. reflexivity.
  - intros (r & s & i & H). vm_compute in H. discriminate H.
Qed.
Print Assumptions C08_silent_validator_connclosed_refuted.

(* non-vacuity: an accepted handshake followed by an executed call; a refused handshake with an
   INVOKE pipelined behind it that is not executed; two interleaved connections *)
Definition ex_call (tok : N) : msg :=
  {| m_type := t_invoke; m_wf := WfOk; m_ser := 1%N; m_ser_known := true; m_seq := 3%N; m_oneway := false;
     m_hs := HsNoHandshakeKey; m_call := CpCall true MReturns tok; m_val := VAccept true |}.
Example C08_nonvacuous_exec :
  trace (gen_cfg false false) Thread
    [ {| e_conn := 0; e_msg := wit_msg true (VAccept true) |}; {| e_conn := 0; e_msg := ex_call 42%N |} ]
  = [Reply 0 RConnectOk 7%N 1%N; Exec 0 42%N; Reply 0 RResult 3%N 1%N].
Proof. vm_compute. reflexivity. Qed.
Example C08_nonvacuous_refused :
  trace (gen_cfg false false) Multiplex
    [ {| e_conn := 1; e_msg := wit_msg true (VRaise false) |}; {| e_conn := 0; e_msg := wit_msg true (VAccept true) |};
      {| e_conn := 1; e_msg := ex_call 5%N |}; {| e_conn := 0; e_msg := ex_call 6%N |} ]
  = [Reply 1 (RConnectFail RsnValidator) 7%N 1%N; SockClosed 1; Reply 0 RConnectOk 7%N 1%N;
     Exec 0 6%N; Reply 0 RResult 3%N 1%N].
Proof. vm_compute. reflexivity. Qed.
Example C08_nonvacuous_invoke_first :
  trace (gen_cfg false false) Thread [ {| e_conn := 0; e_msg := ex_call 9%N |}; {| e_conn := 0; e_msg := ex_call 10%N |} ]
  = [Reply 0 (RConnectFail RsnOther) 0%N marshal_id; SockClosed 0].
Proof. vm_compute. reflexivity. Qed.
