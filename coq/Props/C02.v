(* C02 — property theorems only.  Each is closed by [exact] of a lemma from Proofs/Expose.v or
   Proofs/ExposeGen.v; the privacy predicate is the function generated from Pyro5/server.py
   (Gen/GenServer.v), except where a theorem holds for every predicate.  [serve] is the model of
   Daemon.handleRequest's dispatch (the function the correspondence harness runs against the
   code); [quirks_none] is the repaired behaviour (fixes/C02_*.diff). *)
From Coq Require Import List NArith Arith Bool.
Import ListNotations.
From V Require Import Model.StrFun Model.Expose Gen.GenServer Proofs.Expose Proofs.ExposeGen.

(* Whatever names a peer sends, in any of the request kinds (oneway or not): a member accessor that
   runs belongs to the shape, was named by the request, has a non-private name, is a method (for
   call/batch) or the getter/setter of a property (for attribute read/write), and was explicitly
   exposed — by @expose on itself or on the very class that defines it.  Holds for every privacy
   predicate, every shape (no well-formedness needed), every list of names incl. non-strings. *)
Theorem C02_gate_sound : forall (is_private : text -> bool) s r m a,
  In (m, a) (fst (serve is_private quirks_none s r)) ->
  In m (s_members s) /\ In (NStr (m_name m)) (r_names r) /\ is_private (m_name m) = false /\
  acc_fits (r_kind r) a m /\ explicitly_exposed is_private s m.
Proof. exact gate_sound. Qed.
Print Assumptions C02_gate_sound.

(* Every call / oneway call / attribute read / attribute write is either refused — no member code
   runs and the reply is an error, or nothing at all for a oneway request — or runs exactly one
   accessor once and is answered with a result (nothing for oneway). *)
Theorem C02_refused_or_served : forall (is_private : text -> bool) s k ow n,
  k <> RBatch ->
  let r := {| r_kind := k; r_oneway := ow; r_names := [n] |} in
  serve is_private quirks_none s r = ([], reply_refused ow) \/
  exists m a, serve is_private quirks_none s r = ([(m, a)], reply_ok ow).
Proof. exact single_dichotomy. Qed.
Print Assumptions C02_refused_or_served.

(* Conversely, a request the property allows (the name denotes, by Python attribute resolution, an
   explicitly exposed non-private method resp. property with the needed accessor) is served. *)
Theorem C02_exposed_served : forall (is_private : text -> bool) s k ow t m a,
  k <> RBatch -> may_serve is_private s k t m a ->
  serve is_private quirks_none s {| r_kind := k; r_oneway := ow; r_names := [NStr t] |} = ([(m, a)], reply_ok ow).
Proof. exact exposed_served. Qed.
Print Assumptions C02_exposed_served.

(* A batch behaves as the sequence of its single calls cut after the longest prefix of served names:
   a refused member runs nothing, ends the batch, and the batch is answered with an error. *)
Theorem C02_batch_as_calls : forall (is_private : text -> bool) s names,
  fst (serve_batch is_private quirks_none s names) =
    flat_map (fun n => fst (serve_call is_private quirks_none s n)) (ok_prefix is_private s names) /\
  snd (serve_batch is_private quirks_none s names) = forallb (call_ok is_private s) names.
Proof. exact batch_as_calls. Qed.
Print Assumptions C02_batch_as_calls.

(* The advertised member lists are exactly the served names (shapes in which no instance attribute
   hides a class member; every property has a getter or a setter). *)
Theorem C02_metadata_methods_exact : forall (is_private : text -> bool) s n,
  no_shadow s = true ->
  (In n (meta_methods is_private s) <->
   exists m, serve is_private quirks_none s {| r_kind := RCall; r_oneway := false; r_names := [NStr n] |} = ([(m, ACall)], RepResult)).
Proof. exact meta_methods_exact. Qed.
Print Assumptions C02_metadata_methods_exact.

Theorem C02_metadata_attrs_exact : forall (is_private : text -> bool) s n,
  props_have_accessor s = true ->
  (In n (meta_attrs is_private s) <->
   (exists m, serve is_private quirks_none s {| r_kind := RGet; r_oneway := false; r_names := [NStr n] |} = ([(m, AGet)], RepResult)) \/
   (exists m, serve is_private quirks_none s {| r_kind := RSet; r_oneway := false; r_names := [NStr n] |} = ([(m, ASet)], RepResult))).
Proof. exact meta_attrs_exact. Qed.
Print Assumptions C02_metadata_attrs_exact.

Theorem C02_metadata_oneway_subset : forall (is_private : text -> bool) s,
  incl (meta_oneway is_private s) (meta_methods is_private s).
Proof. exact meta_oneway_methods. Qed.
Print Assumptions C02_metadata_oneway_subset.

(* The predicate generated from is_private_attribute in the current source is exactly "reserved
   dunder name, or leading underscore and not of the form __x__ (longer than four characters)". *)
Theorem C02_private_exact : forall n,
  is_private_attribute n =
  t_mem n private_dunder_methods || (t_startswith n [95%N] && negb (dunder_shaped n)).
Proof. exact is_private_exact. Qed.
Print Assumptions C02_private_exact.

(* Every reserved dunder name of the pinned tree is still in the list generated from the source. *)
Theorem C02_reserved_baseline_included :
  forallb (fun n => t_mem n private_dunder_methods) reserved_baseline = true.
Proof. exact baseline_included. Qed.
Print Assumptions C02_reserved_baseline_included.

(* With the generated predicate: no reserved name (generated or pinned) and no _x name is ever
   served, for any shape and any request, and none is ever advertised. *)
Theorem C02_reserved_never_served : forall s r m a,
  In (m, a) (fst (serve is_private_attribute quirks_none s r)) ->
  ~ In (m_name m) private_dunder_methods /\ ~ In (m_name m) reserved_baseline /\
  ~ (t_startswith (m_name m) [95%N] = true /\ dunder_shaped (m_name m) = false).
Proof. exact served_name_public. Qed.
Print Assumptions C02_reserved_never_served.

Theorem C02_reserved_never_advertised : forall s n,
  In n private_dunder_methods \/ In n reserved_baseline \/ (t_startswith n [95%N] = true /\ dunder_shaped n = false) ->
  ~ In n (meta_methods is_private_attribute s) /\ ~ In n (meta_attrs is_private_attribute s) /\
  ~ In n (meta_oneway is_private_attribute s).
Proof. exact private_name_unadvertised. Qed.
Print Assumptions C02_reserved_never_advertised.

(* The two deviations of the unrepaired code violate gate soundness on their recorded witnesses:
   a call naming an unexposed property runs its getter; an attribute read reaches a property bound
   to a private name. *)
Theorem C02_call_runs_unexposed_getter_refuted :
  In (w_secret, AGet) (fst (serve is_private_attribute q_getter_only w1_shape w1_request)) /\
  ~ explicitly_exposed is_private_attribute w1_shape w_secret.
Proof. exact call_getter_refuted. Qed.
Print Assumptions C02_call_runs_unexposed_getter_refuted.

Theorem C02_private_property_served_refuted :
  In (w_hidden, AGet) (fst (serve is_private_attribute q_private_only w2_shape w2_request)) /\
  is_private_attribute (m_name w_hidden) = true.
Proof. exact private_property_refuted. Qed.
Print Assumptions C02_private_property_served_refuted.

(* non-vacuity: an inherited method of an exposed base class is served (oneway: no reply); an own-marked
   getter-only property is read but not written; the hypotheses of the metadata theorems hold of the shape *)
Example C02_nonvacuous_served :
  serve is_private_attribute quirks_none w3_shape {| r_kind := RCall; r_oneway := true; r_names := [NStr (m_name w_run)] |}
    = ([(w_run, ACall)], RepNone) /\
  serve is_private_attribute quirks_none w3_shape {| r_kind := RGet; r_oneway := false; r_names := [NStr (m_name w_value)] |}
    = ([(w_value, AGet)], RepResult) /\
  serve is_private_attribute quirks_none w3_shape {| r_kind := RSet; r_oneway := false; r_names := [NStr (m_name w_value)] |}
    = ([], RepError) /\
  serve is_private_attribute quirks_none w3_shape {| r_kind := RBatch; r_oneway := false;
      r_names := [NStr (m_name w_ping); NStr (m_name w_secret); NStr (m_name w_run)] |} = ([(w_ping, ACall)], RepError).
Proof. vm_compute. repeat split; reflexivity. Qed.
Example C02_nonvacuous_metadata :
  no_shadow w3_shape = true /\ props_have_accessor w3_shape = true /\
  meta_methods is_private_attribute w3_shape = [m_name w_ping; m_name w_run] /\
  meta_attrs is_private_attribute w3_shape = [m_name w_value] /\
  meta_oneway is_private_attribute w3_shape = [m_name w_run].
Proof. vm_compute. repeat split; reflexivity. Qed.
Example C02_nonvacuous_may_serve :
  may_serve is_private_attribute w3_shape RCall (m_name w_run) w_run ACall.
Proof.
  unfold may_serve. split; [vm_compute; reflexivity|]. split; [vm_compute; reflexivity|].
  split; [simpl; auto|]. right. reflexivity.
Qed.
