(* C02 — property theorems only.  Each is closed by [exact] of a lemma from Proofs/Expose.v or
   Proofs/ExposeGen.v; the privacy predicate is the function generated from Pyro5/server.py
   (Gen/GenServer.v), except where a theorem holds for every predicate.  [serve] is the model of
   Daemon.handleRequest's dispatch (the function the correspondence harness runs against the code).
   [quirks_none] is the behaviour the property demands; [quirks_asis] is today's code: the two repaired
   deviations off, the two open ones (callable exposed helper objects, attribute hooks) on.  Class
   shapes: methods / static / class methods, properties with getter, setter, deleter each present or
   not and @expose on the property object or on single accessor functions, class and instance
   attributes, helper objects (class exposed or not, callable or not), the class's own
   __getattr__/__getattribute__, each defined in the base class or the registered subclass, with
   class-level @expose on either. *)
From Coq Require Import List NArith Arith Bool.
Import ListNotations.
From V Require Import Model.StrFun Model.Expose Gen.GenServer Proofs.Expose Proofs.ExposeGen.

(* Whatever names a peer sends, in any of the request kinds (oneway or not): a member accessor that
   runs belongs to the shape, was named by the request, has a non-private name, is a method (for
   call/batch) or the getter/setter of a property (for attribute read/write), and was explicitly
   exposed — @expose on itself (function, property object or one of its accessor functions, accepted
   only for a non-private function) or on the very class that defines it.  Nothing of a helper
   object and no attribute hook runs.  For every privacy predicate, every shape (no
   well-formedness needed), every list of names incl. non-strings. *)
Theorem C02_gate_sound : forall (is_private : text -> bool) s r m a,
  In (m, a) (fst (serve is_private quirks_none s r)) ->
  In m (s_members s) /\ In (NStr (m_name m)) (r_names r) /\ is_private (m_name m) = false /\
  acc_fits (r_kind r) a m /\ explicitly_exposed is_private s m.
Proof. exact gate_sound. Qed.
Print Assumptions C02_gate_sound.

(* Today's code, for every shape: whatever runs is legitimate in the above sense, or it is exactly one
   of the two open deviations — (a) the __call__ of a helper object, only when a call/batch names, by
   a non-private name, an instance attribute holding a callable instance of a class that carries
   @expose; (b) the class's own __getattribute__/__getattr__, only during a call/batch and only on
   behalf of a requested non-private string name.  In particular attribute reads/writes, private and
   reserved names, non-strings, dotted paths, non-callable or unexposed helpers reach nothing else. *)
Theorem C02_gate_sound_asis : forall (is_private : text -> bool) s r m a,
  In (m, a) (fst (serve is_private quirks_asis s r)) ->
  legit is_private s (r_kind r) (r_names r) m a \/
  (a = AHelper /\ helper_boundary is_private s (r_kind r) (r_names r) m) \/
  (a = AHook /\ hook_boundary is_private s (r_kind r) (r_names r) m).
Proof. exact gate_sound_asis. Qed.
Print Assumptions C02_gate_sound_asis.

(* On shapes without attribute hooks and without a callable helper of an exposed class, today's code
   (any variant with the two repairs) IS the property's behaviour, request for request. *)
Theorem C02_asis_is_exact_on_plain_shapes : forall (is_private : text -> bool) q s r,
  repaired q -> indexed q -> plain_shape s = true -> serve is_private q s r = serve is_private quirks_none s r.
Proof. exact plain_agrees. Qed.
Print Assumptions C02_asis_is_exact_on_plain_shapes.

(* Every call / oneway call / attribute read / attribute write is either refused — no code runs and
   the reply is an error, or nothing at all for a oneway request — or runs exactly one accessor once
   and is answered with a result (nothing for oneway). *)
Theorem C02_refused_or_served : forall (is_private : text -> bool) s k ow n,
  k <> RBatch ->
  let r := (mkreq k ow [n]) in
  serve is_private quirks_none s r = ([], reply_refused ow) \/
  exists m a, serve is_private quirks_none s r = ([(m, a)], reply_ok ow).
Proof. exact single_dichotomy. Qed.
Print Assumptions C02_refused_or_served.

(* Conversely, a request the property allows (the name denotes, by Python attribute resolution, a
   non-private method resp. property with the needed accessor, exposed by Pyro5's rule: mark on the
   function / on the property's first accessor / on the defining class) is served.  A property marked
   only on a later accessor (e.g. only on its setter while it has a getter) is neither served nor
   advertised: exposure that has no effect, never the other way round (C02_gate_sound). *)
Theorem C02_exposed_served : forall (is_private : text -> bool) s k ow t m a,
  k <> RBatch -> may_serve is_private s k t m a ->
  serve is_private quirks_none s (mkreq k ow [NStr t]) = ([(m, a)], reply_ok ow).
Proof. exact exposed_served. Qed.
Print Assumptions C02_exposed_served.

(* A batch, in every variant, is the sequence of its single calls up to and including the first member
   that is not served, and is answered with a result iff all members are served; under the property's
   behaviour the member that is not served contributes no effect. *)
Theorem C02_batch_as_calls : forall (is_private : text -> bool) q s names,
  fst (serve_batch is_private q s names) =
    flat_map (fun n => fst (serve_call is_private q s n)) (tried is_private q s names) /\
  snd (serve_batch is_private q s names) = forallb (call_ok is_private q s) names.
Proof. exact batch_as_calls. Qed.
Print Assumptions C02_batch_as_calls.

Theorem C02_batch_refused_member_no_effect : forall (is_private : text -> bool) s n,
  call_ok is_private quirks_none s n = false -> fst (serve_call is_private quirks_none s n) = [].
Proof. exact refused_call_no_effect. Qed.
Print Assumptions C02_batch_refused_member_no_effect.

(* The shape of the request beyond the member name never matters: with surplus positional arguments of any
   value and any keyword arguments a request is decided exactly like the request without them (every variant
   that has the repairs, incl. today's code; for all five kinds) — so the theorems stated for well-formed
   requests (mkreq) hold for every argument tuple — and an attribute request lacking its name (or its value)
   is refused in every variant.  The handler's call form (arguments taken by index, no *vargs / **kwargs,
   helpers with exactly one trailing only_exposed=True parameter) is re-extracted from the source each run. *)
Theorem C02_surplus_arguments_ignored : forall (is_private : text -> bool) q s r,
  indexed q -> serve is_private q s r = serve is_private q s (strip_surplus r).
Proof. exact surplus_ignored. Qed.
Print Assumptions C02_surplus_arguments_ignored.

(* For every safe call form — arguments taken by index, with or without an argument-count check, separately for reads
   and writes — the gate's decision does not depend on the surplus: the request is decided like the one without
   surplus arguments, or it is refused with no effect.  Surplus never widens access. *)
Theorem C02_surplus_never_widens_access : forall (is_private : text -> bool) q s r,
  repaired q ->
  serve is_private q s r = serve is_private q s (strip_surplus r) \/
  serve is_private q s r = ([], reply_refused (r_oneway r)).
Proof. exact surplus_never_widens. Qed.
Print Assumptions C02_surplus_never_widens_access.

Theorem C02_missing_arguments_refused : forall (is_private : text -> bool) q s r,
  r_missing r = true -> r_kind r = RGet \/ r_kind r = RSet ->
  serve is_private q s r = ([], reply_refused (r_oneway r)).
Proof. exact missing_refused. Qed.
Print Assumptions C02_missing_arguments_refused.

Theorem C02_attr_arguments_indexed :
  attr_requests_index_arguments = true /\ repaired quirks_asis /\ indexed quirks_asis /\ repaired quirks_none.
Proof. exact (conj attr_arguments_indexed (conj repaired_asis (conj indexed_asis repaired_none))). Qed.
Print Assumptions C02_attr_arguments_indexed.

(* seeded change C02_6 as a variant of the model: *vargs lets __getattr__ (name, False) bind only_exposed=False —
   the getter of an unexposed property runs, while the same request without the surplus argument is refused *)
Theorem C02_star_args_widen_access_refuted :
  serve is_private_attribute q_star_only w1_shape w7_request = ([(w_secret, AGet)], RepResult) /\
  ~ explicitly_exposed is_private_attribute w1_shape w_secret /\
  serve is_private_attribute q_star_only w1_shape (strip_surplus w7_request) = ([], RepError).
Proof. exact star_args_refuted. Qed.
Print Assumptions C02_star_args_widen_access_refuted.

(* The advertised member lists are exactly the served names (shapes in which no instance attribute
   hides a class member; every property has a getter or a setter). *)
Theorem C02_metadata_methods_exact : forall (is_private : text -> bool) s n,
  no_shadow s = true ->
  (In n (meta_methods is_private s) <->
   exists m, serve is_private quirks_none s (mkreq RCall false [NStr n]) = ([(m, ACall)], RepResult)).
Proof. exact meta_methods_exact. Qed.
Print Assumptions C02_metadata_methods_exact.

Theorem C02_metadata_methods_exact_asis : forall (is_private : text -> bool) s n,
  plain_shape s = true -> no_shadow s = true ->
  (In n (meta_methods is_private s) <->
   exists m, serve is_private quirks_asis s (mkreq RCall false [NStr n]) = ([(m, ACall)], RepResult)).
Proof. exact meta_methods_exact_asis. Qed.
Print Assumptions C02_metadata_methods_exact_asis.

Theorem C02_metadata_attrs_exact : forall (is_private : text -> bool) s n,
  props_have_accessor s = true ->
  (In n (meta_attrs is_private s) <->
   (exists m, serve is_private quirks_none s (mkreq RGet false [NStr n]) = ([(m, AGet)], RepResult)) \/
   (exists m, serve is_private quirks_none s (mkreq RSet false [NStr n]) = ([(m, ASet)], RepResult))).
Proof. exact meta_attrs_exact. Qed.
Print Assumptions C02_metadata_attrs_exact.

Theorem C02_metadata_oneway_subset : forall (is_private : text -> bool) s,
  incl (meta_oneway is_private s) (meta_methods is_private s).
Proof. exact meta_oneway_methods. Qed.
Print Assumptions C02_metadata_oneway_subset.

(* Several classes (possibly carrying the same name) and several registered objects in one daemon: after ANY
   sequence of get_metadata calls, every answer that is given is the member list of the class of the object that was
   asked about — a function of the class only, never a partially filled list — also when a scan is aborted because a
   class attribute raises while it is inspected (then there is no answer and nothing is remembered; a later call scans
   again) and when get_metadata is re-entered from inside a running scan; provided the cache key distinguishes classes.
   Without raising attributes every call is answered.  The source keys the cache by the class object and fills it only
   after the scan has completed (generated facts, third theorem). *)
Theorem C02_metadata_history_exact : forall (is_private : text -> bool) key classes objs hist,
  injective key ->
  Forall2 (fun o a => match a with Some md => md = meta_of is_private (shape_of classes objs o) | None => True end)
          hist (run_metadata is_private key classes ms_empty (map (class_of objs) hist)).
Proof. exact metadata_history_exact. Qed.
Print Assumptions C02_metadata_history_exact.

Theorem C02_metadata_history_answered : forall (is_private : text -> bool) key classes objs hist,
  injective key -> no_raisers classes ->
  run_metadata is_private key classes ms_empty (map (class_of objs) hist) =
  map (fun o => Some (meta_of is_private (shape_of classes objs o))) hist.
Proof. exact metadata_history_answered. Qed.
Print Assumptions C02_metadata_history_answered.

Theorem C02_metadata_cache_keyed_by_class :
  metadata_cache_keyed_by_class = true /\ metadata_cache_stored_after_scan = true /\ injective (fun k : nat => k).
Proof. exact (conj cache_keyed_by_class (conj cache_stored_after_scan id_injective)). Qed.
Print Assumptions C02_metadata_cache_keyed_by_class.

(* A property accessor runs only under the first-accessor rule: the property's deciding accessor function (getter, else
   setter, else deleter) carries an explicit mark — put there for this property, or because that very function is exposed
   in its own right — or the defining class is exposed.  A mark on a LATER accessor (e.g. a setter that is also an
   exposed method, or an accessor taken over from an exposed base property) never makes the property readable, writable
   or advertised (seeded change C02_8 on its witness). *)
Theorem C02_property_first_accessor_rule : forall (is_private : text -> bool) q s r m a,
  repaired q -> In (m, a) (fst (serve is_private q s r)) -> a = AGet \/ a = ASet -> exposed_by_rule is_private s m.
Proof. exact accessor_rule. Qed.
Print Assumptions C02_property_first_accessor_rule.

Theorem C02_later_accessor_mark_not_enough :
  serve is_private_attribute quirks_asis w8_shape (mkreq RGet false [NStr (m_name w_target)]) = ([], RepError) /\
  serve is_private_attribute quirks_asis w8_shape (mkreq RSet false [NStr (m_name w_target)]) = ([], RepError) /\
  meta_attrs is_private_attribute w8_shape = [] /\
  ~ exposed_by_rule is_private_attribute w8_shape w_target.
Proof. exact later_accessor_mark_not_enough. Qed.
Print Assumptions C02_later_accessor_mark_not_enough.

(* The predicate generated from is_private_attribute in the current source is exactly "reserved
   dunder name, or leading underscore and not of the form __x__ (longer than four characters)". *)
Theorem C02_private_exact : forall n,
  is_private_attribute n =
  t_mem n private_dunder_methods || (t_startswith n [95%N] && negb (dunder_shaped n)).
Proof. exact is_private_exact. Qed.
Print Assumptions C02_private_exact.

(* Every reserved dunder name of the pinned tree is still in the list generated from the source. *)
Theorem C02_reserved_baseline_included :
  forallb (fun n => t_mem n private_dunder_methods) reserved_baseline = true.
Proof. exact baseline_included. Qed.
Print Assumptions C02_reserved_baseline_included.

(* With the generated predicate: no reserved name (generated or pinned) and no _x name is ever
   served, for any shape and any request — also in today's code, where even the helper object that
   gets called is never reached through such a name — and none is ever advertised. *)
Theorem C02_reserved_never_served : forall s r m a,
  In (m, a) (fst (serve is_private_attribute quirks_none s r)) ->
  ~ In (m_name m) private_dunder_methods /\ ~ In (m_name m) reserved_baseline /\
  ~ (t_startswith (m_name m) [95%N] = true /\ dunder_shaped (m_name m) = false).
Proof. exact served_name_public. Qed.
Print Assumptions C02_reserved_never_served.

Theorem C02_reserved_never_served_asis : forall s r m a,
  In (m, a) (fst (serve is_private_attribute quirks_asis s r)) -> a <> AHook ->
  ~ In (m_name m) private_dunder_methods /\ ~ In (m_name m) reserved_baseline /\
  ~ (t_startswith (m_name m) [95%N] = true /\ dunder_shaped (m_name m) = false).
Proof. exact served_name_public_asis. Qed.
Print Assumptions C02_reserved_never_served_asis.

Theorem C02_reserved_never_advertised : forall s n,
  In n private_dunder_methods \/ In n reserved_baseline \/ (t_startswith n [95%N] = true /\ dunder_shaped n = false) ->
  ~ In n (meta_methods is_private_attribute s) /\ ~ In n (meta_attrs is_private_attribute s) /\
  ~ In n (meta_oneway is_private_attribute s).
Proof. exact private_name_unadvertised. Qed.
Print Assumptions C02_reserved_never_advertised.

(* The deviations, each on its recorded witness.  Repaired in /repo (kept as regression watch): a call
   naming an unexposed property ran its getter; an attribute read reached a property bound to a
   private name.  Open: a plain attribute holding a callable instance of an @expose'd class is called;
   a call naming a non-existent member runs the class's own __getattr__. *)
Theorem C02_call_runs_unexposed_getter_refuted :
  In (w_secret, AGet) (fst (serve is_private_attribute q_getter_only w1_shape w1_request)) /\
  ~ explicitly_exposed is_private_attribute w1_shape w_secret.
Proof. exact call_getter_refuted. Qed.
Print Assumptions C02_call_runs_unexposed_getter_refuted.

Theorem C02_private_property_served_refuted :
  In (w_hidden, AGet) (fst (serve is_private_attribute q_private_only w2_shape w2_request)) /\
  is_private_attribute (m_name w_hidden) = true.
Proof. exact private_property_refuted. Qed.
Print Assumptions C02_private_property_served_refuted.

Theorem C02_callable_helper_called_refuted :
  serve is_private_attribute q_helper_only w4_shape w4_request = ([(w_tool, AHelper)], RepResult) /\
  ~ legit is_private_attribute w4_shape RCall (r_names w4_request) w_tool AHelper.
Proof. exact helper_called_refuted. Qed.
Print Assumptions C02_callable_helper_called_refuted.

Theorem C02_attribute_hook_runs_refuted :
  serve is_private_attribute q_hooks_only w5_shape w5_request = ([(w_getattr, AHook)], RepError) /\
  ~ legit is_private_attribute w5_shape RCall (r_names w5_request) w_getattr AHook.
Proof. exact hook_ran_refuted. Qed.
Print Assumptions C02_attribute_hook_runs_refuted.

(* non-vacuity *)
Example C02_nonvacuous_served :
  serve is_private_attribute quirks_none w3_shape (mkreq RCall true [NStr (m_name w_run)])
    = ([(w_run, ACall)], RepNone) /\
  serve is_private_attribute quirks_none w3_shape (mkreq RGet false [NStr (m_name w_value)])
    = ([(w_value, AGet)], RepResult) /\
  serve is_private_attribute quirks_none w3_shape (mkreq RSet false [NStr (m_name w_value)])
    = ([], RepError) /\
  serve is_private_attribute quirks_none w3_shape (mkreq RBatch false
      [NStr (m_name w_ping); NStr (m_name w_secret); NStr (m_name w_run)]) = ([(w_ping, ACall)], RepError).
Proof. vm_compute. repeat split; reflexivity. Qed.
Example C02_nonvacuous_metadata :
  no_shadow w3_shape = true /\ props_have_accessor w3_shape = true /\ plain_shape w3_shape = true /\
  meta_methods is_private_attribute w3_shape = [m_name w_ping; m_name w_run] /\
  meta_attrs is_private_attribute w3_shape = [m_name w_value] /\
  meta_oneway is_private_attribute w3_shape = [m_name w_run].
Proof. vm_compute. repeat split; reflexivity. Qed.
Example C02_nonvacuous_may_serve :
  may_serve is_private_attribute w3_shape RCall (m_name w_run) w_run ACall.
Proof.
  unfold may_serve. split; [vm_compute; reflexivity|]. split; [vm_compute; reflexivity|].
  split; [simpl; auto|]. right. left. split; [reflexivity|exact I].
Qed.
(* a property exposed only on its setter function while it has a getter: explicitly exposed in the property's sense,
   not by Pyro5's first-accessor rule — neither read, written nor advertised *)
Example C02_nonvacuous_setter_only :
  explicitly_exposed is_private_attribute w6_shape w_lvl /\ ~ exposed_by_rule is_private_attribute w6_shape w_lvl /\
  serve is_private_attribute quirks_asis w6_shape (mkreq RSet false [NStr (m_name w_lvl)]) = ([], RepError) /\
  meta_attrs is_private_attribute w6_shape = [].
Proof.
  split. { left. split; vm_compute; reflexivity. }
  split. { unfold exposed_by_rule. simpl. intros [[H _]|[[H _]|H]]; discriminate. }
  vm_compute. split; reflexivity.
Qed.
(* the same two classes asked in both orders: each answer is its own class's list; keyed by name it is not.
   A class attribute that raises once: first call unanswered, second call answered in full; always: never answered *)
Example C02_nonvacuous_history :
  run_metadata is_private_attribute (fun k => k) [w1_shape; w3_shape] ms_empty (map (class_of [0; 1; 0]) [1; 0; 2; 1])
    = [Some (meta_of is_private_attribute w3_shape); Some (meta_of is_private_attribute w1_shape);
       Some (meta_of is_private_attribute w1_shape); Some (meta_of is_private_attribute w3_shape)] /\
  run_metadata is_private_attribute (fun _ => 0) [w1_shape; w3_shape] ms_empty [1; 0] <>
    [Some (meta_of is_private_attribute w3_shape); Some (meta_of is_private_attribute w1_shape)] /\
  run_metadata is_private_attribute (fun k => k) [w9_shape ROnce; w9_shape RAlways] ms_empty [0; 0; 1; 1; 0]
    = [None; Some (meta_of is_private_attribute (w9_shape ROnce)); None; None; Some (meta_of is_private_attribute (w9_shape ROnce))] /\
  meta_methods is_private_attribute (w9_shape ROnce) = [m_name w_ping; m_name w_run].
Proof.
  split. { vm_compute. reflexivity. } split. { vm_compute. intros H. discriminate. }
  split; vm_compute; reflexivity.
Qed.
