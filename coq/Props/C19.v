(* C19 — property theorems only.  Each is closed by [exact] of a lemma from Proofs/Uri.v instantiated at the
   tables generated from the running interpreter (Gen/GenUri.v), or by computation on a concrete witness
   (the _refuted theorems and the checks over generated data), followed by Print Assumptions.

   parse ns s      = URI(s) with config.NS_PORT = ns (None = PyroError)
   print u         = str(u)  — for a PYROMETA uri in the order in which its tag list is written; a Python set has
                     no order, so the theorems quantify over every [reordering] of the parsed uri
   regular u       = u is outside the three recorded open findings (host "./u"; tag set {""}; a tag containing "@") *)
From Coq Require Import List NArith ZArith Bool Permutation.
Import ListNotations.
From V Require Import Model.Uri Proofs.Uri Gen.GenUri Harness.H19.

Definition parse := Uri.parse T.
Definition print := Uri.print quirks_none.
Definition print_old := Uri.print {| q_empty_host := true; q_meta_unhashable := false |}.

(* The two regular expressions found in Pyro5/core.py on this run are the ones the hand-written matchers
   implement, and (next theorem) the interpreter's tables have the few properties the proofs use of them. *)
Theorem C19_patterns_are_the_modelled_ones :
  uri_regex_src = modelled_uri_regex /\ ipv6_regex_src = modelled_ipv6_regex.
Proof. vm_compute. split; reflexivity. Qed.
Print Assumptions C19_patterns_are_the_modelled_ones.

Theorem C19_tables_ok : tables_ok T = true.
Proof. vm_compute. reflexivity. Qed.
Print Assumptions C19_tables_ok.

(* Every accepted string yields a URI whose text form (in any tag order) is accepted again and parses to
   that very URI, which equals the original. *)
Theorem C19_reparse : forall ns s u, (0 <= ns)%Z -> parse ns s = Some u -> regular u ->
  forall u', reordering u u' -> parse ns (print u') = Some u' /\ uri_eq u' u.
Proof. exact (reparse T C19_tables_ok). Qed.
Print Assumptions C19_reparse.

(* The text form is a fixed point: printing what it parses to gives the same text. *)
Theorem C19_print_fixpoint : forall ns s u, (0 <= ns)%Z -> parse ns s = Some u -> regular u ->
  forall u', reordering u u' -> option_map print (parse ns (print u')) = Some (print u').
Proof. exact (print_fixpoint T C19_tables_ok). Qed.
Print Assumptions C19_print_fixpoint.

(* "%d" % port is read back by int() as the same integer, for every integer. *)
Theorem C19_port_text_reads_back : forall z, int_of_text T (text_of_Z z) = Some z.
Proof. exact (int_of_text_canon T C19_tables_ok). Qed.
Print Assumptions C19_port_text_reads_back.

(* What __eq__ compares and what __hash__ hashes, as extracted from the source on this run (GenUri): both are the
   plain state tuple — no extra branch, no normalised field —, == looks at every field (EF covers the state) and
   the hash covers no field that == ignores.  A change of either method that breaks this breaks this obligation. *)
Theorem C19_eq_hash_structure :
  eq_exact = true /\ hash_exact = true /\ ne_is_not_eq = true /\ covers EF = true /\ fields_incl HF EF = true.
Proof. vm_compute. repeat split; reflexivity. Qed.
Print Assumptions C19_eq_hash_structure.

(* == (over the extracted fields) is equality of protocol, object (tag sets as sets) and location; unequal locations
   never compare equal. *)
Theorem C19_eq_is_state_equality : forall u v, uri_eqb_on EF u v = true <-> uri_eq u v.
Proof. exact (uri_eqb_on_spec EF (proj1 (proj2 (proj2 (proj2 C19_eq_hash_structure))))). Qed.
Print Assumptions C19_eq_is_state_equality.

Theorem C19_neq_location : forall u v, u_loc u <> u_loc v -> uri_eqb_on EF u v = false.
Proof. exact (neq_location_on EF (proj1 (proj2 (proj2 (proj2 C19_eq_hash_structure))))). Qed.
Print Assumptions C19_neq_location.

(* URIs that compare equal have equal hashes and hashing never fails (for any hash function of strings). *)
Theorem C19_eq_hash : forall h u v, uri_eqb_on EF u v = true ->
  hash_key_on quirks_none h HF u = hash_key_on quirks_none h HF v /\ hash_key_on quirks_none h HF u <> None.
Proof. exact (eq_hash_on EF HF (proj2 (proj2 (proj2 (proj2 C19_eq_hash_structure))))). Qed.
Print Assumptions C19_eq_hash.

(* Transport by state (what the serializers carry for a URI object): the state tuple determines the URI, for every
   port in Z — provided the serializer returns the tuple's values unchanged (C01). *)
Theorem C19_state_roundtrip : forall u, of_state (to_state u) = Some u.
Proof. exact state_roundtrip. Qed.
Print Assumptions C19_state_roundtrip.

(* The name server's store is a map from names to URI texts: after set k v, get k = v also when k was present,
   other names are untouched, and k has exactly one entry (so listings show the new text only). *)
Theorem C19_store_get_set : forall s k v, st_get (st_set s k v) k = Some v.
Proof. exact st_get_set. Qed.
Print Assumptions C19_store_get_set.
Theorem C19_store_get_set_other : forall s k v k', k' <> k -> st_get (st_set s k v) k' = st_get s k'.
Proof. exact st_get_set_other. Qed.
Print Assumptions C19_store_get_set_other.
Theorem C19_store_set_single : forall s k v w, In (k, w) (st_set s k v) -> w = v.
Proof. exact st_set_single. Qed.
Print Assumptions C19_store_set_single.

(* register(name, <accepted string>) then lookup(name) gives the URI the string denotes, in any store state *)
Theorem C19_store_lookup_string : forall ns s u st name tagged validate, parse ns s = Some u ->
  ns_step T ns st (SReg name s tagged validate) = (st_set st name (s, tagged), ORegOk) /\
  snd (ns_step T ns (st_set st name (s, tagged)) (SLookup name)) = OLookup (Some u).
Proof. exact (store_lookup_string T). Qed.
Print Assumptions C19_store_lookup_string.

(* register(name, <URI object>) stores its text form; lookup(name) gives that URI back *)
Theorem C19_store_lookup_registered : forall ns s u, (0 <= ns)%Z -> parse ns s = Some u -> regular u ->
  forall u', reordering u u' -> forall st name tagged,
  ns_step T ns st (SReg name (print u') tagged false) = (st_set st name (print u', tagged), ORegOk) /\
  snd (ns_step T ns (st_set st name (print u', tagged)) (SLookup name)) = OLookup (Some u').
Proof. exact (store_lookup_registered T C19_tables_ok). Qed.
Print Assumptions C19_store_lookup_registered.

(* ---- the deviations: each witness is replayed on the implementation by the harness ---- *)
(* repaired by fixes/C19_empty_host.diff: with the old `if self.host:` test, PYRO:obj@:55 prints as PYRO:obj *)
Theorem C19_empty_host_refuted : exists s u,
  parse 9090 s = Some u /\ regular u /\ parse 9090 (print_old u) = None.
Proof.
  exists [80;89;82;79;58;111;98;106;64;58;53;53]%N, {| u_proto := PYRO; u_obj := OName [111;98;106]%N; u_loc := LHost [] 55 |}.
  split; [vm_compute; reflexivity|]. split; [split; [discriminate|exact I]|vm_compute; reflexivity].
Qed.
Print Assumptions C19_empty_host_refuted.

(* repaired by fixes/C19_meta_hash.diff: hashing the state tuple of a PYROMETA uri raised TypeError *)
Theorem C19_meta_unhashable_refuted : exists s u,
  parse 9090 s = Some u /\ regular u /\
  hash_key_on {| q_empty_host := false; q_meta_unhashable := true |} (fun _ => 0%N) HF u = None.
Proof.
  exists [80;89;82;79;77;69;84;65;58;97;44;98]%N, {| u_proto := PYROMETA; u_obj := OTags [[97];[98]]%N; u_loc := LNone |}.
  split; [vm_compute; reflexivity|]. split; [|reflexivity]. split; [exact I|]. split; [discriminate|].
  intros t [<-|[<-|[]]] [X|[]]; discriminate X.
Qed.
Print Assumptions C19_meta_unhashable_refuted.

(* open: PYROMETA:a,b@ printed in the order b@,a parses to tag {b} at host ",a" *)
Theorem C19_meta_at_tag_refuted : exists s u u' u'',
  parse 9090 s = Some u /\ reordering u u' /\ parse 9090 (print u') = Some u'' /\ uri_eqb u'' u = false.
Proof.
  exists [80;89;82;79;77;69;84;65;58;97;44;98;64]%N,
         {| u_proto := PYROMETA; u_obj := OTags [[97];[98;64]]%N; u_loc := LNone |},
         {| u_proto := PYROMETA; u_obj := OTags [[98;64];[97]]%N; u_loc := LNone |},
         {| u_proto := PYROMETA; u_obj := OTags [[98]]%N; u_loc := LHost [44;97]%N 9090 |}.
  split; [vm_compute; reflexivity|]. split; [|split; vm_compute; reflexivity].
  exists [[98;64];[97]]%N. split; [apply perm_swap|reflexivity].
Qed.
Print Assumptions C19_meta_at_tag_refuted.

(* open: PYROMETA:, is accepted (tag set {""}) and prints as PYROMETA: which is rejected *)
Theorem C19_meta_empty_tag_refuted : exists s u,
  parse 9090 s = Some u /\ parse 9090 (print u) = None.
Proof.
  exists [80;89;82;79;77;69;84;65;58;44]%N, {| u_proto := PYROMETA; u_obj := OTags [[]]; u_loc := LNone |}.
  split; vm_compute; reflexivity.
Qed.
Print Assumptions C19_meta_empty_tag_refuted.

(* open: PYRONAME:x@./u (host "./u", default port) prints as PYRONAME:x@./u:9090 = unix socket "9090" *)
Theorem C19_host_dot_slash_u_refuted : exists s u u'',
  parse 9090 s = Some u /\ parse 9090 (print u) = Some u'' /\ uri_eqb u'' u = false.
Proof.
  exists [80;89;82;79;78;65;77;69;58;120;64;46;47;117]%N,
         {| u_proto := PYRONAME; u_obj := OName [120]%N; u_loc := LHost [46;47;117]%N 9090 |},
         {| u_proto := PYRONAME; u_obj := OName [120]%N; u_loc := LSock [57;48;57;48]%N |}.
  split; [|split]; vm_compute; reflexivity.
Qed.
Print Assumptions C19_host_dot_slash_u_refuted.

(* non-vacuity: accepted, regular strings with every location form *)
(* pyro:Obj.1@[FE80::1%25]:<arabic-indic 12>junk\n *)
Example C19_nonvacuous_ipv6 :
  parse 9090 [112;121;114;111;58;79;98;106;46;49;64;91;70;69;56;48;58;58;49;37;50;53;93;58;1633;1634;106;117;110;107;10]%N
  = Some {| u_proto := PYRO; u_obj := OName [79;98;106;46;49]%N; u_loc := LHost [70;69;56;48;58;58;49;37;50;53]%N 12 |}
  /\ regular {| u_proto := PYRO; u_obj := OName [79;98;106;46;49]%N; u_loc := LHost [70;69;56;48;58;58;49;37;50;53]%N 12 |}.
Proof. split; [vm_compute; reflexivity|]. split; [discriminate|exact I]. Qed.
(* PyroMeta:blue,a.b,blue@host:<em space>+9_0<NEL>  -> tags {blue, a.b} at host:90 *)
Example C19_nonvacuous_meta :
  exists u, parse 9090 [80;121;114;111;77;101;116;97;58;98;108;117;101;44;97;46;98;44;98;108;117;101;64;104;111;115;116;58;8195;43;57;95;48;133]%N = Some u
  /\ uri_eqb u {| u_proto := PYROMETA; u_obj := OTags [[98;108;117;101];[97;46;98]]%N; u_loc := LHost [104;111;115;116]%N 90 |} = true
  /\ reordering u (with_tags u [[98;108;117;101];[97;46;98]]%N).
Proof.
  eexists. split; [vm_compute; reflexivity|]. split; [vm_compute; reflexivity|].
  exists [[98;108;117;101];[97;46;98]]%N. split; [apply perm_swap|reflexivity].
Qed.
Example C19_nonvacuous_noloc_sock :
  parse 9090 [80;89;82;79;78;65;77;69;58;120]%N = Some {| u_proto := PYRONAME; u_obj := OName [120]%N; u_loc := LNone |} /\
  parse 9090 (print {| u_proto := PYRO; u_obj := OName [120]%N; u_loc := LSock [47;116;32;115]%N |})
  = Some {| u_proto := PYRO; u_obj := OName [120]%N; u_loc := LSock [47;116;32;115]%N |}.
Proof. split; vm_compute; reflexivity. Qed.

(* an overwrite history: register n twice with different URIs, look up, list *)
Example C19_nonvacuous_store :
  ns_run T 9090 [] [SReg [110]%N [80;89;82;79;58;97;64;104;58;49]%N false true;
                    SReg [110]%N [80;89;82;79;58;98;64;104;58;50]%N true false; SLookup [110]%N; SList; SYp]
  = [ORegOk; ORegOk; OLookup (Some {| u_proto := PYRO; u_obj := OName [98]%N; u_loc := LHost [104]%N 2 |});
     OListing [([110], [80;89;82;79;58;98;64;104;58;50])]%N; OListing [([110], [80;89;82;79;58;98;64;104;58;50])]%N].
Proof. vm_compute. reflexivity. Qed.
