(* C07 — remote exceptions arrive as the same exception with the same content: property
   theorems only.  [gen_tables] / [gen_facts] are regenerated from Pyro5/serializers.py,
   server.py, client.py, errors.py and the interpreter's builtins on every run; [run] is the
   model the correspondence harness executes against the real Proxy/Daemon pair.
   [codec] = what the serializer library returns for plain data, [ctor] = cls( *args).args. *)
From Coq Require Import List NArith ZArith Arith Bool.
Import ListNotations.
From V Require Import Model.Excs Proofs.Excs Proofs.ExcsGen Gen.GenExcs.

(* every exception class of builtins and Pyro5.errors passes the receiver's whitelist as itself *)
Theorem C07_whitelist_complete : forall ci, In ci exc_table ->
  decide gen_tables (qname ci) true = DMake (qname ci).
Proof. exact whitelist_all. Qed.
Print Assumptions C07_whitelist_complete.

(* the generated handler structure answers every Exception subclass outside the CommunicationError /
   SecurityError families with an error reply and keeps the connection; the client does not release *)
Theorem C07_routing_reply_and_keep : forall ci, In ci exc_table -> good ci = true ->
  route gen_facts ci = ReplyKeep /\ isa ci (f_batch_catch gen_facts) = true /\
  releases gen_tables gen_facts (qname ci) = false /\
  isa (find_class gen_tables (qname ci)) c_StopIteration = isa ci c_StopIteration.
Proof. exact good_facts. Qed.
Print Assumptions C07_routing_reply_and_keep.

(* exc_roundtrip — plain call, attribute access, streamed item; any serializer whose library is
   lossless on plain data; all args / attributes in the lossless core: the caller gets exactly that
   class, equal args, equal attributes plus the traceback, and both ends stay connected *)
Theorem C07_exc_roundtrip : forall codec serr ctor,
  (forall s v, plain v = true -> codec s v = Some v) ->
  forall ci, In ci exc_table -> good ci = true ->
  forall s k args attrs tbv, single_kind k = true ->
  core_list args = true -> core_attrs attrs = true -> plain tbv = true ->
  ctor (qname ci) args = Some args ->
  run quirks_none gen_tables gen_facts codec serr ctor s k {| e_cls := ci; e_args := args; e_attrs := attrs |} tbv =
  {| r_before := 0; r_out := ORaised (qname ci) args (set_attr k_traceback tbv attrs); r_conn := conn_ok |}.
Proof. exact exc_roundtrip_gen. Qed.
Print Assumptions C07_exc_roundtrip.

(* ... and the traceback that arrives is the one of THIS call: [tbv] is a parameter of the call, independent of
   the exception object; an instance that already carries a traceback from an earlier call (raised again from a
   stored failure, a constant, ...) gets it replaced *)
Theorem C07_traceback_of_this_call : forall attrs tbv stale,
  assoc k_traceback (set_attr k_traceback tbv (set_attr k_traceback stale attrs)) = Some tbv.
Proof. exact traceback_of_this_call. Qed.
Print Assumptions C07_traceback_of_this_call.

(* never a hang: under the generated handler structure no class of the table is left both unanswered and
   connected (today some are unanswered, see the _refuted theorems, but then the connection is dropped) *)
Theorem C07_never_hangs : forall ci, In ci exc_table -> route gen_facts ci <> NoReplyKeep.
Proof. exact never_hangs. Qed.
Print Assumptions C07_never_hangs.

Theorem C07_guarded_reraise_refuted : forall s,
  r_out (run quirks_none gen_tables facts_guarded_reraise std_codec (std_serr gen_tables) std_ctor s KPlain
           (simple_exc c_ConnectionClosedError) tb0) = OHang /\
  r_out (run quirks_none gen_tables facts_today std_codec (std_serr gen_tables) std_ctor s KPlain
           (simple_exc c_ConnectionClosedError) tb0) = OConnLost.
Proof. exact guarded_reraise_hangs. Qed.
Print Assumptions C07_guarded_reraise_refuted.

(* exc_roundtrip — batch member at any position: the results before it are delivered, then the same
   exception is raised (StopIteration excepted, see C07_batch_stopiteration_refuted) *)
Theorem C07_exc_roundtrip_batch : forall codec serr ctor,
  (forall s v, plain v = true -> codec s v = Some v) ->
  forall ci, In ci exc_table -> good ci = true -> isa ci c_StopIteration = false ->
  forall s before args attrs tbv,
  forallb plain before = true -> forallb nodict before = true ->
  core_list args = true -> core_attrs attrs = true -> plain tbv = true ->
  ctor (qname ci) args = Some args ->
  run quirks_none gen_tables gen_facts codec serr ctor s (KBatch before) {| e_cls := ci; e_args := args; e_attrs := attrs |} tbv =
  {| r_before := length before; r_out := ORaised (qname ci) args (set_attr k_traceback tbv attrs); r_conn := conn_ok |}.
Proof. exact exc_roundtrip_batch_gen. Qed.
Print Assumptions C07_exc_roundtrip_batch.

(* the `except` guarding serializer.dumps(exc_value) in _sendExceptionResponse, as extracted from the tree,
   catches Exception (or everything): whatever class the serialiser fails with, the fallback runs *)
Theorem C07_fallback_catch_general :
  mem c_Exception (f_fallback_catch gen_facts) || mem c_BaseException (f_fallback_catch gen_facts) = true.
Proof. exact gen_fallback_general. Qed.
Print Assumptions C07_fallback_catch_general.

(* exc_fallback — the exception cannot be serialised (the serialiser raises ANY ordinary exception class:
   [serr] is arbitrary) and its class is one that gets a reply: the caller receives PyroError naming the
   original class, with traceback; never "no reply".  Rests on C07_fallback_catch_general. *)
Theorem C07_exc_fallback : forall codec serr ctor ci,
  (route gen_facts ci = ReplyKeep \/ route gen_facts ci = ReplyClose) ->
  forall s k args attrs tbv, single_kind k = true ->
  codec s (class_to_dict gen_tables (with_tb {| e_cls := ci; e_args := args; e_attrs := attrs |} tbv)) = None ->
  is_exception (serr s (class_to_dict gen_tables (with_tb {| e_cls := ci; e_args := args; e_attrs := attrs |} tbv))) = true ->
  r_out (run quirks_none gen_tables gen_facts codec serr ctor s k {| e_cls := ci; e_args := args; e_attrs := attrs |} tbv) =
  OFallback c_PyroError (qname ci) true.
Proof. exact exc_fallback_gen. Qed.
Print Assumptions C07_exc_fallback.

(* necessity: with the `except` narrowed to (SerializeError, TypeError, ValueError), content whose
   serialisation raises KeyError gets no reply at all, where today's structure sends the fallback *)
Theorem C07_narrow_fallback_refuted : forall s,
  r_out (run quirks_none gen_tables facts_narrow_fallback std_codec (std_serr gen_tables) std_ctor s KPlain
           (badobj_exc c_ValueError c_KeyError) tb0) = OConnLost /\
  r_out (run quirks_none gen_tables facts_today std_codec (std_serr gen_tables) std_ctor s KPlain
           (badobj_exc c_ValueError c_KeyError) tb0) = OFallback c_PyroError c_ValueError true.
Proof. exact narrow_fallback_loses_reply. Qed.
Print Assumptions C07_narrow_fallback_refuted.

(* proxy_usable_after — whatever the content (serialisable or not) and whatever the constructor does on
   the receiving side, after the error reply both ends are connected exactly as after a result reply *)
Theorem C07_proxy_usable_after : forall codec serr ctor,
  (forall s v, plain v = true -> codec s v = Some v) ->
  (forall s v, plain v = false -> codec s v = None) ->
  (forall s v, is_exception (serr s v) = true) ->
  forall ci, In ci exc_table -> good ci = true ->
  forall s k args attrs tbv, single_kind k = true ->
  r_conn (run quirks_none gen_tables gen_facts codec serr ctor s k {| e_cls := ci; e_args := args; e_attrs := attrs |} tbv) = conn_ok.
Proof. exact proxy_usable_gen. Qed.
Print Assumptions C07_proxy_usable_after.

(* ---- deviations of today's tree (faithful model, handler structure [facts_today]); each witness is
   replayed on the implementation by the harness and listed in findings/C07.json *)
Theorem C07_comm_error_unreported_refuted : forall s,
  r_out (wrun s KPlain (simple_exc c_CommunicationError) tb0) = OConnLost /\
  r_out (wrun s KAttr (simple_exc c_TimeoutError) tb0) = OConnLost /\
  r_out (wrun s KStream (simple_exc c_ConnectionClosedError) tb0) = OConnLost.
Proof. exact comm_error_unreported. Qed.
Print Assumptions C07_comm_error_unreported_refuted.

Theorem C07_security_error_dead_conn_refuted : forall s,
  r_out (wrun s KPlain (simple_exc c_SecurityError) tb0) =
    ORaised c_SecurityError [XStr [120%N]; XInt 3] [([102%N], XNone); (k_traceback, tb0)] /\
  usable (r_conn (wrun s KPlain (simple_exc c_SecurityError) tb0)) = false /\
  r_out (wrun s KPlain (opaque_exc c_SerializeError) tb0) = OFallback c_PyroError c_SerializeError true /\
  usable (r_conn (wrun s KPlain (opaque_exc c_SerializeError) tb0)) = false.
Proof. exact security_error_dead_conn. Qed.
Print Assumptions C07_security_error_dead_conn_refuted.

Theorem C07_non_exception_unreported_refuted : forall s,
  r_out (wrun s KPlain (simple_exc c_SystemExit) tb0) = OConnLost /\
  r_out (wrun s (KBatch [XInt 100]) (simple_exc c_KeyboardInterrupt) tb0) = OConnLost.
Proof. exact non_exception_unreported. Qed.
Print Assumptions C07_non_exception_unreported_refuted.

Theorem C07_batch_fallback_refuted :
  r_out (wrun Serpent (KBatch [XInt 100]) (opaque_exc c_ValueError) tb0) = OSerErr c_TypeError /\
  r_out (wrun Json (KBatch [XInt 100]) (opaque_exc c_ValueError) tb0) = OSerErr c_SerializeError /\
  r_before (wrun Json (KBatch [XInt 100]) (opaque_exc c_ValueError) tb0) = 0.
Proof. exact batch_no_fallback. Qed.
Print Assumptions C07_batch_fallback_refuted.

Theorem C07_batch_stopiteration_refuted : forall s,
  wrun s (KBatch [XInt 100]) (simple_exc c_StopIteration) tb0 =
  {| r_before := 1; r_out := OClientErr c_RuntimeError; r_conn := conn_ok |}.
Proof. exact batch_stopiteration. Qed.
Print Assumptions C07_batch_stopiteration_refuted.

Theorem C07_marshal_none_kwargs_refuted : forall sh,
  let Q := {| q_marshal_none_kwargs := true; q_marshal_shallow := sh |} in
  r_out (run Q gen_tables facts_today std_codec (std_serr gen_tables) std_ctor Marshal KAttr (simple_exc c_ValueError) tb0) = OLocalErr c_AttributeError /\
  r_out (run Q gen_tables facts_today std_codec (std_serr gen_tables) std_ctor Marshal (KBatch []) (simple_exc c_ValueError) tb0) = OLocalErr c_AttributeError.
Proof. exact marshal_none_kwargs. Qed.
Print Assumptions C07_marshal_none_kwargs_refuted.

Theorem C07_marshal_batch_shallow_refuted :
  let Q := {| q_marshal_none_kwargs := false; q_marshal_shallow := true |} in
  r_out (run Q gen_tables facts_today std_codec (std_serr gen_tables) std_ctor Marshal (KBatch [XInt 100]) (simple_exc c_ValueError) tb0) = OSerErr c_ValueError.
Proof. exact marshal_batch_shallow. Qed.
Print Assumptions C07_marshal_batch_shallow_refuted.

(* non-vacuity: the parameters have an instance, the class table has good classes, and a concrete call *)
Example C07_nonvacuous_codec : (forall s v, plain v = true -> std_codec s v = Some v) /\
                               (forall s v, plain v = false -> std_codec s v = None).
Proof. split; [exact std_codec_plain | exact std_codec_opaque]. Qed.
Example C07_nonvacuous_classes : 40 <= length (filter good exc_table) /\ In (cls c_ValueError) exc_table /\ good (cls c_ValueError) = true.
Proof. split; [exact good_nonempty|]. split; [exact value_error_in | exact value_error_good]. Qed.
Example C07_nonvacuous_roundtrip :
  run quirks_none gen_tables gen_facts std_codec (std_serr gen_tables) std_ctor Msgpack (KBatch [XInt 100; XInt 101]) (simple_exc c_ValueError) tb0 =
  {| r_before := 2; r_out := ORaised c_ValueError [XStr [120%N]; XInt 3] [([102%N], XNone); (k_traceback, tb0)]; r_conn := conn_ok |}.
Proof. vm_compute. reflexivity. Qed.
Example C07_nonvacuous_fallback :
  r_out (run quirks_none gen_tables gen_facts std_codec (std_serr gen_tables) std_ctor Json KPlain (opaque_exc c_KeyError) tb0) =
  OFallback c_PyroError c_KeyError true.
Proof. vm_compute. reflexivity. Qed.
