(* C03 — a call returns its own reply or fails; never another call's answer.  Property theorems only.
   Model: Model/ClientProto.v (one Proxy, one Daemon, the loopback network with per-message faults);
   [gen_def] = the client's defences and constants extracted from Pyro5/client.py on this run
   (Gen/GenClient.v): release on communication error, sequence check before use, the 16-bit mask,
   the exception classes of the retry loop.
   [s_window_ok] is the ghost flag "no stale message that was read was 2^16 or more requests old":
   the one hypothesis a 16-bit sequence counter cannot do without (see C03_no_release_refuted). *)
From Coq Require Import List NArith Arith Bool.
Import ListNotations.
From V Require Import Model.ClientProto Gen.GenClient Harness.H03 Proofs.ClientProto.
Local Open Scope N_scope.

(* Tie to the source, re-checked on every run: _pyroInvoke releases the connection in its
   CommunicationError handler, __pyroCheckSequence runs before the reply is used, the mask is 0xffff. *)
Theorem C03_source_defences :
  release_on_comm_error = true /\ seqcheck_before_use = true /\ seq_mask = 65535.
Proof. exact gen_def_good. Qed.
Print Assumptions C03_source_defences.

(* For every history of calls (normal, raising, oneway, batch, attribute, stream fetch), every fault
   script per message, every MAX_RETRIES and every starting sequence number: each call's outcome is
   its own result / its own exception (own token, the reply kind of its method, produced by a request
   sent during this very call), None for a oneway call, or a communication error. *)
Theorem C03_own_reply_or_comm_error : forall retries seq0 connected cs,
  seq0 < 65536 ->
  let st0 := init_state seq0 connected in
  let rs := run gen_def retries st0 cs in
  s_window_ok (final st0 rs) = true ->
  length rs = length cs /\
  forall i c o st', nth_error cs i = Some c -> nth_error rs i = Some (o, st') ->
    own_outcome c (before st0 rs i) st' o.
Proof. exact (fun retries seq0 connected cs => own_reply_from_init gen_def retries seq0 connected cs gen_def_good). Qed.
Print Assumptions C03_own_reply_or_comm_error.

(* Execution counts: during a call the server executes only this call's request, m times, where
   m <= 1 + N (N = retries that apply to the kind); a call that returns has m >= 1 and m = 1 when
   N = 0; a oneway call has m <= 1 whatever N; a failed oneway call has m = 0. *)
Theorem C03_exec_counts : forall retries seq0 connected cs,
  seq0 < 65536 ->
  let st0 := init_state seq0 connected in
  let rs := run gen_def retries st0 cs in
  s_window_ok (final st0 rs) = true ->
  forall i c o st', nth_error cs i = Some c -> nth_error rs i = Some (o, st') ->
    exists m : nat, s_log st' = repeat (c_tok c) m ++ s_log (before st0 rs i) /\
                    exec_bound (eff_retries retries (c_kind c)) c o m.
Proof. exact (fun retries seq0 connected cs => exec_counts_from_init gen_def retries seq0 connected cs gen_def_good). Qed.
Print Assumptions C03_exec_counts.

(* After any history: if a call fails with a communication error, the next call over a healthy
   transport (no faults; not a fetch on an item stream, which is bound to the lost connection)
   returns its own answer, was executed exactly once, and leaves the proxy connected. *)
Theorem C03_recovers : forall retries seq0 connected cs c1 c2 e st1,
  seq0 < 65536 ->
  let st0 := init_state seq0 connected in
  let st := final st0 (run gen_def retries st0 cs) in
  s_window_ok st = true ->
  do_call gen_def retries st c1 = (OErr e, st1) -> s_window_ok st1 = true ->
  c_faults c2 = [] -> is_stream (c_kind c2) = false ->
  exists st2, do_call gen_def retries st1 c2 = (expected (c_kind c2) (c_tok c2) (p_req st1 + 1), st2) /\
              s_log st2 = c_tok c2 :: s_log st1 /\ p_conn st2 <> None.
Proof. exact (fun retries seq0 connected cs c1 c2 e st1 => recovers_after_history gen_def retries seq0 connected cs c1 c2 e st1 gen_def_good). Qed.
Print Assumptions C03_recovers.

(* Delivered => executed exactly once, per attempt on a live connection: whatever the network does to
   the connection or to the reply after the request reached the server — including a reset between
   delivery and handling ([FResetDelivered]) — the method runs exactly once and a oneway call returns
   None; a request that does not reach the server ([FDropReq], [FResetBefore]) is not executed. *)
Theorem C03_delivered_executed_once : forall k tok st c f fs,
  p_conn st = Some c -> c_broken c = false -> c_srvclosed c = false -> delivers f = true ->
  let a := attempt gen_def k tok st (f :: fs) in
  s_log (a_st a) = tok :: s_log st /\ (rk k = None -> a_res a = inr ONone).
Proof. exact (delivered_executed_once gen_def). Qed.
Print Assumptions C03_delivered_executed_once.

Theorem C03_undelivered_not_executed : forall k tok st c f fs,
  p_conn st = Some c -> c_broken c = false -> delivers f = false ->
  s_log (a_st (attempt gen_def k tok st (f :: fs))) = s_log st.
Proof. exact (undelivered_not_executed gen_def). Qed.
Print Assumptions C03_undelivered_not_executed.

(* Nothing is ever sent in answer to a oneway request — whatever the network does and whatever the
   method does (the model has ONE oneway kind per call path: the harness maps oneway methods that raise
   and oneway batches naming an unexposed member onto it): over a whole call, retries included, the
   list of replies the server ever produced is unchanged ... *)
Theorem C03_oneway_never_answered : forall k tok n st fs,
  rk k = None ->
  s_replies (snd (attempts gen_def k tok n st fs)) = s_replies st.
Proof. exact (oneway_call_no_reply gen_def). Qed.
Print Assumptions C03_oneway_never_answered.

(* ... and a oneway attempt consumes no reply: what was waiting in the connection is still there, in order. *)
Theorem C03_oneway_reads_nothing : forall k tok st c fs,
  rk k = None -> p_conn st = Some c -> c_broken c = false ->
  exists c' extra, p_conn (a_st (attempt gen_def k tok st fs)) = Some c' /\ c_queue c' = c_queue c ++ c_delayed c ++ extra.
Proof. exact (oneway_attempt_reads_nothing gen_def). Qed.
Print Assumptions C03_oneway_reads_nothing.

(* Tie to the source: BatchProxy.__call__ and BatchProxy._pyroInvoke empty the collected call list after
   every batch invocation, oneway or not — which is what licenses modelling a batch as a call that
   carries only its own members (the harness re-uses ONE BatchProxy for all batches of a history). *)
Theorem C03_source_batch_proxy_cleared : batch_calls_cleared = true.
Proof. reflexivity. Qed.
Print Assumptions C03_source_batch_proxy_cleared.

(* The wrap-around 65535 -> 0 raises no false out-of-sync: on a connected, drained proxy at ANY
   sequence number a healthy call of any kind returns its own answer, executed once. *)
Theorem C03_wraparound_no_false_alarm : forall k tok n st,
  p_conn st = Some empty_conn ->
  exists st', attempts gen_def k tok n st [] = (expected k tok (p_req st + 1), st') /\
              s_log st' = tok :: s_log st /\ p_seq st' = (p_seq st + 1) mod 65536.
Proof. exact (fun k tok n st => healthy_connected_call gen_def k tok n st gen_def_good). Qed.
Print Assumptions C03_wraparound_no_false_alarm.

(* The window hypothesis is implied by a history in which fewer than 2^16 requests are sent
   (p_req counts the requests sent by the proxy, starting from seq0). *)
Theorem C03_window_ok_short_history : forall retries seq0 connected cs,
  let st0 := init_state seq0 connected in
  p_req (final st0 (run gen_def retries st0 cs)) < seq0 + 65536 ->
  s_window_ok (final st0 (run gen_def retries st0 cs)) = true.
Proof. exact (window_ok_short_history gen_def). Qed.
Print Assumptions C03_window_ok_short_history.

(* Necessity of the sequence check (release kept): a duplicated reply is returned to the NEXT call —
   the call with token 2 gets the answer of the call with token 1. *)
Theorem C03_no_seqcheck_refuted :
  map fst (run d_no_seqcheck 0 (init_state 0 true) dup_history) = [OResult 1 1; OResult 1 1] /\
  map c_tok dup_history = [1; 2].
Proof. exact no_seqcheck_refuted. Qed.
Print Assumptions C03_no_seqcheck_refuted.

(* Necessity of the release (sequence check kept): after one late reply the proxy never gets back in
   sync over a healthy transport ... *)
Theorem C03_no_release_never_recovers_refuted :
  map fst (run d_no_release 0 (init_state 0 true) late_history) = [OErr ETimeout; OErr EProtocol; OErr EProtocol].
Proof. exact no_release_never_recovers. Qed.
Print Assumptions C03_no_release_never_recovers_refuted.

(* ... and a late reply that is still around when the 16-bit counter has gone round (65535 oneway
   calls later) is returned to another call: token 70000 gets the answer of token 1. *)
Theorem C03_no_release_refuted :
  nth_error (map fst (run d_no_release 0 (init_state 0 true) wrap_history)) (N.to_nat 65536) = Some (OResult 1 1) /\
  nth_error (map c_tok wrap_history) (N.to_nat 65536) = Some 70000.
Proof. exact no_release_refuted. Qed.
Print Assumptions C03_no_release_refuted.

(* non-vacuity: the same three histories with both defences in place (hypotheses of the theorems hold,
   outcomes are non-trivial), and a faulty history across the wrap with one retry (every protocol error in it
   hits a call kind without retry loop or a last attempt, so the example does not depend on the retry classes) *)
Example C03_nonvacuous_defended :
  map fst (run gen_def 0 (init_state 0 true) dup_history) = [OResult 1 1; OErr EProtocol] /\
  map fst (run gen_def 0 (init_state 0 true) late_history) = [OErr ETimeout; OResult 2 2; OResult 3 3] /\
  nth_error (map fst (run gen_def 0 (init_state 0 true) wrap_history)) (N.to_nat 65536) = Some (OResult 70000 65537).
Proof. exact defended_histories. Qed.
Example C03_nonvacuous_history :
  let cs := [mkCall KNormal 5 [FDropReply; FDeliver; FStale 0]; mkCall KOneway 6 [FDeliver; FStale 0];
             mkCall KAttr 7 []; mkCall KAttr 8 [FDeliver; FDup]; mkCall KBatchRaise 9 []; mkCall KRaise 10 []] in
  let st0 := init_state 65534 true in
  let rs := run gen_def 1 st0 cs in
  s_window_ok (final st0 rs) = true /\
  map fst rs = [OErr EProtocol; ONone; OErr EProtocol; OResult 8 65539; OErr EProtocol; ORaised 10 65541] /\
  map (fun r => p_seq (snd r)) rs = [0; 1; 2; 3; 4; 5] /\
  rev (s_log (final st0 rs)) = [5; 5; 6; 7; 8; 9; 10].
Proof. vm_compute. repeat split; reflexivity. Qed.
