(* C12 — per-call context never leaks between calls or clients.  Property theorems only:
   each is closed by [exact] of a lemma of Proofs/CallCtx.v (or by computation over the
   structure regenerated from Pyro5/server.py, callcontext.py, client.py on this run),
   followed by Print Assumptions. *)
From Coq Require Import List NArith Arith Bool.
Import ListNotations.
From V Require Import Model.CallCtx Proofs.CallCtx Gen.GenCallCtx Harness.H12.

(* Structure of the source as read on this run: the context is thread-local, the response annotations
   are cleared when a request starts being handled (before the PING branch) and before anything else in
   _handshake.  Removing either reset from server.py makes this computed check fail. *)
Theorem C12_source_clears_response_annotations : shape_resp_ok gen_shape = true.
Proof. vm_compute. reflexivity. Qed.
Print Assumptions C12_source_clears_response_annotations.

(* ... and every request field is assigned from the request before the method is called, and all of
   them are restored in the thread of a oneway call. *)
Theorem C12_source_sets_up_context : shape_ctx_ok gen_shape = true.
Proof. vm_compute. reflexivity. Qed.
Print Assumptions C12_source_sets_up_context.

(* Response annotations: for every history [pre] (any interleaving of events of any threads and
   connections) and every event [e] that sends a reply with annotations [A] to connection [c]: each
   annotation is one of the daemon's own, or [e] is the normal reply of a call and the annotation was set
   on the serving thread after that thread started handling this very request (no start of a request,
   ping or handshake on that thread in between).  Handshake answers, ping and error replies carry only
   the daemon's annotations.  (The serving thread is a server thread, not the target of a oneway spawn.) *)
Theorem C12_reply_anns_own : forall sh D, shape_resp_ok sh = true ->
  forall pre e c k A a,
  (forall p, ~ In (ESpawn p (thread_of e)) pre) ->
  In (OReply c k A) (snd (step sh D (state_after sh D pre) e)) ->
  In a A ->
  In a D \/
  ((exists b, e = EReturn (thread_of e) c b) /\
   exists p1 m l p2, pre = p1 ++ ESet (thread_of e) m l :: p2 /\ In a l /\
                     (forall e', In e' p2 -> is_start_on (thread_of e) e' = false)).
Proof. exact reply_anns_own. Qed.
Print Assumptions C12_reply_anns_own.

(* The context a method reads is that of the request being served, whatever other threads (and this
   thread's own replies, pings on other connections served by other threads, ...) do in between [mid]. *)
Theorem C12_ctx_is_request : forall sh D, shape_ctx_ok sh = true ->
  forall pre t r mid tok,
  (forall e, In e mid -> overwrites_req t e = false) ->
  exists snap,
    snd (step sh D (state_after sh D (pre ++ EBegin t (Some r) :: mid)) (ESnap t tok)) = [OCtx t tok snap] /\
    forall f, snap f = r f.
Proof. exact ctx_is_request. Qed.
Print Assumptions C12_ctx_is_request.

(* ... also inside the thread [o] of a oneway call spawned by the serving thread [p]. *)
Theorem C12_ctx_is_request_oneway : forall sh D, shape_ctx_ok sh = true ->
  forall pre p o r mid1 mid2 tok,
  (forall e, In e mid1 -> overwrites_req p e = false) ->
  (forall e, In e mid2 -> overwrites_req o e = false) ->
  exists snap,
    snd (step sh D (state_after sh D (pre ++ EBegin p (Some r) :: mid1 ++ ESpawn p o :: mid2)) (ESnap o tok))
      = [OCtx o tok snap] /\
    forall f, snap f = r f.
Proof. exact ctx_is_request_oneway. Qed.
Print Assumptions C12_ctx_is_request_oneway.

(* Frame: a step writes only the context of its own thread ... *)
Theorem C12_step_frame : forall sh D s e t, sh_thread_local sh = true ->
  thread_of e <> t -> fst (step sh D s e) t = s t.
Proof. exact step_frame. Qed.
Print Assumptions C12_step_frame.

(* ... steps of unrelated threads commute (same outputs, same resulting contexts) ... *)
Theorem C12_step_commute : forall sh D s e1 e2, sh_thread_local sh = true -> indepb e1 e2 = true ->
  snd (step sh D (fst (step sh D s e1)) e2) = snd (step sh D s e2) /\
  snd (step sh D (fst (step sh D s e2)) e1) = snd (step sh D s e1) /\
  forall t, fst (step sh D (fst (step sh D s e1)) e2) t = fst (step sh D (fst (step sh D s e2)) e1) t.
Proof. exact step_commute. Qed.
Print Assumptions C12_step_commute.

(* ... so all interleavings of the same per-thread event sequences give every thread the same replies
   and the same context snapshots. *)
Theorem C12_interleaving_invariant : forall sh D, sh_thread_local sh = true ->
  forall h1 h2, interleave_equiv h1 h2 ->
  forall s t, proj t (trun sh D s h1) = proj t (trun sh D s h2).
Proof. exact interleaving_invariant. Qed.
Print Assumptions C12_interleaving_invariant.

(* Client half: after a call the client's response annotations are those of that call's reply; if the
   reply carries none (or there is no reply) they are empty, or those of the handshake answer received
   when the call had to connect first.  Nothing of earlier calls survives. *)
Theorem C12_client_sees_own : forall r hs reply,
  let r' := cstep true r (CCall hs reply) in
  (forall R, reply = Some R -> R <> [] -> r' = R) /\
  ((reply = None \/ reply = Some []) ->
     r' = [] \/ exists H, hs = Some H /\ H <> [] /\ r' = H).
Proof. exact client_sees_own. Qed.
Print Assumptions C12_client_sees_own.

Theorem C12_client_forgets_past : forall r1 r2 e, cstep true r1 e = cstep true r2 e.
Proof. exact client_forgets_past. Qed.
Print Assumptions C12_client_forgets_past.

Theorem C12_source_client_resets : gen_client_reset = true.
Proof. vm_compute. reflexivity. Qed.
Print Assumptions C12_source_client_resets.

(* The defect found in the unrepaired source (no reset at request / handshake start): annotation 7 set by
   a call on connection 1 that raises rides on the handshake answer given to connection 2 by the same thread. *)
Theorem C12_no_reset_refuted :
  exists pre e c k A a,
    (forall p, ~ In (ESpawn p (thread_of e)) pre) /\
    In (OReply c k A) (snd (step shape_leaky [] (state_after shape_leaky [] pre) e)) /\ In a A /\
    ~ (In a [] \/
       ((exists b, e = EReturn (thread_of e) c b) /\
        exists p1 m l p2, pre = p1 ++ ESet (thread_of e) m l :: p2 /\ In a l /\
                          (forall e', In e' p2 -> is_start_on (thread_of e) e' = false))).
Proof.
  exists [EHandshake 0 1%N HOk; EBegin 0 (Some req0); ESet 0 Assign [7%N]; ERaise 0 1%N],
         (EHandshake 0 2%N HOk), 2%N, KConnOk, [7%N], 7%N.
  split; [intros p [H|[H|[H|[H|[]]]]]; discriminate H|].
  split; [vm_compute; left; reflexivity|].
  split; [left; reflexivity|].
  intros [[]|[[b Hb] _]]. discriminate Hb.
Qed.
Print Assumptions C12_no_reset_refuted.

(* Each position of the resets matters: cleared only after the PING branch, a ping is answered with stale
   annotations; cleared in _handshake only after the first message was read, an unreadable first message is. *)
Theorem C12_reset_after_ping_branch_refuted :
  trace (mkshape true 2 2 true true all_ids all_ids) []
        [EBegin 0 (Some req0); ESet 0 Update [7%N]; ERaise 0 1%N; EPing 0 2%N]
  = [OReply 1%N KError []; OReply 2%N KPing [7%N]].
Proof. vm_compute. reflexivity. Qed.
Print Assumptions C12_reset_after_ping_branch_refuted.

Theorem C12_handshake_reset_after_read_refuted :
  trace (mkshape true 1 1 true true all_ids all_ids) []
        [EBegin 0 (Some req0); ESet 0 Update [7%N]; ERaise 0 1%N; EHandshake 0 2%N HGarbage]
  = [OReply 1%N KError []; OReply 2%N KConnFail [7%N]].
Proof. vm_compute. reflexivity. Qed.
Print Assumptions C12_handshake_reset_after_read_refuted.

(* non-vacuity: under the repaired shape the same history is answered cleanly, a returning call does get
   its own annotations, and a oneway thread sees the request of its call *)
Example C12_nonvacuous_fixed :
  shape_resp_ok shape_fixed = true /\ shape_ctx_ok shape_fixed = true /\
  trace shape_fixed [9%N]
        [EHandshake 0 1%N HOk; EBegin 0 (Some req0); ESet 0 Assign [7%N]; ERaise 0 1%N;
         EHandshake 0 2%N HOk; EBegin 0 (Some req0); ESet 0 Update [8%N]; EReturn 0 2%N false; EPing 0 1%N]
  = [OReply 1%N KConnOk [9%N]; OReply 1%N KError [9%N]; OReply 2%N KConnOk [9%N];
     OReply 2%N KResult [8%N; 9%N]; OReply 1%N KPing [9%N]].
Proof. vm_compute. repeat split; reflexivity. Qed.
Example C12_nonvacuous_oneway :
  model_server {| k_dmn := []; k_events := [EBegin 0 (Some (mkreq [1;1;5;16;2;77;0]%N)); ESpawn 0 9; EDone 0;
                                             EBegin 0 (Some (mkreq [2;2;6;0;1;78;0]%N)); ESnap 9 3%N; ESnap 0 4%N];
                  k_obs := [] |}
  = [JCtx 9 3%N [1;1;5;16;2;77;0]%N; JCtx 0 4%N [2;2;6;0;1;78;0]%N].
Proof. vm_compute. reflexivity. Qed.
Example C12_nonvacuous_interleaving :
  interleave_equiv [EBegin 0 (Some req0); EBegin 1 (Some req0); ESet 0 Assign [1%N]]
                   [EBegin 0 (Some req0); ESet 0 Assign [1%N]; EBegin 1 (Some req0)].
Proof. apply (ie_swap [EBegin 0 (Some req0)] (EBegin 1 (Some req0)) (ESet 0 Assign [1%N]) []). reflexivity. Qed.
Example C12_nonvacuous_client :
  crun true [] [CNew; CCall (Some [9%N]) (Some [7%N; 9%N]); CCall None (Some []); CCall None None; CCall None (Some [9%N])]
  = [[]; [7%N; 9%N]; []; []; [9%N]].
Proof. vm_compute. reflexivity. Qed.
