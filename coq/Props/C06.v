(* C06 — property theorems only (proofs in Proofs/Wire.v). *)
From Coq Require Import List NArith Arith Bool.
Import ListNotations.
From V Require Import Model.Bytes Model.Wire Gen.GenProtocol Proofs.Wire.
Local Open Scope N_scope.

(* Any message the sender can build decodes to exactly its fields and payload, consuming
   exactly its bytes, whatever follows it in the stream.  [received m] is m's type, seq,
   serializer id, payload, annotations, correlation id, and m's flags with the COMPRESSED
   bit cleared and the CORR_ID bit set iff a correlation id is present. *)
Theorem C06_decode_encode : forall c m z bs rest acc unz,
  NoDup (map fst (s_anns m)) ->                               (* annotations are a python dict *)
  (forall cid, s_corr m = Some cid -> length cid = 16%nat) ->    (* uuid.bytes *)
  accepts acc (s_type m) ->
  (compresses c m = true -> unz = Some (s_payload m)) ->      (* zlib inverts itself on this payload *)
  encode c m z = Ok bs ->
  recv_stub c acc unz (bs ++ rest) = (Ok (received m), Nlen bs).
Proof. exact decode_encode. Qed.
Print Assumptions C06_decode_encode.

Theorem C06_too_large_sender : forall c m z,
  max_size c < Nlen (if compresses c m then z else s_payload m) + ann_size (s_anns m) ->
  encode c m z = Err EProtocol.
Proof. exact too_large_sender. Qed.
Print Assumptions C06_too_large_sender.

Theorem C06_too_large_receiver : forall c acc unz stream,
  header_size <= Nlen stream ->
  max_size c < h_dsize (parse_header (takeN header_size stream)) + h_asize (parse_header (takeN header_size stream)) ->
  exists n, recv_stub c acc unz stream = (Err EProtocol, n) /\ n <= header_size.
Proof. exact too_large_receiver. Qed.
Print Assumptions C06_too_large_receiver.

(* Acceptance is sound (partial): header tag/version/magic valid, declared size within the
   limit, accepted type, exactly header+annotations+data bytes consumed, and the message
   is [add_payload] of exactly those bytes. *)
Theorem C06_decode_sound_partial : forall c acc unz stream m n,
  recv_stub c acc unz stream = (Ok m, n) ->
  exists hb payload rest,
    stream = hb ++ payload ++ rest /\ Nlen hb = header_size /\
    let h := parse_header hb in
    h_tag h = tag_PYRO /\ h_ver h = protocol_version /\ h_magic h = magic_number /\
    h_dsize h + h_asize h <= max_size c /\ accepts acc (h_type h) /\
    Nlen payload = h_asize h + h_dsize h /\ n = header_size + h_asize h + h_dsize h /\
    add_payload h payload unz = Ok m.
Proof. exact decode_sound_partial. Qed.
Print Assumptions C06_decode_sound_partial.

(* the header layout implemented by the model is the one generated from _header_format *)
Theorem C06_header_layout :
  header_layout = [(0,4); (1,2); (1,1); (1,1); (1,2); (1,2); (1,4); (1,4); (0,16); (1,2); (1,2)]
  /\ header_size = 40 /\ protocol_version < 65536 /\ magic_number < 65536.
Proof. exact (conj header_layout_ok (conj header_size_40 (conj version_fits magic_fits))). Qed.
Print Assumptions C06_header_layout.

(* non-vacuity: a compressed message with two annotations and a correlation id round-trips *)
Example C06_nonvacuous :
  let m := {| s_type := 4; s_flags := 5; s_seq := 65535; s_ser := 2; s_payload := [1;2;3];
              s_anns := [([65;66;67;68], [9;9]); ([69;70;71;72], [])]; s_corr := Some (repeat 7 16) |} in
  let c := {| max_size := 1000; compression := false |} in
  match encode c m [] with
  | Ok bs => recv_stub c None None (bs ++ [42]) = (Ok (received m), Nlen bs)
  | Err _ => False
  end.
Proof. vm_compute. reflexivity. Qed.
