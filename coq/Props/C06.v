(* C06 — property theorems only (proofs in Proofs/Wire.v). *)
From Coq Require Import List NArith Arith Bool.
Import ListNotations.
From V Require Import Model.Bytes Model.SockIO Model.Wire Model.WireIO Gen.GenProtocol Proofs.Wire Proofs.WireSound Proofs.WireIO.
Local Open Scope N_scope.

(* Any message the sender can build decodes to exactly its fields and payload, consuming
   exactly its bytes, whatever follows it in the stream.  [received m] is m's type, seq,
   serializer id, payload, annotations, correlation id, and m's flags with the COMPRESSED
   bit cleared and the CORR_ID bit set iff a correlation id is present. *)
Theorem C06_decode_encode : forall c m z bs rest acc unz,
  NoDup (map fst (s_anns m)) ->                               (* annotations are a python dict *)
  (forall cid, s_corr m = Some cid -> length cid = 16%nat) ->    (* uuid.bytes *)
  accepts acc (s_type m) ->
  (compresses c m = true -> unz = Some (s_payload m)) ->      (* zlib inverts itself on this payload *)
  encode c m z = Ok bs ->
  recv_stub c acc unz (bs ++ rest) = (Ok (received m), Nlen bs).
Proof. exact decode_encode. Qed.
Print Assumptions C06_decode_encode.

Theorem C06_too_large_sender : forall c m z,
  max_size c < Nlen (if compresses c m then z else s_payload m) + ann_size (s_anns m) ->
  encode c m z = Err EProtocol.
Proof. exact too_large_sender. Qed.
Print Assumptions C06_too_large_sender.

Theorem C06_too_large_receiver : forall c acc unz stream,
  header_size <= Nlen stream ->
  max_size c < h_dsize (parse_header (takeN header_size stream)) + h_asize (parse_header (takeN header_size stream)) ->
  exists n, recv_stub c acc unz stream = (Err EProtocol, n) /\ n <= header_size.
Proof. exact too_large_receiver. Qed.
Print Assumptions C06_too_large_receiver.

(* Conversely: the decoder accepts a byte stream only if it starts with a well-formed message:
   a 40-byte header with the right tag, version and magic, a declared size within the limit, an
   accepted type, followed by annotation chunks [flat cs] - each a 4-byte ASCII id, the
   big-endian length of its value, and the value - that tile the declared annotation size
   EXACTLY, followed by exactly the declared number of data bytes; exactly those bytes are
   consumed, and the decoded fields are the header's fields, the data (or its decompression),
   and the last-wins dictionary of the chunks.  ([wf_bytes]: stream elements are bytes.) *)
Theorem C06_decode_sound : forall c acc unz stream m n,
  wf_bytes stream = true ->
  recv_stub c acc unz stream = (Ok m, n) ->
  exists hb cs data rest,
    stream = hb ++ flat cs ++ data ++ rest /\ Nlen hb = header_size /\
    let h := parse_header hb in
    h_tag h = tag_PYRO /\ h_ver h = protocol_version /\ h_magic h = magic_number /\
    h_dsize h + h_asize h <= max_size c /\ accepts acc (h_type h) /\
    Nlen (flat cs) = h_asize h /\ Nlen data = h_dsize h /\ Forall chunk_ok cs /\
    n = Nlen hb + Nlen (flat cs) + Nlen data /\
    r_anns m = dict_of cs [] /\ r_type m = h_type h /\ r_seq m = h_seq h /\ r_ser m = h_ser h /\
    r_corr m = h_corr h /\
    ((N.land (h_flags h) flag_compressed = 0 /\ r_data m = data /\ r_flags m = h_flags h) \/
     (N.land (h_flags h) flag_compressed <> 0 /\ unz = Some (r_data m) /\
      r_flags m = N.ldiff (h_flags h) flag_compressed)).
Proof. exact decode_sound. Qed.
Print Assumptions C06_decode_sound.

(* ... so whatever it accepts re-encodes to an equivalent message: sending the decoded fields
   again (under any size limit that admits them) succeeds, and decoding that yields a message
   equal in type, flags, sequence number, serializer id, data and annotations, and in the
   correlation id whenever the CORR_ID flag says one is present. *)
Theorem C06_accepted_reencodes_equivalent : forall c acc unz stream m n,
  wf_bytes stream = true ->
  recv_stub c acc unz stream = (Ok m, n) ->
  Nlen (r_data m) < 4294967296 ->
  forall c', compression c' = false -> Nlen (r_data m) + ann_size (r_anns m) <= max_size c' ->
  exists bs, encode c' (resend m) [] = Ok bs /\
             recv_stub c' None None bs = (Ok (received (resend m)), Nlen bs) /\
             equiv (received (resend m)) m.
Proof. exact reencode_equiv. Qed.
Print Assumptions C06_accepted_reencodes_equivalent.

(* "However the stream is fragmented": [recv_stub_io] is recv_stub with every connection.recv(n)
   performed by C17's socket model (receive_data over an arbitrary script of partial deliveries,
   retryable errors, MSG_WAITALL or not).  Whenever the socket reads succeed, the outcome - accepted
   message or error, and the number of bytes consumed - is exactly that of reading the plain stream. *)
Theorem C06_fragmentation_independent : forall c acc unz waitall script stream r n,
  recv_stub_io c acc unz waitall script stream = Some (r, n) ->
  recv_stub c acc unz stream = (r, n).
Proof. exact recv_stub_fragmentation. Qed.
Print Assumptions C06_fragmentation_independent.

Theorem C06_decode_encode_over_socket : forall c m z bs rest acc unz waitall script r n,
  NoDup (map fst (s_anns m)) ->
  (forall cid, s_corr m = Some cid -> length cid = 16%nat) ->
  accepts acc (s_type m) ->
  (compresses c m = true -> unz = Some (s_payload m)) ->
  encode c m z = Ok bs ->
  recv_stub_io c acc unz waitall script (bs ++ rest) = Some (r, n) ->
  r = Ok (received m) /\ n = Nlen bs.
Proof. exact decode_encode_over_socket. Qed.
Print Assumptions C06_decode_encode_over_socket.

(* the header layout implemented by the model is the one generated from _header_format *)
Theorem C06_header_layout :
  header_layout = [(0,4); (1,2); (1,1); (1,1); (1,2); (1,2); (1,4); (1,4); (0,16); (1,2); (1,2)]
  /\ header_size = 40 /\ protocol_version < 65536 /\ magic_number < 65536.
Proof. exact (conj header_layout_ok (conj header_size_40 (conj version_fits magic_fits))). Qed.
Print Assumptions C06_header_layout.

(* non-vacuity: a compressed message with two annotations and a correlation id round-trips *)
Example C06_nonvacuous :
  let m := {| s_type := 4; s_flags := 5; s_seq := 65535; s_ser := 2; s_payload := [1;2;3];
              s_anns := [([65;66;67;68], [9;9]); ([69;70;71;72], [])]; s_corr := Some (repeat 7 16) |} in
  let c := {| max_size := 1000; compression := false |} in
  match encode c m [] with
  | Ok bs => recv_stub c None None (bs ++ [42]) = (Ok (received m), Nlen bs)
  | Err _ => False
  end.
Proof. vm_compute. reflexivity. Qed.

(* non-vacuity of the soundness theorems: a handcrafted stream with a duplicated annotation id is accepted *)
Example C06_nonvacuous_sound :
  let stream := header 4 2 0 7 2 20 zero16 ++ [65;66;67;68; 0;0;0;1; 9] ++ [65;66;67;68; 0;0;0;3; 1;2;3] ++ [5;6] ++ [42] in
  wf_bytes stream = true /\
  exists m, recv_stub {| max_size := 1000; compression := false |} None None stream = (Ok m, 62)
            /\ r_anns m = [([65;66;67;68], [1;2;3])] /\ r_data m = [5;6].
Proof. vm_compute. split; [reflexivity|]. eexists. repeat split. Qed.

(* non-vacuity: a message delivered one to three bytes at a time with interruptions is received whole *)
Example C06_nonvacuous_fragmented :
  let m := {| s_type := 4; s_flags := 0; s_seq := 9; s_ser := 1; s_payload := [1;2;3;4;5];
              s_anns := [([65;66;67;68], [7])]; s_corr := None |} in
  let c := {| max_size := 1000; compression := false |} in
  let script := concat (repeat [Deliver 1; SockIO.Err (Some 4); Deliver 3; Deliver 2] 30) in
  match encode c m [] with
  | Ok bs => recv_stub_io c None None false script (bs ++ [42]) = Some (Ok (received m), Nlen bs)
  | Err _ => False
  end.
Proof. vm_compute. reflexivity. Qed.
