(* C17 — property theorems only. Each is closed by [exact] of a lemma from
   Proofs/SockIO.v, instantiated at the constants generated from
   Pyro5/socketutil.py, followed by Print Assumptions. *)
From Coq Require Import List NArith Arith Bool.
Import ListNotations.
From V Require Import Model.Bytes Model.SockIO Proofs.SockIO Gen.GenSockutil Harness.H17.

Definition recv := receive_data errno_retries cap_nat.
Definition send := send_data errno_retries.

(* Reading [size] bytes returns exactly the next [size] bytes, whatever the script
   (fragmentation, retryable errors, MSG_WAITALL or not). *)
Theorem C17_recv_exact : forall waitall size script stream d,
  r_res (recv waitall size script stream) = ROk d ->
  d = firstn size stream /\ r_stream (recv waitall size script stream) = skipn size stream /\ length d = size.
Proof. exact (recv_exact errno_retries cap_nat). Qed.
Print Assumptions C17_recv_exact.

(* A connection-closed error that carries partial data carries exactly the bytes
   consumed so far, and fewer than requested. *)
Theorem C17_recv_error_prefix : forall waitall size script stream q,
  r_res (recv waitall size script stream) = RClosed (Some q) ->
  q = firstn (length q) stream /\ r_stream (recv waitall size script stream) = skipn (length q) stream /\
  length q < size.
Proof. exact (recv_error_prefix errno_retries cap_nat). Qed.
Print Assumptions C17_recv_error_prefix.

(* In every outcome the stream left behind is the original minus a prefix of at most [size] bytes. *)
Theorem C17_recv_stream_suffix : forall waitall size script stream,
  exists p, stream = p ++ r_stream (recv waitall size script stream) /\ length p <= size.
Proof. exact (recv_stream_suffix errno_retries cap_nat). Qed.
Print Assumptions C17_recv_stream_suffix.

(* Deleting every retryable error from the script changes neither result nor stream position. *)
Theorem C17_recv_retry_transparent : forall waitall size script stream,
  same_outcome (recv waitall size script stream)
               (recv waitall size (filter (not_retry errno_retries) script) stream).
Proof. exact (recv_retry_transparent errno_retries cap_nat). Qed.
Print Assumptions C17_recv_retry_transparent.

(* Success: the peer got exactly the buffer, once, in order.  Failure: a prefix of it. *)
Theorem C17_send_exact : forall blocking data script peer,
  send_spec data peer (send blocking data script peer).
Proof. exact (send_exact errno_retries). Qed.
Print Assumptions C17_send_exact.

Theorem C17_send_retry_transparent : forall data script peer,
  s_res (send false data script peer) = s_res (send false data (filter (not_retry errno_retries) script) peer) /\
  s_peer (send false data script peer) = s_peer (send false data (filter (not_retry errno_retries) script) peer).
Proof. intros; exact (send_loop_retry errno_retries script data peer 0 0). Qed.
Print Assumptions C17_send_retry_transparent.

(* The errnos the property names are in the generated retry list (computed over the
   table extracted from the source on this run). *)
Theorem C17_required_errnos_retried :
  forallb (fun e => retryable errno_retries (Some e)) errno_required = true.
Proof. vm_compute. reflexivity. Qed.
Print Assumptions C17_required_errnos_retried.

(* non-vacuity: a fragmented, interrupted read that succeeds; one that reports partial data *)
Example C17_nonvacuous_ok :
  r_res (recv false 5 [Deliver 2; Err (Some 4%N); Deliver 9] [1;2;3;4;5;6;7]%N) = ROk [1;2;3;4;5]%N.
Proof. vm_compute. reflexivity. Qed.
Example C17_nonvacuous_partial :
  r_res (recv true 5 [Deliver 2; Eof] [1;2;3;4;5;6;7]%N) = RClosed (Some [1;2]%N).
Proof. vm_compute. reflexivity. Qed.
