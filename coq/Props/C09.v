(* C09 — instance modes: one instance per daemon ('single'), per connection ('session') or per
   call ('percall'), whatever the instances look like.  Property theorems only.

   Model (Model/Instances.v): events [Call conn cls] / [Close conn how] (how = orderly / reset / stale socket / after an error) / [Reg cls id force] / [Unreg id]
   (a class may be known by several ids, be unregistered and registered again: a [Call] reaches its class through
   whichever id; 'single' is read as: exactly one instance per (daemon, class) ever serves calls, for the daemon's
   lifetime, regardless of ids); [world] = what the n-th creator
   invocation does for a class (fail, wrong type, or an instance with arbitrary truthiness / __eq__ bits)
   is universally quantified; [modes] assigns a mode to every class; the trace pairs every event with the
   instance that served it.  [code_shape] is regenerated from Pyro5/server.py and socketutil.py on every run. *)
From Coq Require Import List Arith Bool.
Import ListNotations.
From V Require Import Model.Atomic Model.Instances Gen.GenInstances Proofs.Atomic Proofs.Instances.

(* Tie to the source: both lookup tests are `is None`, the whole get-or-create of the 'single' branch
   lies inside one region of a daemon lock, SocketConnection.close() empties the session table, and no other
   code in Pyro5 (register, unregister, housekeeping, ...) touches the two instance tables. *)
Theorem C09_source_shape : shape_ok code_shape = true.
Proof. reflexivity. Qed.
Print Assumptions C09_source_shape.

(* 'single', all histories: every call on the class, from whatever connection, is served by the same
   instance, and at most one creator invocation for the class ever succeeded. *)
Theorem C09_single_one_instance :
  forall (w : world) (modes : nat -> imode) (h : list event) (c : nat),
  modes c = MSingle ->
  (forall k k' a b, In (Call k c, Served a) (snd (run_hist code_shape w modes h st0)) ->
                    In (Call k' c, Served b) (snd (run_hist code_shape w modes h st0)) -> a = b) /\
  (forall n1 n2 t1 e1 t2 e2,
     nth_error (log (fst (run_hist code_shape w modes h st0))) n1 = Some (c, OMade t1 e1) ->
     nth_error (log (fst (run_hist code_shape w modes h st0))) n2 = Some (c, OMade t2 e2) -> n1 = n2).
Proof. exact (single_one_instance code_shape C09_source_shape). Qed.
Print Assumptions C09_single_one_instance.

(* 'single', all histories followed by all schedules: any number of threads concurrently call
   single-mode classes (first calls or not), one shared access per step, arbitrary schedule.  Whenever
   the lock is free, all instances observed for a class — in the sequential history before and by
   every concurrent caller that has returned — are one and the same, it is the one stored, exactly
   one creator invocation made it, and no second invocation for the class succeeded. *)
Theorem C09_single_one_instance_sched :
  forall (w : world) (modes : nat -> imode) (h : list event) (calls : list (list nat)) (sched : list nat),
  (forall i c, In c (nth i calls []) -> modes c = MSingle) ->
  let tr0 := snd (run_hist code_shape w modes h st0) in
  let cf := run sched (conc_init code_shape w (fst (run_hist code_shape w modes h st0)) calls) in
  owner cf = None ->
  forall c, modes c = MSingle ->
  (forall a b, served_in tr0 cf c a -> served_in tr0 cf c b -> a = b) /\
  (forall n1 n2 t1 e1 t2 e2, nth_error (log (shared cf)) n1 = Some (c, OMade t1 e1) ->
                             nth_error (log (shared cf)) n2 = Some (c, OMade t2 e2) -> n1 = n2) /\
  (forall a, served_in tr0 cf c a ->
             nth_error (log (shared cf)) (iid a) = Some (c, OMade (itruthy a) (ieqnone a)) /\
             singles (shared cf) c = Some a).
Proof. exact (single_one_instance_sched code_shape C09_source_shape). Qed.
Print Assumptions C09_single_one_instance_sched.

(* the interleaving semantics really is equivalent to running whole calls one after another *)
Theorem C09_sched_explained_by_a_history :
  forall (w : world) (modes : nat -> imode) (h : list event) (calls : list (list nat)) (sched : list nat),
  (forall i c, In c (nth i calls []) -> modes c = MSingle) ->
  let tr0 := snd (run_hist code_shape w modes h st0) in
  let cf := run sched (conc_init code_shape w (fst (run_hist code_shape w modes h st0)) calls) in
  owner cf = None ->
  exists tr, reach code_shape w modes (shared cf) (tr0 ++ tr) /\
    forall i c o, In (c, o) (done (tregs (threads cf i))) -> exists k, In (Call k c, o) (tr0 ++ tr).
Proof. exact (sched_explained code_shape C09_source_shape). Qed.
Print Assumptions C09_sched_explained_by_a_history.

(* a failing creator stores nothing, and the next call invokes the creator again *)
Theorem C09_single_failing_creator :
  forall (w : world) (modes : nat -> imode) (s : st) (k c : nat),
  modes c = MSingle ->
  (forall b, snd (step_ev code_shape w modes (Call k c) s) = Failed b ->
     singles s c = None /\ singles (fst (step_ev code_shape w modes (Call k c) s)) c = None) /\
  (singles s c = None ->
     log (fst (step_ev code_shape w modes (Call k c) s)) = log s ++ [(c, w (length (log s)) c)] /\
     snd (step_ev code_shape w modes (Call k c) s) = obs_of (length (log s)) c (w (length (log s)) c)).
Proof. exact (single_failing_creator code_shape C09_source_shape). Qed.
Print Assumptions C09_single_failing_creator.

(* 'session': two calls on the class are served by the same instance if and only if they come over
   the same connection with no Close of it (of any kind) in between (so: one instance per connection, never seen by
   another connection, not surviving the end of the connection). *)
Theorem C09_session_private :
  forall (w : world) (modes : nat -> imode) (h : list event) t1 t2 t3 k k' c a b,
  snd (run_hist code_shape w modes h st0) = t1 ++ (Call k c, Served a) :: t2 ++ (Call k' c, Served b) :: t3 ->
  modes c = MSession ->
  (iid a = iid b <-> (k = k' /\ forall how o, ~ In (Close k how, o) t2)) /\ (iid a = iid b -> a = b).
Proof. exact (session_private code_shape C09_source_shape). Qed.
Print Assumptions C09_session_private.

Theorem C09_session_dropped :
  forall (w : world) (modes : nat -> imode) (h : list event) (k : nat) (how : ending) (c : nat),
  sessions (fst (run_hist code_shape w modes (h ++ [Close k how]) st0)) k c = None.
Proof. exact (session_dropped code_shape C09_source_shape). Qed.
Print Assumptions C09_session_dropped.

(* 'percall': any two calls get different instances, and the creator runs once per call *)
Theorem C09_percall_fresh :
  forall (w : world) (modes : nat -> imode) (h : list event) (c : nat),
  modes c = MPercall ->
  (forall t1 t2 t3 k k' a b,
     snd (run_hist code_shape w modes h st0) = t1 ++ (Call k c, Served a) :: t2 ++ (Call k' c, Served b) :: t3 ->
     iid a <> iid b) /\
  invocations c (log (fst (run_hist code_shape w modes h st0))) = calls_on c (snd (run_hist code_shape w modes h st0)).
Proof. exact (percall_fresh code_shape C09_source_shape). Qed.
Print Assumptions C09_percall_fresh.

(* every mode: the successful creator invocations for a class are in bijection with the instances
   that served its calls (n-th invocation <-> instance n), every served instance is what the creator
   made, and the failed invocations are exactly the failed calls. *)
Theorem C09_creator_exactly_once :
  forall (w : world) (modes : nat -> imode) (h : list event) (c : nat),
  (forall n, (exists t e, nth_error (log (fst (run_hist code_shape w modes h st0))) n = Some (c, OMade t e)) <->
             (exists k a, In (Call k c, Served a) (snd (run_hist code_shape w modes h st0)) /\ iid a = n)) /\
  (forall k a, In (Call k c, Served a) (snd (run_hist code_shape w modes h st0)) ->
               icls a = c /\ w (iid a) c = OMade (itruthy a) (ieqnone a)) /\
  failed_invocations c (log (fst (run_hist code_shape w modes h st0))) =
  failed_calls c (snd (run_hist code_shape w modes h st0)).
Proof. exact (creator_exactly_once code_shape C09_source_shape). Qed.
Print Assumptions C09_creator_exactly_once.

(* Several daemons in one process (every event names its daemon): each daemon's tables, creator log and trace are
   exactly those it would have if it were alone with its own events ... *)
Theorem C09_daemons_independent :
  forall (w : nat -> world) (modes : nat -> imode) (h : list (nat * event)) (d : nat),
  mrun code_shape w modes h d = run_hist code_shape (w d) modes (proj d h) st0.
Proof. exact (daemons_independent code_shape). Qed.
Print Assumptions C09_daemons_independent.

(* ... so 'single' is one instance PER DAEMON: all calls that a daemon serves for the class get the same instance,
   and that instance was made by a creator invocation of this very daemon (never borrowed from another daemon). *)
Theorem C09_single_per_daemon :
  forall (w : nat -> world) (modes : nat -> imode) (h : list (nat * event)) (d c : nat),
  modes c = MSingle ->
  (forall k k' a b, In (Call k c, Served a) (snd (mrun code_shape w modes h d)) ->
                    In (Call k' c, Served b) (snd (mrun code_shape w modes h d)) -> a = b) /\
  (forall k a, In (Call k c, Served a) (snd (mrun code_shape w modes h d)) ->
     nth_error (log (fst (mrun code_shape w modes h d))) (iid a) = Some (c, OMade (itruthy a) (ieqnone a)) /\
     w d (iid a) c = OMade (itruthy a) (ieqnone a)).
Proof. exact (single_per_daemon code_shape C09_source_shape). Qed.
Print Assumptions C09_single_per_daemon.

(* The shapes the property excludes are really wrong (witnesses replayed on the real code by the harness). *)
Theorem C09_falsy_single_refuted :
  exists w modes h k k' c a b, modes c = MSingle /\
    In (Call k c, Served a) (snd (run_hist shape_falsy w modes h st0)) /\
    In (Call k' c, Served b) (snd (run_hist shape_falsy w modes h st0)) /\ a <> b.
Proof. exact falsy_single_refuted. Qed.
Print Assumptions C09_falsy_single_refuted.

Theorem C09_falsy_session_refuted :
  exists w modes h k c a b, modes c = MSession /\
    snd (run_hist shape_falsy w modes h st0) = [(Call k c, Served a); (Call k c, Served b)] /\ iid a <> iid b.
Proof. exact falsy_session_refuted. Qed.
Print Assumptions C09_falsy_session_refuted.

Theorem C09_eq_none_single_refuted :
  exists w modes h k k' c a b, modes c = MSingle /\
    In (Call k c, Served a) (snd (run_hist shape_eqnone w modes h st0)) /\
    In (Call k' c, Served b) (snd (run_hist shape_eqnone w modes h st0)) /\ a <> b.
Proof. exact eq_none_single_refuted. Qed.
Print Assumptions C09_eq_none_single_refuted.

Theorem C09_unlocked_single_refuted :
  exists w calls sched a b,
    let cf := run sched (conc_init shape_unlocked w st0 calls) in
    owner cf = None /\ In (0, Served a) (done (tregs (threads cf 0))) /\
    In (0, Served b) (done (tregs (threads cf 1))) /\ a <> b.
Proof. exact unlocked_single_refuted. Qed.
Print Assumptions C09_unlocked_single_refuted.

Example C09_nonvacuous_hist :
  let w := script_world [OMade false true; OFail; OMade true false] (OMade false false) in
  let modes := fun c => match c with 0 => MSingle | 1 => MSession | _ => MPercall end in
  map snd (snd (run_hist shape_fixed w modes
     [Call 0 0; Unreg 0; Reg 0 7 true; Call 1 0; Call 0 1; Call 1 1; Call 0 1; Close 0 EReset; Call 0 1; Call 0 2; Call 0 2] st0)) =
  [Served (mk_inst 0 0 false true); Admin; Admin; Served (mk_inst 0 0 false true); Failed false;
   Served (mk_inst 2 1 true false); Served (mk_inst 3 1 false false); Closed;
   Served (mk_inst 4 1 false false); Served (mk_inst 5 2 false false); Served (mk_inst 6 2 false false)].
Proof. vm_compute. reflexivity. Qed.

Example C09_nonvacuous_sched :
  let w := script_world [] (OMade false false) in
  let cf := run [0; 1; 0; 1; 0; 0; 0; 1; 1; 1] (conc_init shape_fixed w st0 [[0]; [0]]) in
  shape_ok shape_fixed = true /\ owner cf = None /\
  done (tregs (threads cf 0)) = [(0, Served (mk_inst 0 0 false false))] /\
  done (tregs (threads cf 1)) = [(0, Served (mk_inst 0 0 false false))] /\
  length (log (shared cf)) = 1.
Proof. vm_compute. repeat split; reflexivity. Qed.
