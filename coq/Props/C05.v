(* C05 — no client input can stop the daemon or disturb other clients: property theorems only.
   [tables] are the handler tables, call enclosure facts, reply-handler class tests and class
   hierarchy regenerated from Pyro5/server.py, svr_threads.py, svr_multiplex.py, errors.py on
   every run (Gen/GenHandlers.v); the general statements are lemmas of Proofs/Containment.v
   that hold for all tables passing the computed check. *)
From Coq Require Import List String Bool Arith.
Import ListNotations.
From V Require Import Model.ContainmentDefs Model.Containment Proofs.Containment Gen.GenHandlers.
Local Open Scope string_scope.

(* computed check over the generated tables: every path from a peer-influenced call up to (not
   including) the accept/event loop, or up to Worker.run, has a frame that contains every Exception
   subclass; and the five per-frame facts the event machine relies on *)
Theorem C05_tables_contained : containment_ok tables = true /\ safe_tables tables = true.
Proof. vm_compute. split; reflexivity. Qed.
Print Assumptions C05_tables_contained.

(* containment, general: for all tables that pass the check, every exception whose class has
   Exception in its mro (classes outside every table included), surfacing at any anchored
   peer-influenced call, is caught by a handler on the way up — before loop() in the accept /
   event-loop thread, by Worker.run's fall-through catch-all at the latest in a worker — even if
   the error-reply handler of handleRequest always re-raised *)
Theorem C05_containment_general : forall T, containment_ok T = true ->
  forall p, In p (all_paths T) -> forall e, is_exception e = true ->
  exists depth ord act, route_path T p 0 e = Contained depth ord act.
Proof. exact containment_general. Qed.
Print Assumptions C05_containment_general.

Theorem C05_containment : forall p, In p (all_paths tables) -> forall e, is_exception e = true ->
  exists depth ord act, route_path tables p 0 e = Contained depth ord act.
Proof. exact (containment_general tables (proj1 C05_tables_contained)). Qed.
Print Assumptions C05_containment.

(* loop_survives: for both servers, every pool size and every sequence of events on any number of
   connections, each event making arbitrary Exception subclasses surface at arbitrary points of
   _handshake / handleRequest / _sendExceptionResponse / the disconnect hook: the request loop is
   still running, every worker is back in the pool or serving a live connection (Pool.busy =
   number of connections being served; selector registrations = exactly those connections), and a
   connection that still counts was reported open by its last observation *)
Theorem C05_loop_survives : forall srv psize evs,
  wf_events evs = true ->
  let s := fst (run tables srv psize evs) in
  let os := snd (run tables srv psize evs) in
  alive s = true /\
  NoDup (live s) /\
  accounting srv s = List.length (live s) /\
  (forall c, In c (live s) -> still_open c os false = true).
Proof. exact (loop_survives tables (proj2 C05_tables_contained)). Qed.
Print Assumptions C05_loop_survives.

(* accounting returns to its pre-attack value once the connections being served are those of before *)
Theorem C05_accounting_restored : forall srv psize pre attack,
  wf_events pre = true -> wf_events attack = true ->
  let s0 := fst (run tables srv psize pre) in
  let s1 := fst (run_from tables srv psize s0 attack) in
  alive s1 = true /\
  (List.length (live s1) = List.length (live s0) -> accounting srv s1 = accounting srv s0).
Proof. exact (accounting_restored tables (proj2 C05_tables_contained)). Qed.
Print Assumptions C05_accounting_restored.

(* witness_unaffected: what is observed on connection w (replies, open/closed, hook) in a run where
   w only sends requests equals what is observed in the run restricted to w's own events, from any
   two states with a running loop that agree on whether w is being served *)
Theorem C05_witness_unaffected : forall srv psize evs s s' w,
  wf_events evs = true ->
  (forall ev, In ev evs -> on_conn w ev = true -> is_request ev = true) ->
  alive s = true -> alive s' = true -> has_conn w (live s) = has_conn w (live s') ->
  obs_on w (snd (run_from tables srv psize s evs)) =
  obs_on w (snd (run_from tables srv psize s' (filter (on_conn w) evs))).
Proof. exact (witness_unaffected tables (proj2 C05_tables_contained)). Qed.
Print Assumptions C05_witness_unaffected.

(* the defect (DESIGN section 7 row 12): with the pre-fix entries for denyConnection (no try, its
   _handshake call unprotected) the check fails and a two-connection history ends the accept loop:
   pool of one worker taken by connection 0; connection 1 sends garbage (ProtocolError inside the
   handshake's try) and resets, so the CONNECTFAIL send raises ConnectionClosedError *)
Definition C05_deny_witness : list event :=
  [ {| e_conn := 0; e_kind := EConnect; e_script := [] |};
    {| e_conn := 1; e_kind := EConnect;
       e_script := [ {| f_fn := FHandshake; f_site := asite tables FHandshake KRecvStub 0; f_recv := true;
                        f_exc := mro tables "errors.ProtocolError" |};
                     {| f_fn := FHandshake; f_site := asite tables FHandshake KSend 0; f_recv := false;
                        f_exc := mro tables "errors.ConnectionClosedError" |} ] |} ].
Theorem C05_deny_unguarded_refuted :
  containment_ok (unguard_deny tables) = false /\
  wf_events C05_deny_witness = true /\
  alive (fst (run (unguard_deny tables) SThread 1 C05_deny_witness)) = false.
Proof. vm_compute. repeat split; reflexivity. Qed.
Print Assumptions C05_deny_unguarded_refuted.

(* the second defect (reported 2026-10-02, reproduced): the except clauses of SocketServer_Multiplex.handleRequest
   formatted the exception they had caught with the % operator, under no protection.  With that pre-fix entry
   (add_mux_format) the check fails, and a method raising a ProtocolError subclass whose __str__ raises (no reply,
   re-raised as a communication error, caught by the catch-all, RuntimeError out of its log line) ends the loop *)
Definition C05_format_witness : list event :=
  [ {| e_conn := 0; e_kind := EConnect; e_script := [] |};
    {| e_conn := 1; e_kind := EConnect; e_script := [] |};
    {| e_conn := 1; e_kind := ERequest {| q_oneway := false; q_callback := false; q_stream := false |};
       e_script := [ {| f_fn := FHandleRequest; f_site := asite tables FHandleRequest KMethod 1; f_recv := false;
                        f_exc := "BadStrProto" :: mro tables "errors.ProtocolError" |};
                     {| f_fn := FMuxHandleReq; f_site := None; f_recv := false; f_exc := mro tables "RuntimeError" |} ] |} ].
Theorem C05_mux_format_unguarded_refuted :
  containment_ok (add_mux_format tables) = false /\
  wf_events C05_format_witness = true /\
  alive (fst (run (add_mux_format tables) SMux 4 C05_format_witness)) = false.
Proof. vm_compute. repeat split; reflexivity. Qed.
Print Assumptions C05_mux_format_unguarded_refuted.

(* non-vacuity: there are paths; the same history on the current tables keeps the loop alive, answers
   nothing on connection 1 and closes it; a request whose method raises an unserialisable exception
   while the peer has reset ends only that connection and the worker returns *)
Example C05_nonvacuous_paths : Nat.leb 40 (List.length (all_paths tables)) = true.
Proof. vm_compute. reflexivity. Qed.
Example C05_nonvacuous_deny :
  run tables SThread 1 C05_deny_witness =
  ({| alive := true; busy := 1; live := [0] |},
   [ {| o_conn := 0; o_reply := Some ConnOk; o_open := true; o_hook := false; o_left := 0 |};
     {| o_conn := 1; o_reply := None; o_open := false; o_hook := false; o_left := 0 |} ]).
Proof. vm_compute. reflexivity. Qed.
Example C05_nonvacuous_format :     (* the same history on the current tables: only connection 1 ends *)
  fst (run tables SMux 4 C05_format_witness) = {| alive := true; busy := 0; live := [0] |}.
Proof. vm_compute. reflexivity. Qed.
Example C05_nonvacuous_request :
  let boom := ["Boom"; "Exception"; "BaseException"] in
  let ev := {| e_conn := 1; e_kind := ERequest {| q_oneway := false; q_callback := false; q_stream := false |};
               e_script := [ {| f_fn := FHandleRequest; f_site := asite tables FHandleRequest KMethod 1; f_recv := false; f_exc := boom |};
                             {| f_fn := FSendExc; f_site := asite tables FSendExc KDumps 0; f_recv := false; f_exc := mro tables "TypeError" |};
                             {| f_fn := FSendExc; f_site := asite tables FSendExc KSend 0; f_recv := false;
                                f_exc := mro tables "errors.ConnectionClosedError" |} ] |} in
  wf_events [ev] = true /\
  run_from tables SMux 4 {| alive := true; busy := 0; live := [1; 0] |} [ev] =
  ({| alive := true; busy := 0; live := [0] |},
   [ {| o_conn := 1; o_reply := None; o_open := false; o_hook := true; o_left := 0 |} ]).
Proof. vm_compute. split; reflexivity. Qed.
