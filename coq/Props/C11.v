(* C11 — property theorems only.  Each is closed by [exact] of a lemma from Proofs/Batch.v,
   instantiated at the facts regenerated from Pyro5/server.py, client.py, core.py
   (Gen/GenBatch.v), followed by Print Assumptions.  All statements quantify over every
   reference object (any state/call/value/exception types, any deterministic [step], any
   exposure gate [gate]), every call list and every initial state. *)
From Coq Require Import List ZArith Bool.
Import ListNotations.
From V Require Import Model.Batch Proofs.Batch Gen.GenBatch.

(* A sequential run stops at the first failure: the caller saw successes and then at most one
   exception, and the calls that were executed are exactly the prefix of the call list up to
   it (a call refused by the exposure gate is not executed; one that raised is the last). *)
Theorem C11_seq_stops_at_first_failure :
  forall (state call value exn : Type) (gate : state -> call -> option exn)
         (step : state -> call -> state * outcome value exn) (calls : list call) (s : state),
  let q := run_seq gate step calls s in
  exists vs : list value,
    (r_outs q = map Ok vs /\ r_log q = calls /\ length vs = length calls)
    \/ (exists e c, r_outs q = map Ok vs ++ [Exc e] /\ nth_error calls (length vs) = Some c /\
          ((gate (r_state q) c = Some e /\ r_log q = firstn (length vs) calls)
           \/ r_log q = firstn (S (length vs)) calls)).
Proof. exact seq_shape. Qed.
Print Assumptions C11_seq_stops_at_first_failure.

(* Normal batch = sequential run: same final object state; the same calls executed (so nothing
   after the first failure); and the caller gets either the very same sequence of results ending
   in the failing call's own exception at its index, or — when the failing call was refused by
   the gate — that call's own exception from the submission, the sequential run having failed
   at exactly that call with exactly that exception. *)
Theorem C11_batch_equiv :
  forall (state call value exn : Type) (gate : state -> call -> option exn)
         (step : state -> call -> state * outcome value exn) (calls : list call) (s : state),
  let b := run_batch gate step loop_breaks false calls s in
  let q := run_seq gate step calls s in
  b_state b = r_state q /\ b_log b = r_log q /\
  match b_obs b with
  | CStream outs => outs = r_outs q
  | CRaised e => exists vs c, r_outs q = map Ok vs ++ [Exc e] /\ nth_error calls (length vs) = Some c /\
                              gate (r_state q) c = Some e /\ r_log q = firstn (length vs) calls
  | CNothing => False
  end.
Proof. exact (fun state call value exn gate step => batch_equiv state call value exn gate step loop_breaks eq_refl). Qed.
Print Assumptions C11_batch_equiv.

(* An exception met while replaying the results of a batch is the last item of the stream, is
   the sequential run's exception at the same index, and exactly the first i+1 calls ran. *)
Theorem C11_failure_at_its_index :
  forall (state call value exn : Type) (gate : state -> call -> option exn)
         (step : state -> call -> state * outcome value exn) (calls : list call) (s : state)
         (outs : list (outcome value exn)) (i : nat) (e : exn),
  b_obs (run_batch gate step loop_breaks false calls s) = CStream outs ->
  nth_error outs i = Some (Exc e) ->
  S i = length outs /\ nth_error (r_outs (run_seq gate step calls s)) i = Some (Exc e) /\
  b_log (run_batch gate step loop_breaks false calls s) = firstn (S i) calls.
Proof. exact (fun state call value exn gate step => stream_failure_position state call value exn gate step loop_breaks eq_refl). Qed.
Print Assumptions C11_failure_at_its_index.

(* Oneway batch: same final state, same executed prefix, and nothing comes back. *)
Theorem C11_oneway_batch :
  forall (state call value exn : Type) (gate : state -> call -> option exn)
         (step : state -> call -> state * outcome value exn) (calls : list call) (s : state),
  let b := run_batch gate step loop_breaks true calls s in
  let q := run_seq gate step calls s in
  b_state b = r_state q /\ b_log b = r_log q /\ b_obs b = CNothing.
Proof. exact (fun state call value exn gate step => oneway_batch state call value exn gate step loop_breaks eq_refl). Qed.
Print Assumptions C11_oneway_batch.

(* A re-used BatchProxy, for EVERY history of events (queue a call / submit normally or oneway /
   pull up to n results of the k-th earlier submission immediately, late, partially or never):
   each submission is exactly the calls queued since the previous submission, and is the
   sequential run of those calls on the object as the earlier submissions left it (same state, same
   executed calls, same results / own exception as in C11_batch_equiv; nothing for oneway); pulling
   results yields the first items of that sequential run and disturbs nothing; final object states
   agree.  (Queue initially [queue], earlier result streams [subs]: arbitrary.) *)
Theorem C11_history_equiv :
  forall (state call value exn : Type) (gate : state -> call -> option exn)
         (step : state -> call -> state * outcome value exn)
         (evs : list (event call)) (s : state) (queue : list call) (subs : list (list (outcome value exn))),
  Forall2 (fun h p =>
             match h, p with
             | HQueued, SQueued => True
             | HSub calls b, SSub calls' ow q =>
                 calls = calls' /\ b_state b = r_state q /\ b_log b = r_log q /\
                 (if ow then b_obs b = CNothing
                  else match b_obs b with
                       | CStream outs => outs = r_outs q
                       | CRaised e => exists vs c, r_outs q = map Ok vs ++ [Exc e] /\ nth_error calls (length vs) = Some c /\
                                                   gate (r_state q) c = Some e /\ r_log q = firstn (length vs) calls
                       | CNothing => False
                       end)
             | HIter o, SIter o' => o = o'
             | _, _ => False
             end)
          (fst (run_history gate step loop_breaks false evs s queue subs))
          (fst (spec_history gate step evs s queue subs))
  /\ snd (run_history gate step loop_breaks false evs s queue subs) = snd (spec_history gate step evs s queue subs).
Proof. exact (fun state call value exn gate step => history_equiv state call value exn gate step loop_breaks eq_refl). Qed.
Print Assumptions C11_history_equiv.

(* The defective re-use (finding reuse-after-failed-submit: the queue survives a submission that
   raised) violates that specification: the executed prefix runs again, the new call never does. *)
Theorem C11_keep_queue_on_raise_refuted :
  exists evs s, snd (acc_history true true evs s [] []) <> snd (acc_spec_history evs s [] []).
Proof. exact keep_on_raise_refuted. Qed.
Print Assumptions C11_keep_queue_on_raise_refuted.

(* The other structural facts the model takes from the source, re-checked on the tables
   regenerated on this run: wrapper appended in place, gate called per member before the call and
   outside the try, plain results appended, no reply and no error reply for oneway, the client
   generator re-raises the wrapper and yields everything else, raiseIt raises the wrapped
   exception, the generator is returned only when not oneway, flags set, no wait when oneway. *)
Theorem C11_source_structure : forallb (fun b => b) batch_structure = true.
Proof. vm_compute. reflexivity. Qed.
Print Assumptions C11_source_structure.

(* Without the `break` the batch is not the sequential run (accumulator instance, concrete batch). *)
Theorem C11_no_break_refuted :
  exists calls s, b_state (acc_batch false false calls s) <> r_state (acc_seq calls s)
               /\ b_log (acc_batch false false calls s) <> r_log (acc_seq calls s).
Proof. exact nobreak_refuted. Qed.
Print Assumptions C11_no_break_refuted.

(* The defective submission (finding batch-submit-spurious-error: marshal serializer) loses the batch. *)
Theorem C11_submit_fails_refuted :
  exists calls s, b_state (run_batch_submit_fails (value:=aval) ESubmit calls s) <> r_state (acc_seq calls s).
Proof. exact submit_fails_refuted. Qed.
Print Assumptions C11_submit_fails_refuted.

(* non-vacuity on the accumulator: a batch whose third call fails state-dependently (stream ends
   in that exception, fourth call not executed), one refused by the gate (raised at submission,
   first call executed), and the oneway version *)
Example C11_nonvacuous_stream :
  let calls := [ {| c_meth := MAdd; c_arg := 5 |}; {| c_meth := MMul; c_arg := 3 |};
                 {| c_meth := MSub; c_arg := 16 |}; {| c_meth := MAdd; c_arg := 1 |} ]%Z in
  b_obs (acc_batch loop_breaks false calls 0%Z) = CStream [Ok (VInt 5); Ok (VInt 15); Exc (EValue 15 16)]
  /\ b_state (acc_batch loop_breaks false calls 0%Z) = 15%Z
  /\ length (b_log (acc_batch loop_breaks false calls 0%Z)) = 3%nat.
Proof. vm_compute. auto. Qed.
Example C11_nonvacuous_refused :
  let calls := [ {| c_meth := MAdd; c_arg := 5 |}; {| c_meth := MHidden; c_arg := 1 |};
                 {| c_meth := MAdd; c_arg := 1 |} ]%Z in
  b_obs (acc_batch loop_breaks false calls 2%Z) = CRaised (EAttr WUnexposed)
  /\ b_state (acc_batch loop_breaks false calls 2%Z) = 7%Z
  /\ r_outs (acc_seq calls 2%Z) = [Ok (VInt 7); Exc (EAttr WUnexposed)].
Proof. vm_compute. auto. Qed.
Example C11_nonvacuous_oneway :
  let calls := [ {| c_meth := MBoom; c_arg := 4 |}; {| c_meth := MAdd; c_arg := 1 |} ]%Z in
  b_obs (acc_batch loop_breaks true calls 1%Z) = CNothing /\ b_state (acc_batch loop_breaks true calls 1%Z) = 5%Z.
Proof. vm_compute. auto. Qed.
Example C11_nonvacuous_history :
  let evs := [ EvQueue {| c_meth := MAdd; c_arg := 1 |}; EvQueue {| c_meth := MAdd; c_arg := 2 |}; EvSubmit false;
               EvQueue {| c_meth := MAdd; c_arg := 10 |}; EvQueue {| c_meth := MBoom; c_arg := 1 |};
               EvQueue {| c_meth := MAdd; c_arg := 100 |}; EvIterate 0 1; EvSubmit false; EvIterate 1 9 ]%Z in
  snd (acc_history loop_breaks false evs 0%Z [] []) = 14%Z /\
  nth 6 (fst (acc_history loop_breaks false evs 0%Z [] [])) HQueued = HIter [Ok (VInt 1)] /\
  nth 8 (fst (acc_history loop_breaks false evs 0%Z [] [])) HQueued = HIter [Ok (VInt 13); Exc (ERuntime 14)].
Proof. vm_compute. auto. Qed.
(* returned is not raised: a call that SUCCEEDS with an exception object as its value is an ordinary
   result — the batch goes on and the object is yielded, not raised *)
Example C11_nonvacuous_returned_exception :
  let calls := [ {| c_meth := MAdd; c_arg := 3 |}; {| c_meth := MLastErr; c_arg := 1 |}; {| c_meth := MAdd; c_arg := 5 |} ]%Z in
  b_obs (acc_batch loop_breaks false calls 0%Z) = CStream [Ok (VInt 3); Ok (VExc (EValue 3 1)); Ok (VInt 8)]
  /\ b_state (acc_batch loop_breaks false calls 0%Z) = 8%Z.
Proof. vm_compute. auto. Qed.
