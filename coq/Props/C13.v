(* C13 — every connection is cleaned up exactly once, however it ends.  Property theorems only.
   Model: Model/Cleanup.v (events of any number of connections -> trace of
   DisconnectHook c | ResClose c r | SockClosed c | SlotReleased c); the structure of the cleanup paths of both
   transport servers ([thread_shape], [mux_shape]) is regenerated from the source on every run (Gen/GenCleanup.v);
   [cfg thread pool hk] is the thread-pool server with [pool] workers / the multiplex server, run by a Daemon subclass
   whose clientDisconnect hook RAISES exactly for the connections selected by [hk]. *)
From Coq Require Import List Arith Bool.
Import ListNotations.
From V Require Import Model.Cleanup Proofs.Cleanup Proofs.CleanupSrc Gen.GenCleanup Harness.H13.

(* Tie to the source: in both servers the code that runs when a connection's request loop is left calls the
   disconnect hook exactly once, releases the slot, closes the socket, drops the session instances and closes the
   tracked resources exactly once before clearing the set; none of that release is skipped when the user hook raises
   (inside the try that guards the hook nothing follows the hook call); every class of exception leaving Daemon.handleRequest
   (connection closed, protocol, timeout, security, anything else) leaves the loop; SecurityError and
   @callback exceptions are re-raised by Daemon.handleRequest. *)
Theorem C13_source_shapes_ok : shape_ok thread_shape = true /\ shape_ok mux_shape = true.
Proof. exact source_shapes_ok. Qed.
Print Assumptions C13_source_shapes_ok.

(* Tie to the source, thread server: Worker.run does not write its job slot after it has handed itself back to the
   pool.  (The model's Connect gives an accepted connection a slot and serves it; that presupposes that a job the
   accept loop stores in a just-idled worker is not overwritten.  The interleaving itself is exercised on the real
   daemon by the harness' forced hand-over scenarios and, schedule by schedule, by C18.) *)
Theorem C13_source_worker_handback_ordered : worker_job_cleared_before_handback = true.
Proof. exact source_worker_handback_ordered. Qed.
Print Assumptions C13_source_worker_handback_ordered.

(* For every event sequence over any number of connections, both server types, any pool size, and every
   connection c that passed the handshake and has ended (in whatever way): the events split at the event at
   which c ended; with s = the connection's state at that moment (after the part of that event that was still
   served), the c-part of the WHOLE trace is exactly one run of the cleanup sequence on s.  Hence exactly one
   DisconnectHook c, one SockClosed c, one SlotReleased c, exactly one ResClose c r for every resource r tracked
   and not untracked on c at that moment (none for any other), and afterwards no session instance, no slot, no
   socket, no tracked resource. *)
Theorem C13_cleanup_exactly_once :
  forall (thread : bool) (pool : nat) (hk : conn -> bool) (evs : list event) (c : conn),
  let cf := cfg thread pool hk in
  let st := fst (run cf evs) in let tr := snd (run cf evs) in
  c_acc (conns st c) = true -> c_ended (conns st c) = true ->
  exists evs1 ev evs2, evs = evs1 ++ ev :: evs2 /\
    let s := pre_end (conns (fst (run cf evs1)) c) ev in
    active s = true /\
    for_conn c tr = snd (run_acts c s (sh_cleanup (cf_shape cf))) /\
    count (DisconnectHook c) tr = 1 /\ count (SockClosed c) tr = 1 /\ count (SlotReleased c) tr = 1 /\
    (forall r, count (ResClose c r) tr = if mem r (c_tracked s) then 1 else 0) /\
    c_inst (conns st c) = false /\ c_slot (conns st c) = false /\ c_open (conns st c) = false /\
    c_tracked (conns st c) = [].
Proof. exact cleanup_exactly_once_src. Qed.
Print Assumptions C13_cleanup_exactly_once.

(* The same for ANY cleanup structure that passes the computed check (so the theorem is about the structure,
   not about today's two instances). *)
Theorem C13_cleanup_exactly_once_any_shape :
  forall (cf : config), shape_ok (cf_shape cf) = true ->
  forall (evs : list event) (c : conn),
  let st := fst (run cf evs) in let tr := snd (run cf evs) in
  c_acc (conns st c) = true -> c_ended (conns st c) = true ->
  exists evs1 ev evs2, evs = evs1 ++ ev :: evs2 /\
    let s := pre_end (conns (fst (run cf evs1)) c) ev in
    active s = true /\
    for_conn c tr = snd (run_acts c s (sh_cleanup (cf_shape cf))) /\
    count (DisconnectHook c) tr = 1 /\ count (SockClosed c) tr = 1 /\ count (SlotReleased c) tr = 1 /\
    (forall r, count (ResClose c r) tr = if mem r (c_tracked s) then 1 else 0) /\
    c_inst (conns st c) = false /\ c_slot (conns st c) = false /\ c_open (conns st c) = false /\
    c_tracked (conns st c) = [].
Proof. exact cleanup_exactly_once. Qed.
Print Assumptions C13_cleanup_exactly_once_any_shape.

(* Every way of ending does end the connection: orderly close, abrupt close at ANY byte k of a request (whether
   or not the request was still served), malformed request, any other exception escaping handleRequest, a method
   raising SecurityError, a @callback method raising, and k > 0 bytes followed by silence past COMMTIMEOUT —
   from every reachable state in which the daemon still serves c. *)
Theorem C13_every_ending_ends :
  forall (thread : bool) (pool : nat) (hk : conn -> bool) (evs : list event) (ev : event) (c : conn),
  let cf := cfg thread pool hk in
  active (conns (fst (run cf evs)) c) = true -> is_ending ev c = true ->
  c_ended (conns (fst (step cf (fst (run cf evs)) ev)) c) = true.
Proof. exact every_ending_ends_src. Qed.
Print Assumptions C13_every_ending_ends.

(* Connections that have not ended are unaffected: nothing in the trace concerns them (no hook, no resource close,
   no socket close, no slot release) ... *)
Theorem C13_others_untouched :
  forall (cf : config) (evs : list event) (c : conn),
  c_ended (conns (fst (run cf evs)) c) = false -> for_conn c (snd (run cf evs)) = [].
Proof. exact others_untouched. Qed.
Print Assumptions C13_others_untouched.

(* ... and an event addressed to another connection leaves their whole state (tracked resources, session
   instance, socket, slot) unchanged, from any state. *)
Theorem C13_others_state_unchanged :
  forall (cf : config) (st : state) (ev : event) (c : conn),
  ev_conn ev <> c -> c_ended (conns (fst (step cf st ev)) c) = false ->
  conns (fst (step cf st ev)) c = conns st c.
Proof. exact step_frame. Qed.
Print Assumptions C13_others_state_unchanged.

(* What "tracked and not untracked" means in the model: a served track request puts r into the connection's set,
   a served untrack request takes it out, neither touches any other resource. *)
Theorem C13_tracking_semantics :
  forall (cf : config) (st : state) (c : conn) (t : target) (r : res),
  active (conns st c) = true ->
  mem r (c_tracked (conns (fst (step cf st (Req c t (Track r)))) c)) = true /\
  mem r (c_tracked (conns (fst (step cf st (Req c t (Untrack r)))) c)) = false /\
  (forall r', r' <> r ->
     mem r' (c_tracked (conns (fst (step cf st (Req c TPlain (Track r)))) c)) = mem r' (c_tracked (conns st c)) /\
     mem r' (c_tracked (conns (fst (step cf st (Req c TPlain (Untrack r)))) c)) = mem r' (c_tracked (conns st c))).
Proof. exact tracking_semantics. Qed.
Print Assumptions C13_tracking_semantics.

(* A resource tracked by a CONSTRUCTOR while a request is served belongs to that request's connection (and, by
   C13_others_state_unchanged, to no other): a session-mode class constructs on the first request of the connection
   that needs it and never again; a percall class on every request. *)
Theorem C13_ctor_tracking :
  forall (cf : config) (st : state) (c : conn) (r : res) (a : action),
  active (conns st c) = true ->
  (c_inst (conns st c) = false ->
     mem r (c_tracked (conns (fst (step cf st (Req c (TSession (Some r)) Nop))) c)) = true /\
     c_inst (conns (fst (step cf st (Req c (TSession (Some r)) a))) c) = true) /\
  (c_inst (conns st c) = true ->
     conns (fst (step cf st (Req c (TSession (Some r)) Nop))) c = conns st c) /\
  mem r (c_tracked (conns (fst (step cf st (Req c (TPercall (Some r)) Nop))) c)) = true.
Proof. exact ctor_tracking. Qed.
Print Assumptions C13_ctor_tracking.

(* Tie to the source: Daemon.handleRequest binds the call context to the connection before the target instance is
   constructed. *)
Theorem C13_source_context_bound_before_construction : ctx_client_bound_before_construction = true.
Proof. exact source_context_bound_first. Qed.
Print Assumptions C13_source_context_bound_before_construction.

(* By design (both servers): a refused handshake closes the socket and does not run the hook. *)
Theorem C13_source_reject_no_hook :
  nacts AHook (sh_reject thread_shape) = 0 /\ nacts AHook (sh_reject mux_shape) = 0 /\
  0 < nacts ASock (sh_reject thread_shape) /\ 0 < nacts ASock (sh_reject mux_shape).
Proof. exact source_reject_no_hook. Qed.
Print Assumptions C13_source_reject_no_hook.

(* Non-vacuity (stated without reference to the ORDER of the cleanup actions, which differs between the servers
   and may change harmlessly): two connections on the thread server (pool 3); connection 0 tracks resources 1 and 2
   (one through its session instance, whose constructor tracks resource 4), untracks 2, then the client closes at byte 17 of a request; connection 1
   tracks 1 and stays open.  Connection 0 is accepted and ended; the trace is hook, socket, close of resource 1,
   slot for connection 0 and nothing else; connection 1 is untouched and still tracks resource 1. *)
Example C13_nonvacuous :
  let evs := [Connect 0 true; Connect 1 true; Req 0 (TSession (Some 4)) (Track 1); Req 0 TPlain (Track 2); Req 1 TPlain (Track 1);
              Req 0 TPlain (Untrack 2); End 0 (EAbrupt 17 None)] in
  let st := fst (run (cfg true 3 (fun c => Nat.eqb c 0)) evs) in let tr := snd (run (cfg true 3 (fun c => Nat.eqb c 0)) evs) in
  c_acc (conns st 0) = true /\ c_ended (conns st 0) = true /\
  count (DisconnectHook 0) tr = 1 /\ count (SockClosed 0) tr = 1 /\ count (ResClose 0 1) tr = 1 /\
  count (ResClose 0 4) tr = 1 /\ count (ResClose 0 2) tr = 0 /\ count (SlotReleased 0) tr = 1 /\ length tr = 5 /\ for_conn 1 tr = [] /\
  c_ended (conns st 1) = false /\ c_tracked (conns st 1) = [1] /\ slots st = 1.
Proof. vm_compute. repeat split. Qed.
(* ... and on the multiplex server a security error ends connection 0 while a timeout elsewhere does not touch it *)
Example C13_nonvacuous_mux :
  let evs := [Connect 0 true; Connect 1 true; Req 0 (TSession None) (Track 3); Timeout 1 5; Raise 0 TPlain FSecurity] in
  let st := fst (run (cfg false 0 (fun _ => true)) evs) in let tr := snd (run (cfg false 0 (fun _ => true)) evs) in
  let st1 := fst (run (cfg false 0 (fun _ => true)) (firstn 4 evs)) in let tr1 := snd (run (cfg false 0 (fun _ => true)) (firstn 4 evs)) in
  c_ended (conns st1 1) = true /\ c_ended (conns st1 0) = false /\ for_conn 0 tr1 = [] /\ c_tracked (conns st1 0) = [3] /\
  c_acc (conns st 0) = true /\ c_ended (conns st 0) = true /\
  count (DisconnectHook 1) tr = 1 /\ count (DisconnectHook 0) tr = 1 /\ count (ResClose 0 3) tr = 1 /\
  count (ResClose 1 3) tr = 0 /\ length tr = 7 /\ slots st = 0.
Proof. vm_compute. repeat split. Qed.
