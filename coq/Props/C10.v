(* C10 — property theorems only (remote iterators).  Each is closed by [exact] of a lemma from
   Proofs/Streams.v about the model Model/Streams.v, which tools/harness/C10.py runs against the
   real Proxy / _StreamResultIterator / Daemon.  [after cfg t0 evs] is the server state reached from
   the empty table at clock t0 by the arbitrary event history evs (Open / Next / CloseStream /
   Disconnect / Housekeep / Tick, from any connections, in any interleaving); the theorems hold for
   every configuration, including both readings of the two expiry comparisons extracted into
   Gen/GenStreams.v. *)
From Coq Require Import List NArith Bool.
Import ListNotations.
From V Require Import Model.Streams Proofs.Streams Gen.GenStreams Harness.H10.
Local Open Scope N_scope.

(* While the server remembers stream id, delivered ++ remaining = the items of its own source, in
   order; what has been delivered for an id is always a prefix of that id's own source (nothing
   lost, repeated, reordered or taken from another stream); an id without a source gets nothing. *)
Theorem C10_items_exact : forall cfg t0 evs id,
  let st := fst (run cfg (init t0) evs) in
  let tr := snd (run cfg (init t0) evs) in
  (forall s, lookup id (tbl st) = Some s ->
     source_from 0 evs id = Some (yields (delivered tr id) ++ rest s)) /\
  (forall items, source_from 0 evs id = Some items ->
     exists suffix, items = yields (delivered tr id) ++ suffix) /\
  (source_from 0 evs id = None -> delivered tr id = [] /\ lookup id (tbl st) = None).
Proof. exact items_exact. Qed.
Print Assumptions C10_items_exact.

(* Every answer to a request for the next item, after any history: an item is the first undelivered
   item of that stream's source; StopIteration means everything was delivered and the source is
   exhausted; a raised error is the one the source raises at exactly that position; otherwise the
   stream is unknown to the server ("item stream terminated"). *)
Theorem C10_next_answer_exact : forall cfg t0 evs c id,
  let st := fst (run cfg (init t0) evs) in
  let tr := snd (run cfg (init t0) evs) in
  match snd (step cfg st (Next c id)) with
  | RItem v => exists r, source_from 0 evs id = Some (yields (delivered tr id) ++ Yield v :: r)
  | RStop => source_from 0 evs id = Some (yields (delivered tr id))
  | RRaised e => exists r, source_from 0 evs id = Some (yields (delivered tr id) ++ Raise e :: r)
  | RError => lookup id (tbl st) = None
  | _ => False
  end.
Proof. exact next_answer_exact. Qed.
Print Assumptions C10_next_answer_exact.

(* ends_right, other direction: while a stream is remembered the answer is determined by its source and
   the number of items delivered so far — StopIteration exactly when the source is exhausted. *)
Theorem C10_ends_right : forall cfg t0 evs c id s,
  let st := fst (run cfg (init t0) evs) in
  let tr := snd (run cfg (init t0) evs) in
  lookup id (tbl st) = Some s ->
  exists items, source_from 0 evs id = Some items /\
    snd (step cfg st (Next c id)) =
    match skipn (length (delivered tr id)) items with
    | [] => RStop | Yield v :: _ => RItem v | Raise e :: _ => RRaised e
    end.
Proof. exact next_answer_complete. Qed.
Print Assumptions C10_ends_right.

(* exhaustion / failure removes the stream in that very step *)
Theorem C10_ends_forgets : forall cfg t0 evs c id,
  match snd (step cfg (after cfg t0 evs) (Next c id)) with
  | RStop | RRaised _ | RError => lookup id (tbl (fst (step cfg (after cfg t0 evs) (Next c id)))) = None
  | _ => True
  end.
Proof. exact ends_removed_reach. Qed.
Print Assumptions C10_ends_forgets.

(* A remembered stream leaves the table in one step exactly when: it is asked for its next item and is
   exhausted or raises; it is closed; its owning connection ends and linger = 0; housekeeping sees its
   lifetime exceeded; housekeeping sees its linger period exceeded.  (Both directions.) *)
Theorem C10_forgets_exactly_when : forall cfg t0 evs id s ev,
  lookup id (tbl (after cfg t0 evs)) = Some s ->
  (lookup id (tbl (fst (step cfg (after cfg t0 evs) ev))) = None <-> forget_cause cfg (after cfg t0 evs) id s ev).
Proof. exact forget_iff_reach. Qed.
Print Assumptions C10_forgets_exactly_when.

(* Once an existing stream (also one never registered because streaming is off) is not in the table,
   it never comes back and every later request for its next item is an error, never an item. *)
Theorem C10_forgotten_means_error : forall cfg t0 evs evs' id,
  id < opens evs -> lookup id (tbl (after cfg t0 evs)) = None ->
  lookup id (tbl (fst (run cfg (after cfg t0 evs) evs'))) = None /\
  (forall c r, In (Next c id, r) (snd (run cfg (after cfg t0 evs) evs')) -> r = RError).
Proof. exact forgotten_means_error_reach. Qed.
Print Assumptions C10_forgotten_means_error.

(* The owner's connection ends; anything not naming the stream happens meanwhile (other streams, other
   disconnects, housekeeping, clock ticks) with total time within the linger period and the lifetime;
   then a request from any connection c' gets the next item and c' owns the stream again. *)
Theorem C10_linger_resume : forall cfg t0 evs id s c c' v r mid, 0 < linger cfg ->
  let st := after cfg t0 evs in
  lookup id (tbl st) = Some s -> owner s = Some c -> rest s = Yield v :: r ->
  forallb (fun ev => negb (touches id ev)) mid = true ->
  within (linger_strict cfg) (linger cfg) (ticks mid) = true ->
  (lifetime cfg = 0 \/ within (lifetime_strict cfg) (lifetime cfg) (now st + ticks mid - created s) = true) ->
  let st1 := fst (run cfg st (Disconnect c :: mid)) in
  snd (step cfg st1 (Next c' id)) = RItem v /\
  lookup id (tbl (fst (step cfg st1 (Next c' id)))) =
    Some {| owner := Some c'; created := created s; linger_since := 0; rest := r |}.
Proof. exact linger_resume_reach. Qed.
Print Assumptions C10_linger_resume.

(* ... and when the linger period has passed, the next housekeeping step forgets the stream. *)
Theorem C10_linger_expiry : forall cfg t0 evs id s c mid, 0 < t0 -> 0 < linger cfg ->
  let st := after cfg t0 evs in
  lookup id (tbl st) = Some s -> owner s = Some c ->
  forallb (fun ev => negb (touches id ev)) mid = true ->
  exceeded (linger_strict cfg) (linger cfg) (ticks mid) = true ->
  lookup id (tbl (fst (run cfg st (Disconnect c :: mid ++ [Housekeep])))) = None.
Proof. exact linger_expiry_reach. Qed.
Print Assumptions C10_linger_expiry.

(* Quiescence after any history: all owning connections end, the linger period passes, housekeeping
   runs once — the stream table is empty. *)
Theorem C10_table_empty_at_quiescence : forall cfg t0 evs conns dt, 0 < t0 ->
  let st := after cfg t0 evs in
  (forall id s c, lookup id (tbl st) = Some s -> owner s = Some c -> In c conns) ->
  exceeded (linger_strict cfg) (linger cfg) dt = true ->
  tbl (fst (run cfg st (quiesce conns dt))) = [].
Proof. exact quiescence_reach. Qed.
Print Assumptions C10_table_empty_at_quiescence.

(* No leak: in a history that only names existing stream ids, once every opened stream has been ended
   for its clients (StopIteration / error / "terminated" answer, or close_stream) the table is empty. *)
Theorem C10_table_empty_when_all_finished : forall cfg t0 evs, wf_from 0 evs = true ->
  (forall id, id < opens evs -> finished (snd (run cfg (init t0) evs)) id = true) ->
  tbl (fst (run cfg (init t0) evs)) = [].
Proof. exact table_empty_when_all_finished. Qed.
Print Assumptions C10_table_empty_when_all_finished.

(* The client layer (proxies, _StreamResultIterator objects: what the harness drives) only acts on the
   daemon through server events: the server state after any list of client operations is the state after the
   event history those operations issued — so all theorems above cover every client-level history. *)
Theorem C10_client_histories_are_server_histories : forall cfg ops cs,
  srv (fst (fst (crun cfg cs ops))) = fst (run cfg (srv cs) (snd (crun cfg cs ops))).
Proof. exact crun_refines. Qed.
Print Assumptions C10_client_histories_are_server_histories.

(* non-vacuity, with the configuration and comparisons generated from the source (defaults: linger 30 s) *)
Definition ex_hist : list event :=
  [Open 0 [Yield 7; Yield 8; Yield 9]; Open 1 [Yield 1; Raise 5; Yield 2]; Next 0 0; Next 1 1; Next 0 0].
Example C10_nonvacuous_items :
  delivered (snd (run default_config (init 1000) ex_hist)) 0 = [7; 8] /\
  map (fun kv => (fst kv, rest (snd kv))) (tbl (after default_config 1000 ex_hist)) = [(0, [Yield 9]); (1, [Raise 5; Yield 2])].
Proof. vm_compute. auto. Qed.
Example C10_nonvacuous_linger_resume :
  snd (step default_config (fst (run default_config (after default_config 1000 ex_hist)
                                     (Disconnect 0 :: [Tick 10; Housekeep; Next 1 1; Tick 19; Housekeep]))) (Next 2 0)) = RItem 9.
Proof. vm_compute. reflexivity. Qed.
Example C10_nonvacuous_linger_expiry :
  snd (step default_config (fst (run default_config (after default_config 1000 ex_hist)
                                     (Disconnect 0 :: [Tick 10; Tick 21] ++ [Housekeep]))) (Next 2 0)) = RError.
Proof. vm_compute. reflexivity. Qed.
Example C10_nonvacuous_quiescence :
  tbl (after default_config 1000 ex_hist) <> [] /\
  tbl (fst (run default_config (after default_config 1000 ex_hist) (quiesce [0; 1] (linger default_config + 1)))) = [].
Proof. vm_compute. split; [discriminate | reflexivity]. Qed.
Example C10_nonvacuous_all_finished :
  let evs := ex_hist ++ [Next 0 0; Next 0 0; CloseStream 3 1] in
  wf_from 0 evs = true /\ forallb (finished (snd (run default_config (init 1000) evs))) [0; 1] = true.
Proof. vm_compute. auto. Qed.
