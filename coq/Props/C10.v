(* C10 — property theorems only (remote iterators).  Each is closed by [exact] of a lemma from
   Proofs/Streams.v about the model Model/Streams.v, which tools/harness/C10.py runs against the
   real Proxy / _StreamResultIterator / Daemon.  [after cfg t0 evs] is the server state reached from
   the empty table at clock t0 by the arbitrary event history evs (Open / Next / CloseStream /
   Disconnect / Housekeep / Tick, from any connections, in any interleaving); the theorems hold for
   every configuration, including both readings of the two expiry comparisons extracted into
   Gen/GenStreams.v. *)
From Coq Require Import List NArith Bool.
Import ListNotations.
From V Require Import Model.Streams Proofs.Streams Gen.GenStreams Harness.H10.
Local Open Scope N_scope.

(* While the server remembers stream id, delivered ++ remaining = the items of its own source, in
   order; what has been delivered for an id is always a prefix of that id's own source (nothing
   lost, repeated, reordered or taken from another stream); an id without a source gets nothing. *)
Theorem C10_items_exact : forall cfg t0 evs id,
  let st := fst (run cfg (init t0) evs) in
  let tr := snd (run cfg (init t0) evs) in
  (forall s, lookup id (tbl st) = Some s ->
     source_from 0 evs id = Some (yields (delivered tr id) ++ rest s)) /\
  (forall items, source_from 0 evs id = Some items ->
     exists suffix, items = yields (delivered tr id) ++ suffix) /\
  (source_from 0 evs id = None -> delivered tr id = [] /\ lookup id (tbl st) = None).
Proof. exact items_exact. Qed.
Print Assumptions C10_items_exact.

(* Every answer to a request for the next item, after any history: an item is the first undelivered
   item of that stream's source; StopIteration means everything was delivered and the source is
   exhausted; a raised error is the one the source raises at exactly that position; otherwise the
   stream is unknown to the server ("item stream terminated"). *)
Theorem C10_next_answer_exact : forall cfg t0 evs c id,
  let st := fst (run cfg (init t0) evs) in
  let tr := snd (run cfg (init t0) evs) in
  match snd (step cfg st (Next c id)) with
  | RItem v => exists r, source_from 0 evs id = Some (yields (delivered tr id) ++ Yield v :: r)
  | RStop => source_from 0 evs id = Some (yields (delivered tr id))
  | RRaised e => exists r, source_from 0 evs id = Some (yields (delivered tr id) ++ Raise e :: r)
  | RError => lookup id (tbl st) = None
  | _ => False
  end.
Proof. exact next_answer_exact. Qed.
Print Assumptions C10_next_answer_exact.

(* ends_right, other direction: while a stream is remembered the answer is determined by its source and
   the number of items delivered so far — StopIteration exactly when the source is exhausted. *)
Theorem C10_ends_right : forall cfg t0 evs c id s,
  let st := fst (run cfg (init t0) evs) in
  let tr := snd (run cfg (init t0) evs) in
  lookup id (tbl st) = Some s ->
  exists items, source_from 0 evs id = Some items /\
    snd (step cfg st (Next c id)) =
    match skipn (length (delivered tr id)) items with
    | [] => RStop | Yield v :: _ => RItem v | Raise e :: _ => RRaised e
    end.
Proof. exact next_answer_complete. Qed.
Print Assumptions C10_ends_right.

(* exhaustion / failure removes the stream in that very step *)
Theorem C10_ends_forgets : forall cfg t0 evs c id,
  match snd (step cfg (after cfg t0 evs) (Next c id)) with
  | RStop | RRaised _ | RError => lookup id (tbl (fst (step cfg (after cfg t0 evs) (Next c id)))) = None
  | _ => True
  end.
Proof. exact ends_removed_reach. Qed.
Print Assumptions C10_ends_forgets.

(* A remembered stream leaves the table in one step exactly when: it is asked for its next item and is
   exhausted or raises; it is closed; its owning connection ends and linger = 0; housekeeping sees its
   lifetime exceeded; housekeeping sees its linger period exceeded.  (Both directions.) *)
Theorem C10_forgets_exactly_when : forall cfg t0 evs id s ev,
  lookup id (tbl (after cfg t0 evs)) = Some s ->
  (lookup id (tbl (fst (step cfg (after cfg t0 evs) ev))) = None <-> forget_cause cfg (after cfg t0 evs) id s ev).
Proof. exact forget_iff_reach. Qed.
Print Assumptions C10_forgets_exactly_when.

(* Once an existing stream (also one never registered because streaming is off) is not in the table,
   it never comes back and every later request for its next item is an error, never an item. *)
Theorem C10_forgotten_means_error : forall cfg t0 evs evs' id,
  id < opens evs -> lookup id (tbl (after cfg t0 evs)) = None ->
  lookup id (tbl (fst (run cfg (after cfg t0 evs) evs'))) = None /\
  (forall c r, In (Next c id, r) (snd (run cfg (after cfg t0 evs) evs')) -> r = RError).
Proof. exact forgotten_means_error_reach. Qed.
Print Assumptions C10_forgotten_means_error.

(* The owner's connection ends; anything not naming the stream happens meanwhile (other streams, other
   disconnects, housekeeping, clock ticks) with total time within the linger period and the lifetime;
   then a request from any connection c' gets the next item and c' owns the stream again. *)
Theorem C10_linger_resume : forall cfg t0 evs id s c c' v r mid, 0 < linger cfg ->
  let st := after cfg t0 evs in
  lookup id (tbl st) = Some s -> owner s = Some c -> rest s = Yield v :: r ->
  forallb (fun ev => negb (touches id ev)) mid = true ->
  within (linger_strict cfg) (linger cfg) (ticks mid) = true ->
  (lifetime cfg = 0 \/ within (lifetime_strict cfg) (lifetime cfg) (now st + ticks mid - created s) = true) ->
  let st1 := fst (run cfg st (Disconnect c :: mid)) in
  snd (step cfg st1 (Next c' id)) = RItem v /\
  lookup id (tbl (fst (step cfg st1 (Next c' id)))) =
    Some {| owner := Some c'; created := created s; linger_since := 0; rest := r |}.
Proof. exact linger_resume_reach. Qed.
Print Assumptions C10_linger_resume.

(* ... and when the linger period has passed, the next housekeeping step forgets the stream. *)
Theorem C10_linger_expiry : forall cfg t0 evs id s c mid, 0 < t0 -> 0 < linger cfg ->
  let st := after cfg t0 evs in
  lookup id (tbl st) = Some s -> owner s = Some c ->
  forallb (fun ev => negb (touches id ev)) mid = true ->
  exceeded (linger_strict cfg) (linger cfg) (ticks mid) = true ->
  lookup id (tbl (fst (run cfg st (Disconnect c :: mid ++ [Housekeep])))) = None.
Proof. exact linger_expiry_reach. Qed.
Print Assumptions C10_linger_expiry.

(* Quiescence after any history: all owning connections end, the linger period passes, housekeeping
   runs once — the stream table is empty. *)
Theorem C10_table_empty_at_quiescence : forall cfg t0 evs conns dt, 0 < t0 ->
  let st := after cfg t0 evs in
  (forall id s c, lookup id (tbl st) = Some s -> owner s = Some c -> In c conns) ->
  exceeded (linger_strict cfg) (linger cfg) dt = true ->
  tbl (fst (run cfg st (quiesce conns dt))) = [].
Proof. exact quiescence_reach. Qed.
Print Assumptions C10_table_empty_at_quiescence.

(* No leak: in a history that only names existing stream ids, once every opened stream has been ended
   for its clients (StopIteration / error / "terminated" answer, or close_stream) the table is empty. *)
Theorem C10_table_empty_when_all_finished : forall cfg t0 evs, wf_from 0 evs = true ->
  (forall id, id < opens evs -> finished (snd (run cfg (init t0) evs)) id = true) ->
  tbl (fst (run cfg (init t0) evs)) = [].
Proof. exact table_empty_when_all_finished. Qed.
Print Assumptions C10_table_empty_when_all_finished.

(* ------------------------------------------------------------------ inside the disconnect handling
   Daemon._clientDisconnect is a loop; other daemon threads (the oneway close_stream thread, another connection
   exhausting a stream, the housekeeper) can remove entries between two iterations.  [MVisit c id] = one loop
   iteration (re-read the entry, then mark it lingering / delete it), [MRemove id] = a removal by another thread. *)

(* the atomic Disconnect step used in all theorems above is exactly one undisturbed pass of that loop *)
Theorem C10_disconnect_is_visits : forall cfg t0 evs c id,
  let st := after cfg t0 evs in
  lookup id (tbl (fst (step cfg st (Disconnect c)))) =
  lookup id (micro_run cfg (now st) (tbl st) (map (MVisit c) (keys (tbl st)))).
Proof. exact (fun cfg t0 evs c id => disconnect_is_visits cfg (after cfg t0 evs) c id (after_inv cfg t0 evs)). Qed.
Print Assumptions C10_disconnect_is_visits.

(* closed ids are never re-inserted, as long as loop iterations are atomic: in ANY interleaving of whole loop
   iterations (of any connections) and removals, a stream removed at some point is not in the table at the end *)
Theorem C10_closed_never_reinserted : forall cfg nw ms1 ms2 t id,
  lookup id (micro_run cfg nw t (ms1 ++ MRemove id :: ms2)) = None.
Proof. exact closed_never_reinserted. Qed.
Print Assumptions C10_closed_never_reinserted.

(* a pass disturbed by a removal at any point ends, for every stream, like: the removal, then an undisturbed pass
   (this is how the harness models a release raced by close_stream / housekeeping) *)
Theorem C10_racing_disconnect_outcome : forall cfg nw c ks1 ks2 id t k, NoDup (ks1 ++ ks2) ->
  lookup k (micro_run cfg nw t (map (MVisit c) ks1 ++ MRemove id :: map (MVisit c) ks2)) =
  lookup k (micro_run cfg nw (remove id t) (map (MVisit c) (ks1 ++ ks2))).
Proof. exact racing_disconnect_outcome. Qed.
Print Assumptions C10_racing_disconnect_outcome.

(* REFUTED for the loop as it is written: the iteration is not atomic — the entry is re-read ([M2Read]) and written
   back ([M2Write]) in two steps, and a removal of that very entry in between is undone by the write-back: a closed
   stream is in the table again, lingering.  (Open finding closed-stream-relingered-in-reread-window; the harness
   schedules this window on the real daemon and the correspondence model reproduces it.) *)
Theorem C10_closed_reinserted_in_reread_window_refuted :
  exists cfg nw ms1 ms2 t id,
    lookup id (micro2_run cfg nw t (ms1 ++ M2Remove id :: ms2)) <> None.
Proof.
  exists default_config, 1005, [M2Read 0 0], [M2Write 0 0],
         (tbl (after default_config 1000 [Open 0 [Yield 7; Yield 8]])), 0.
  vm_compute. discriminate.
Qed.
Print Assumptions C10_closed_reinserted_in_reread_window_refuted.

(* the loop iteration of the source has the shape [MVisit] assumes: it re-reads each entry it writes back *)
Theorem C10_disconnect_rereads_entries : gen_disconnect_rereads = true.
Proof. vm_compute. reflexivity. Qed.
Print Assumptions C10_disconnect_rereads_entries.

(* ------------------------------------------------------------------ client side ------------------------------------------------------------------
   [cafter pol cfg t0 n ops]: n proxies, the arbitrary list ops of client operations (open a stream, next() on a
   stream object, next() hit by a transport failure, close(), release / reconnect of a proxy, housekeeping, clock
   ticks) run from the start.  [copened tr] are the item lists of the streams the client was handed, by handle
   number; [taken tr h] the items the daemon handed out for client stream h, [received tr h] those that arrived.
   [no_raw]: streams are only used through their own iterator object (ids are unguessable).
   [gen_policy] is the except-clause of _StreamResultIterator.__next__ as extracted from client.py on this run. *)

(* The client layer acts on the daemon only through server events: the daemon's state after any list of client
   operations is the state after the event history they issued (with the same answers) — so every theorem
   above applies to every client-level history. *)
Theorem C10_client_histories_are_server_histories : forall pol cfg ops cs,
  run cfg (srv cs) (map fst (s_trace (crun pol cfg cs ops))) =
  (srv (c_state (crun pol cfg cs ops)), s_trace (crun pol cfg cs ops)).
Proof. exact crun_refines. Qed.
Print Assumptions C10_client_histories_are_server_histories.

(* __next__ drops its proxy reference (ends for good) on StopIteration and on nothing else *)
Theorem C10_next_drops_proxy_only_on_stop :
  drop_stop gen_policy = true /\ drop_raised gen_policy = false /\ drop_error gen_policy = false /\ drop_comm gen_policy = false.
Proof. vm_compute. auto. Qed.
Print Assumptions C10_next_drops_proxy_only_on_stop.

(* Each client stream is handed exactly the items of its own stream, in order, each once: what the daemon handed out
   for handle h is a prefix of the item list that was opened as handle h (never of another one). *)
Theorem C10_client_items_exact : forall pol cfg t0 n ops h items, no_raw ops = true ->
  let R := crun pol cfg (cinit t0 n) ops in
  nth_error (copened (c_trace R)) (N.to_nat h) = Some items ->
  exists suffix, items = yields (taken (c_trace R) h) ++ suffix.
Proof. exact client_items_exact. Qed.
Print Assumptions C10_client_items_exact.

(* ... and unless the reply to one of its own next() calls was lost in transit, everything handed out arrived:
   what the client stream yielded is itself that prefix — nothing lost, nothing repeated, across any number of
   communication errors (request lost), disconnects and reconnects. *)
Theorem C10_client_nothing_lost : forall pol cfg t0 n ops h items, no_raw ops = true ->
  forallb (fun op => negb (reply_lost_on h op)) ops = true ->
  let R := cafter pol cfg t0 n ops in
  nth_error (copened (c_trace R)) (N.to_nat h) = Some items ->
  received (c_trace R) h = taken (c_trace R) h /\ exists suffix, items = yields (received (c_trace R) h) ++ suffix.
Proof. exact client_received_exact. Qed.
Print Assumptions C10_client_nothing_lost.

(* What next() on client stream h answers after any history: an item is the first item of its own list not yet
   handed out; a re-raised error is the error its own list raises at exactly that position; StopIteration comes
   from an iterator object that has dropped its proxy, or means its own list is exhausted and fully handed out. *)
Theorem C10_client_next_answer : forall pol cfg t0 n ops h, no_raw ops = true ->
  let R := crun pol cfg (cinit t0 n) ops in
  match snd (fst (cstep pol cfg (c_state R) (CNext h))) with
  | CItem v => exists items r, nth_error (copened (c_trace R)) (N.to_nat h) = Some items /\
                               items = yields (taken (c_trace R) h) ++ Yield v :: r
  | CStop => iter_ready (c_state R) h = Dropped \/
             nth_error (copened (c_trace R)) (N.to_nat h) = Some (yields (taken (c_trace R) h))
  | CRaised e => exists items r, nth_error (copened (c_trace R)) (N.to_nat h) = Some items /\
                                 items = yields (taken (c_trace R) h) ++ Raise e :: r
  | _ => True
  end.
Proof. exact client_next_answer. Qed.
Print Assumptions C10_client_next_answer.

(* StopIteration exactly at exhaustion: with the extracted except-clause, next() raises StopIteration only if the
   stream's own list is exhausted and fully handed out, or the stream object ended before (an earlier StopIteration,
   or close()) — in particular never because of a communication error or a re-raised exception. *)
Theorem C10_client_stop_exact : forall cfg t0 n ops h, no_raw ops = true ->
  let R := cafter gen_policy cfg t0 n ops in
  snd (fst (cstep gen_policy cfg (c_state R) (CNext h))) = CStop ->
  ended (c_trace R) h = true \/ nth_error (copened (c_trace R)) (N.to_nat h) = Some (yields (taken (c_trace R) h)).
Proof. exact (fun cfg t0 n ops h => client_stop_exact gen_policy cfg t0 n ops h eq_refl eq_refl eq_refl). Qed.
Print Assumptions C10_client_stop_exact.

(* ... and ever after: once next() on a client stream answered StopIteration, it does so on every later call,
   whatever else happens (from any client state). *)
Theorem C10_client_stop_ever_after : forall cfg cs h op ops, asks h op = true ->
  snd (fst (cstep gen_policy cfg cs op)) = CStop ->
  forall e, In e (c_trace (crun gen_policy cfg (fst (fst (cstep gen_policy cfg cs op))) ops)) ->
            asks h (fst e) = true -> snd e = CStop.
Proof. exact (fun cfg cs h op ops => stop_ever_after gen_policy cfg cs h op ops eq_refl). Qed.
Print Assumptions C10_client_stop_ever_after.

(* A generator's exception is re-raised once and the stream is then ended: after next() re-raised (or reported the
   stream terminated), no later next() on that stream object ever yields an item or raises a generator error again. *)
Theorem C10_client_raise_once : forall pol cfg t0 n ops h ops',
  let cs := c_state (cafter pol cfg t0 n ops) in
  match snd (fst (cstep pol cfg cs (CNext h))) with CRaised _ | CError => True | _ => False end ->
  forall e, In e (c_trace (crun pol cfg (fst (fst (cstep pol cfg cs (CNext h)))) ops')) ->
            asks h (fst e) = true -> no_item (snd e).
Proof. exact client_failed_then_ended. Qed.
Print Assumptions C10_client_raise_once.

(* Communication error in the middle of next() (request lost), clock ticks and housekeeping within linger and
   lifetime, reconnect: next() answers "connection closed" until the reconnect, and after it yields exactly the
   next item not yet handed out — with the extracted except-clause, which must not drop the proxy on that error. *)
Theorem C10_client_resume_after_comm_error : forall cfg t0 n ops h it p px c s v r mid, 0 < linger cfg ->
  let cs := c_state (cafter gen_policy cfg t0 n ops) in
  iter_ready cs h = Ready it p px c ->
  lookup (ci_sid it) (tbl (srv cs)) = Some s -> owner s = Some c -> rest s = Yield v :: r ->
  forallb is_time mid = true ->
  within (linger_strict cfg) (linger cfg) (ticks (flat_map time_event mid)) = true ->
  (lifetime cfg = 0 \/
   within (lifetime_strict cfg) (lifetime cfg) (now (srv cs) + ticks (flat_map time_event mid) - created s) = true) ->
  let S1 := cstep gen_policy cfg cs (CNextFault h ReqLost) in
  let cs2 := c_state (crun gen_policy cfg (fst (fst S1)) mid) in
  let cs3 := fst (fst (cstep gen_policy cfg cs2 (CReconnect p))) in
  snd (fst S1) = CCommErr None /\
  snd (fst (cstep gen_policy cfg cs2 (CNext h))) = CClosedLocal /\
  snd (fst (cstep gen_policy cfg cs3 (CNext h))) = CItem v.
Proof. exact (fun cfg t0 n ops h it p px c s v r mid => client_resume_reach gen_policy cfg t0 n ops h it p px c s v r mid eq_refl). Qed.
Print Assumptions C10_client_resume_after_comm_error.

(* non-vacuity, with the configuration and comparisons generated from the source (defaults: linger 30 s) *)
Definition ex_hist : list event :=
  [Open 0 [Yield 7; Yield 8; Yield 9]; Open 1 [Yield 1; Raise 5; Yield 2]; Next 0 0; Next 1 1; Next 0 0].
Example C10_nonvacuous_items :
  delivered (snd (run default_config (init 1000) ex_hist)) 0 = [7; 8] /\
  map (fun kv => (fst kv, rest (snd kv))) (tbl (after default_config 1000 ex_hist)) = [(0, [Yield 9]); (1, [Raise 5; Yield 2])].
Proof. vm_compute. auto. Qed.
Example C10_nonvacuous_linger_resume :
  snd (step default_config (fst (run default_config (after default_config 1000 ex_hist)
                                     (Disconnect 0 :: [Tick 10; Housekeep; Next 1 1; Tick 19; Housekeep]))) (Next 2 0)) = RItem 9.
Proof. vm_compute. reflexivity. Qed.
Example C10_nonvacuous_linger_expiry :
  snd (step default_config (fst (run default_config (after default_config 1000 ex_hist)
                                     (Disconnect 0 :: [Tick 10; Tick 21] ++ [Housekeep]))) (Next 2 0)) = RError.
Proof. vm_compute. reflexivity. Qed.
Example C10_nonvacuous_quiescence :
  tbl (after default_config 1000 ex_hist) <> [] /\
  tbl (fst (run default_config (after default_config 1000 ex_hist) (quiesce [0; 1] (linger default_config + 1)))) = [].
Proof. vm_compute. split; [discriminate | reflexivity]. Qed.
Example C10_nonvacuous_all_finished :
  let evs := ex_hist ++ [Next 0 0; Next 0 0; CloseStream 3 1] in
  wf_from 0 evs = true /\ forallb (finished (snd (run default_config (init 1000) evs))) [0; 1] = true.
Proof. vm_compute. auto. Qed.

(* client side: two proxies, two streams interleaved, a communication error in the middle, reconnect, exhaustion *)
Definition ex_ops : list cop :=
  [COpen 0 [Yield 7; Yield 8; Yield 9]; COpen 1 [Yield 1; Raise 5]; CNext 0; CNext 1; CNextFault 0 ReqLost; CNext 0;
   CTick 10; CHousekeep; CReconnect 0; CNext 0; CNext 1; CNext 1; CNext 0; CNext 0; CNext 0].
Example C10_nonvacuous_client :
  no_raw ex_ops = true /\
  map snd (c_trace (cafter gen_policy default_config 1000 2 ex_ops)) =
  [COpened 0; COpened 1; CItem 7; CItem 1; CCommErr None; CClosedLocal; CNone; CNone; CNone; CItem 8;
   CRaised 5; CError; CItem 9; CStop; CStop] /\
  received (c_trace (cafter gen_policy default_config 1000 2 ex_ops)) 0 = [7; 8; 9].
Proof. vm_compute. auto. Qed.
Example C10_nonvacuous_client_resume :
  let cs := c_state (cafter gen_policy default_config 1000 1 [COpen 0 [Yield 7; Yield 8]; CNext 0]) in
  exists it px s, iter_ready cs 0 = Ready it 0 px 0 /\ lookup (ci_sid it) (tbl (srv cs)) = Some s /\
                  owner s = Some 0 /\ rest s = [Yield 8].
Proof. vm_compute. eexists. eexists. eexists. repeat split. Qed.

Example C10_nonvacuous_racing_disconnect :
  let t := tbl (after default_config 1000 [Open 0 [Yield 1]; Open 0 [Yield 2]; Open 0 [Yield 3]]) in
  map fst (micro_run default_config 1000 t [MVisit 0 0; MRemove 2; MVisit 0 1; MVisit 0 2]) = [0; 1] /\
  map (fun kv => owner (snd kv)) (micro_run default_config 1000 t [MVisit 0 0; MRemove 2; MVisit 0 1; MVisit 0 2]) = [None; None].
Proof. vm_compute. auto. Qed.

Example C10_nonvacuous_split_iteration_without_race :
  let t := tbl (after default_config 1000 [Open 0 [Yield 7; Yield 8]; Open 1 [Yield 1]]) in
  map (fun kv => (fst kv, owner (snd kv)))
      (micro2_run default_config 1005 t [M2Read 0 0; M2Write 0 0; M2Read 0 1; M2Write 0 1; M2Remove 0]) = [(1, Some 1)].
Proof. vm_compute. reflexivity. Qed.
