(* C01 — values cross the wire unchanged, identically for arguments and results.
   Property theorems only (proofs in Proofs/Serializers.v, Proofs/SerializersWire.v).

   [wire tb s p v] (Model/Serializers.v) is what value v, sent with serializer s in position p
   (positional argument / keyword argument / result), is delivered as, given the table tb of Pyro5's
   own layers around the library call.  [gen_table] is that table as regenerated from
   Pyro5/serializers.py on this run (Gen/GenSerializers.v). *)
From Coq Require Import List NArith ZArith Bool.
Import ListNotations.
From V Require Import Model.Values Model.Serializers Gen.GenSerializers Proofs.Values Proofs.Serializers.
From V Require Model.Bytes Model.Wire Gen.GenProtocol Proofs.Wire Proofs.SerializersWire.

(* Tie to the source: in every serializer class dumpsCall/loadsCall (for positional and for keyword
   arguments) and dumps/loads pass the same hooks and apply the same Pyro5 layers ... *)
Theorem C01_source_hooks_symmetric : hooks_symmetric gen_table = true.
Proof. exact gen_symmetric. Qed.
Print Assumptions C01_source_hooks_symmetric.

(* ... none of a serializer's layers is missing on any path, msgpack's ext_hook decodes each
   ExtType code with the constructor matching what default() encoded under that code, and the byte
   codec of every ExtType payload (complex, big integer, datetime, date) is the one for which
   "ext_hook inverts default" is the assumption validated by the correspondence run. *)
Theorem C01_source_hooks_complete :
  hooks_complete gen_table = true /\ ext_codes_match = true /\ ext_codecs_known = true.
Proof. exact (conj gen_complete (conj codes_ok codecs_known)). Qed.
Print Assumptions C01_source_hooks_complete.

(* The mapping is the same for arguments as for results: for every hook table with the same layers
   on the three paths, every serializer and every value (supported, refused or outside the domain
   alike) the three outcomes coincide. *)
Theorem C01_wire_path_symmetric : forall tb : table, hooks_symmetric tb = true ->
  forall (s : ser) (v : val),
  wire tb s Arg v = wire tb s Result v /\ wire tb s Kwarg v = wire tb s Result v.
Proof. exact wire_path_symmetric. Qed.
Print Assumptions C01_wire_path_symmetric.

(* ... in particular for the code as it is now *)
Theorem C01_wire_path_symmetric_source : forall (s : ser) (v : val),
  wire gen_table s Arg v = wire gen_table s Result v /\ wire gen_table s Kwarg v = wire gen_table s Result v.
Proof. exact (wire_path_symmetric gen_table gen_symmetric). Qed.
Print Assumptions C01_wire_path_symmetric_source.

(* The mapping changes nothing when applied twice: whatever is delivered is delivered as itself
   when sent again — all four serializers, all paths, every value of the nested value type.
   Excluded for serpent only: values containing a complex number whose real and imaginary parts
   are both negative zeros (see C01_serpent_complex_negzero_refuted). *)
Theorem C01_wire_idempotent : forall (tb : table) (s : ser) (p : path) (v v' : val),
  complete s (tb s p) = true ->
  (s = Serpent -> no_negzero_complex v = true) ->
  wire tb s p v = Delivered v' -> wire tb s p v' = Delivered v'.
Proof. exact wire_idempotent. Qed.
Print Assumptions C01_wire_idempotent.

Theorem C01_wire_idempotent_source : forall (s : ser) (p : path) (v v' : val),
  (s = Serpent -> no_negzero_complex v = true) ->
  wire gen_table s p v = Delivered v' -> wire gen_table s p v' = Delivered v'.
Proof. exact (fun s p v v' => wire_idempotent gen_table s p v v' (gen_complete_at s p)). Qed.
Print Assumptions C01_wire_idempotent_source.

(* Lossless core: None, booleans, every integer, every float (inf, nan, -0.0), text, lists and
   string-keyed dicts (key other than "__class__"), nested to any depth, are delivered exactly as
   sent by every serializer on every path. *)
Theorem C01_lossless_core : forall (tb : table) (s : ser) (p : path) (v : val),
  complete s (tb s p) = true -> core v = true -> wire tb s p v = Delivered v.
Proof. exact lossless_core. Qed.
Print Assumptions C01_lossless_core.

Theorem C01_lossless_core_source : forall (s : ser) (p : path) (v : val),
  core v = true -> wire gen_table s p v = Delivered v.
Proof. exact (fun s p v => lossless_core gen_table s p v (gen_complete_at s p)). Qed.
Print Assumptions C01_lossless_core_source.

(* Compression on or off, payload below or above the threshold: the bytes the serializer produced
   are the bytes handed to the deserializer on the other side, with the same serializer id
   (C06's round trip specialised to the payload; zlib is the oracle [unz]).  Since [wire] does not
   depend on the transport, delivery is the same with compression on and off. *)
Theorem C01_compression_transparent :
  forall (c : Wire.wcfg) (m : Wire.smsg) (z bs : Bytes.bytes) acc unz,
  NoDup (map fst (Wire.s_anns m)) ->
  (forall cid, Wire.s_corr m = Some cid -> length cid = 16%nat) ->
  Proofs.Wire.accepts acc (Wire.s_type m) ->
  (Proofs.Wire.compresses c m = true -> unz = Some (Wire.s_payload m)) ->
  Wire.encode c m z = Wire.Ok bs ->
  exists r, Wire.recv_stub c acc unz bs = (Wire.Ok r, Bytes.Nlen bs) /\
            Wire.r_data r = Wire.s_payload m /\ Wire.r_ser r = Wire.s_ser m.
Proof. exact SerializersWire.compression_transparent. Qed.
Print Assumptions C01_compression_transparent.

(* The code as it was at the pinned commit (MsgpackSerializer.loadsCall without ext_hook) violates
   the property: 2**70, a value of the lossless core, comes back intact as a result but reaches
   the server method as an ExtType object, as positional and as keyword argument. *)
Theorem C01_msgpack_call_without_ext_hook_refuted :
  exists v : val, core v = true /\
    wire quirk_table Msgpack Result v = Delivered v /\
    wire quirk_table Msgpack Arg v <> wire quirk_table Msgpack Result v /\
    wire quirk_table Msgpack Kwarg v <> Delivered v.
Proof. exact msgpack_quirk_refuted. Qed.
Print Assumptions C01_msgpack_call_without_ext_hook_refuted.

(* Open finding (third-party serpent library): the mapping is not idempotent on complex(-0.0, -0.0):
   it is delivered as complex(-0.0, 0.0), which sent again is delivered as complex(0.0, 0.0). *)
Theorem C01_serpent_complex_negzero_refuted :
  exists v v' : val, wire gen_table Serpent Result v = Delivered v' /\
                     wire gen_table Serpent Result v' <> Delivered v'.
Proof. exact serpent_negzero_not_idempotent. Qed.
Print Assumptions C01_serpent_complex_negzero_refuted.

(* non-vacuity: a nested core value with a 2^70 integer, NaN, -0.0 and astral text is delivered
   unchanged by all four serializers on all three paths; a non-core value is mapped (json: tuple,
   set, uuid, date become list, list, text, text) and the image is a fixed point *)
Example C01_nonvacuous :
  let v := VDict [(VStr [107%N], VList [VInt (2 ^ 70); VFloat FNaN; VFloat (FBits 9223372036854775808%N);
                                        VStr [128512%N; 0%N]; VNone; VBool true; VDict []])] in
  core v = true /\
  forallb (fun s => forallb (fun p => match wire gen_table s p v with Delivered v' => true | _ => false end)
                            [Arg; Kwarg; Result]) all_sers = true /\
  let w := VTuple [VSet [VInt 1]; VUuid [97%N]; VDate 1 [49%N]] in
  wire gen_table Json Arg w = Delivered (VList [VList [VInt 1]; VStr [97%N]; VStr [49%N]]) /\
  wire gen_table Json Arg (VList [VList [VInt 1]; VStr [97%N]; VStr [49%N]])
    = Delivered (VList [VList [VInt 1]; VStr [97%N]; VStr [49%N]]) /\
  wire gen_table Msgpack Arg (VList [VInt (2 ^ 70); VComplex (FBits 0) FNaN]) =
    Delivered (VList [VInt (2 ^ 70); VComplex (FBits 0) FNaN]) /\
  wire gen_table Serpent Result (VBytes [97%N; 98%N; 255%N]) =
    Delivered (VDict [(VStr t_data, VStr [89%N; 87%N; 76%N; 47%N]); (VStr t_encoding, VStr t_base64)]).
Proof. vm_compute. repeat split; reflexivity. Qed.
