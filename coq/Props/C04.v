(* C04 — property theorems only.  Each is closed by [exact] of a lemma from Proofs/ClassTag.v,
   instantiated at the tables that tools/gen/gen_classtag.py regenerates from Pyro5/serializers.py
   (decision chain of dict_to_class, hook table of the serializers, name tables of builtins /
   Pyro5.errors / sqlite3) on every run, followed by Print Assumptions. *)
From Coq Require Import List NArith ZArith Bool String.
Import ListNotations.
From V Require Import Model.ClassTagDefs Model.ClassTag Proofs.ClassTag Gen.GenClassTag Harness.H04.

(* Computed over the generated tables: every class the chain names is in the closed set, every namespace lookup is
   guarded by the right issubclass test, all_exceptions holds only exception classes of builtins / Pyro5.errors,
   bytes tags are decoded first, the registry is consulted before the refusal, the "__" refusal is present,
   and dict_to_class imports only Pyro5's own modules (plus sqlite3 in its branch). *)
Theorem C04_tables_ok : tables_ok = true.
Proof. exact gen_tables_ok. Qed.
Print Assumptions C04_tables_ok.

(* Computed: every serializer re-creates classes top-down on both decoding paths, i.e. dict_to_class only ever sees
   members that are still plain data (false while msgpack uses object_hook: see C04_bottomup_refuted). *)
Theorem C04_hooks_topdown : hooks_topdown ser_hooks = true.
Proof. exact gen_hooks_topdown. Qed.
Print Assumptions C04_hooks_topdown.

(* closed_world: for every registry, every tag value (text, bytes, anything) and every truthiness of the flags,
   dict_to_class rejects, runs a converter registered for exactly that tag, or constructs a class of the closed set
   (fixed Pyro types, struct.error, exception classes bound in builtins / sqlite3, PyroError subclasses of Pyro5.errors);
   the only import statement it can reach is sqlite3's. *)
Theorem C04_closed_world : forall reg tag flag imps a,
  gen_decide reg tag flag = (imps, a) -> imports_ok imps /\ action_ok gen_env reg a.
Proof. exact gen_closed_world. Qed.
Print Assumptions C04_closed_world.

(* dunder_refused: a text tag containing "__" that has no registered converter is refused with SecurityError,
   before any lookup — also when it arrives as UTF-8 bytes. *)
Theorem C04_dunder_refused : forall reg s flag,
  substr dunder s = true -> mem s reg = false -> gen_decide reg (VStr s) flag = ([], AReject ESecurity).
Proof. exact gen_dunder_refused. Qed.
Print Assumptions C04_dunder_refused.

Theorem C04_dunder_refused_bytes : forall reg b s flag,
  utf8 b = Some s -> substr dunder s = true -> mem s reg = false ->
  gen_decide reg (VBytes b) flag = ([], AReject ESecurity).
Proof. exact gen_dunder_refused_bytes. Qed.
Print Assumptions C04_dunder_refused_bytes.

(* only_registry_escapes: the application's converter runs exactly for registered tags. *)
Theorem C04_only_registry_escapes : forall reg,
  (forall tag flag imps t, gen_decide reg tag flag = (imps, ACustom t) -> In t reg) /\
  (forall s flag, mem s reg = true -> gen_decide reg (VStr s) flag = ([], ACustom s)).
Proof. exact gen_only_registry_escapes. Qed.
Print Assumptions C04_only_registry_escapes.

(* recreate_types: for every serializer, both decoding paths, every registry and every payload of plain data
   (class-tagged dicts at any depth, any members): every event of the decoding is the construction of a closed-set
   class, a converter registered for that tag, or the sqlite3 import — never a contact with a daemon — and every
   object inside a successfully decoded value is of a closed-set class or came from a registered converter. *)
Theorem C04_recreate_types : forall reg ser call parts,
  Forall plain parts ->
  Forall (event_ok gen_env reg) (fst (gen_run reg ser call parts)) /\
  forall out, snd (gen_run reg ser call parts) = Ok out -> Forall (vall (class_ok gen_env reg)) out.
Proof. exact gen_recreate_types. Qed.
Print Assumptions C04_recreate_types.

(* the same with nothing registered: closed-set classes only, no converter, no remote contact *)
Theorem C04_empty_registry : forall ser call parts,
  Forall plain parts ->
  (forall ev, In ev (fst (gen_run [] ser call parts)) ->
     match ev with EvConstruct c => allowed_cls gen_env c = true | EvImport m => In m allowed_imports | _ => False end) /\
  forall out, snd (gen_run [] ser call parts) = Ok out -> Forall (vall (fun c => allowed_cls gen_env c = true)) out.
Proof. exact gen_empty_registry. Qed.
Print Assumptions C04_empty_registry.

(* the defective variant (msgpack object_hook, bottom-up): a plain-data payload whose exception arguments are a
   proxy's class dict makes the decoder iterate a live proxy, which connects to the address in the payload. *)
Theorem C04_bottomup_refuted : exists parts, Forall plain parts /\ In EvRemote (fst (bottomup_run parts)).
Proof. exact bottomup_refuted. Qed.
Print Assumptions C04_bottomup_refuted.

(* Computed: register_x / unregister_x change the shared class-level registries in place (no serializer subclass ever
   gets a registry of its own). *)
Theorem C04_registries_inplace : reg_d2c_inplace && reg_c2d_inplace = true.
Proof. exact gen_registries_inplace. Qed.
Print Assumptions C04_registries_inplace.

(* registry_histories: for ALL histories of register / unregister calls (either registry, through Pyro5.api /
   SerializerBase or through any concrete serializer class, in any order) and every serializer: the registry that
   serializer consults holds exactly the tags whose last call was a register. *)
Theorem C04_registry_histories : forall k h s t, mem t (gen_effective k h s) = gen_registered k h t.
Proof. exact gen_registry_histories. Qed.
Print Assumptions C04_registry_histories.

(* Computed: register_dict_to_class and unregister_dict_to_class read their tag argument alike (both decode a bytes
   tag to text, or neither does). *)
Theorem C04_registry_keys_agree : Bool.eqb reg_d2c_norm_register reg_d2c_norm_unregister = true.
Proof. exact gen_registry_keys_agree. Qed.
Print Assumptions C04_registry_keys_agree.

(* registry as a map: after ANY history, unregister(x) right after register(x) — same argument x, str or bytes, any
   spelling register accepts, through any two entry points — leaves x's key out of every serializer's registry; by
   C04_only_registry_escapes_hist no payload then reaches that converter. *)
Theorem C04_unregister_undoes_register : forall k h ep1 ep2 op key ser,
  op_kind op = k -> key_of (gen_norm k) op = Some key ->
  mem key (gen_effective k (h ++ [same_arg true ep1 op; same_arg false ep2 op]) ser) = false.
Proof. exact gen_unregister_undoes_register. Qed.
Print Assumptions C04_unregister_undoes_register.

(* the defective variant: register decodes a bytes tag but unregister does not — the pair register(b"T"); unregister(b"T")
   leaves the converter live for the text tag T. *)
Theorem C04_key_mismatch_refuted : exists op key,
  key_of true op = Some key /\
  mem key (effective true true false KD2C [same_arg true EpBase op; same_arg false EpBase op] 3) = true.
Proof. exact key_mismatch_refuted. Qed.
Print Assumptions C04_key_mismatch_refuted.

(* only_registry_escapes over histories (decision of the base-class dict_to_class; for the tag a serializer special-cases before it, see C04_node_special_or_registry): after any history, decoding with any serializer runs the application's
   converter for a tag iff that tag is currently registered. *)
Theorem C04_only_registry_escapes_hist : forall h ser,
  (forall tag flag imps t, gen_decide (gen_effective KD2C h ser) tag flag = (imps, ACustom t) -> gen_registered KD2C h t = true) /\
  (forall s flag, gen_registered KD2C h s = true -> gen_decide (gen_effective KD2C h ser) (VStr s) flag = ([], ACustom s)).
Proof. exact gen_only_registry_escapes_hist. Qed.
Print Assumptions C04_only_registry_escapes_hist.

(* The one exception to "registered => converter", stated explicitly: a serializer's own special tag (serpent's NaN
   encoding, tag "float" — position and tag generated from the source) is turned into a float BEFORE the base class and
   its registry are consulted, registered or not; every other currently registered text tag goes to its converter. *)
Theorem C04_node_special_or_registry : forall h ser sub keys vals,
  let reg := gen_effective KD2C h ser in
  let special := find_special ser_float_special ser in
  let node := d2c_node gen_env dtc_pre dtc_chain dtc_tagkey mkexc_argskey mkexc_attrkey reg special sub keys vals in
  (special_hit special (node_tag dtc_tagkey keys vals) = true -> fst node = [] /\ forall v, snd node = Ok v -> v = VFloat true) /\
  (forall s, special_hit special (node_tag dtc_tagkey keys vals) = false -> node_tag dtc_tagkey keys vals = VStr s ->
             gen_registered KD2C h s = true -> node = ([EvConverter s], Ok (VObj (CCustom s) []))).
Proof. exact gen_node_special_or_registry. Qed.
Print Assumptions C04_node_special_or_registry.

(* recreate_types over histories: whole payloads, any history first; converters run only for currently registered tags *)
Theorem C04_recreate_types_hist : forall h ser call parts,
  Forall plain parts ->
  let reg := gen_effective KD2C h ser in
  Forall (event_ok gen_env reg) (fst (gen_run reg ser call parts)) /\
  (forall t, In (EvConverter t) (fst (gen_run reg ser call parts)) -> gen_registered KD2C h t = true) /\
  forall out, snd (gen_run reg ser call parts) = Ok out -> Forall (vall (class_ok gen_env reg)) out.
Proof. exact gen_recreate_types_hist. Qed.
Print Assumptions C04_recreate_types_hist.

(* the defective variant (registries rebound through cls): register via JsonSerializer, unregister via the api —
   the json serializer still has the converter although the tag is not registered any more. *)
Theorem C04_rebind_refuted : exists h s t, mem t (effective false false false KD2C h s) = true /\ currently_registered false KD2C h t = false.
Proof. exact rebind_refuted. Qed.
Print Assumptions C04_rebind_refuted.

(* non-vacuity: a payload that builds objects, one that is refused, one that reaches the converter *)
Example C04_nonvacuous_builds :
  snd (gen_run [] 3 false [VList [proxy_dict; VDict [VStr dtc_tagkey; VStr (txt "__exception__"); VStr mkexc_argskey]
                                                    [VStr (txt "sqlite3.OperationalError"); VInt 1; VList [VStr (txt "m")]]]])
  = Ok [VList [VObj (CNamed (txt "Pyro5.client.Proxy")) [VList [VStr (txt "PYRO:o@127.0.0.1:9"); VList []; VList []; VList []; VStr (txt "hs"); VNone]];
               VObj (CNs (txt "sqlite3") (txt "OperationalError") (EntClass (txt "sqlite3.OperationalError") true false)) [VList [VStr (txt "m")]]]].
Proof. vm_compute. reflexivity. Qed.
Example C04_nonvacuous_refused :
  gen_decide [] (VStr (txt "builtins.__import__")) (fun _ => true) = ([], AReject ESecurity) /\
  snd (gen_decide [] (VStr (txt "os.system")) (fun _ => true)) = AReject ESerialize /\
  snd (gen_decide [] (VStr (txt "builtins.open")) (fun _ => true)) = AReject ETypeError.
Proof. vm_compute. auto. Qed.
Example C04_nonvacuous_history :
  let h := [ {| op_add := true; op_ep := EpSer 3; op_kind := KD2C; op_bytes := false; op_tag := txt "a.B" |};
             {| op_add := true; op_ep := EpBase; op_kind := KD2C; op_bytes := false; op_tag := txt "c.D" |};
             {| op_add := false; op_ep := EpBase; op_kind := KD2C; op_bytes := false; op_tag := txt "a.B" |} ] in
  gen_registered KD2C h (txt "c.D") = true /\ gen_registered KD2C h (txt "a.B") = false /\
  gen_effective KD2C h 3 = [txt "c.D"] /\ gen_effective KD2C h 1 = [txt "c.D"].
Proof. vm_compute. auto. Qed.
Example C04_nonvacuous_special :
  special_hit (find_special ser_float_special 1) (VStr (txt "float")) = true /\ special_hit (find_special ser_float_special 3) (VStr (txt "float")) = false /\
  gen_run [txt "float"] 1 false [VDict [VStr dtc_tagkey; VStr (txt "value")] [VStr (txt "float"); VStr (txt "nan")]] = ([], Ok [VFloat true]) /\
  fst (gen_run [txt "float"] 3 false [VDict [VStr dtc_tagkey; VStr (txt "value")] [VStr (txt "float"); VStr (txt "nan")]]) = [EvConverter (txt "float")].
Proof. vm_compute. auto. Qed.
Example C04_nonvacuous_registry :
  gen_decide [txt "my.__Special__"] (VStr (txt "my.__Special__")) (fun _ => false) = ([], ACustom (txt "my.__Special__")).
Proof. vm_compute. reflexivity. Qed.
